"""Small models needed by the CLI argument records (clap structs) on the flow path."""
import z3

from values import *     # noqa
from models import model, fallback, chars_of


@model('OnceCell::new', 'OnceLock::new')
def _oncecell_new(I, ci):
    return Adt('OnceCell', 0, [none()])


@model('<OnceCell>::clone')
def _oncecell_clone(I, ci, c):
    return Adt('OnceCell', 0, [none()])


@model('<Add>::add')
def _add(I, ci, a, b):
    pa = peel(a)
    if isinstance(pa, (Str, StringObj)):
        return StringObj(list(pa.chars) + chars_of(b))
    return pa + peel(b)
