"""Small models needed by the CLI argument records (clap structs) on the flow path."""
import z3

from values import *     # noqa
from models import model, fallback, chars_of


@model('OnceCell::new', 'OnceLock::new')
def _oncecell_new(I, ci):
    return Adt('OnceCell', 0, [none()])


@model('<OnceCell>::clone')
def _oncecell_clone(I, ci, c):
    return Adt('OnceCell', 0, [none()])


@model('<Add>::add')
def _add(I, ci, a, b):
    pa = peel(a)
    if isinstance(pa, (Str, StringObj)):
        return StringObj(list(pa.chars) + chars_of(b))
    return pa + peel(b)


# ------------------------------------------------------------------ logging (tracing): disabled — the macros' level test answers false, so
# no event is built and no formatting of the logged values is executed (documented stub: logging has no effect on results)
def _tracing_const(I, text):
    if text.startswith('tracing::Level::') or text.startswith('tracing::level_filters::') or text.startswith('tracing_subscriber::filter::LevelFilter::'):
        return Opaque('tracing', [text])
    return None


from models import CONSTS as _CONSTS
_CONSTS.append(_tracing_const)


@model('<Level as PartialOrd<LevelFilter>>::le', '<Level as PartialOrd<LevelFilter>>::lt', '<Level as PartialOrd>::le')
def _tracing_le(I, ci, a, b):
    return False


# ------------------------------------------------------------------ std::process::Command (C13: the git boundary function run from MIR)
PROCESS_OUTPUT = [None]     # set by the harness: dict(success=bool|z3 Bool, stdout=[bytes], stderr=[bytes])


@model('Command::new')
def _cmd_new(I, ci, prog):
    return Opaque('Command', dict(prog=prog, args=[], cwd=None))


@model('Command::args', 'Command::arg', 'Command::current_dir', 'Command::env', 'Command::stdin', 'Command::stdout', 'Command::stderr')
def _cmd_builder(I, ci, cmd, *a):
    return cmd


@model('Command::output')
def _cmd_output(I, ci, cmd):
    po = PROCESS_OUTPUT[0]
    if po is None:
        raise Unsupported('std::process::Command::output outside a process-stub harness')
    return ok(Adt('Output', 0, [Opaque('ExitStatus', po['success']), VecObj(list(po['stdout'])), VecObj(list(po['stderr']))]))


@model('ExitStatus::success')
def _exit_success(I, ci, st):
    return peel(st).state
