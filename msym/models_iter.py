"""Iterator models.  Iterators are python objects with nxt(I) -> value | STOP."""
import z3

from values import *     # noqa
from models import model, fallback, chars_of, conj, disj, neg, items_of, struct_eq, is_stringlike


class _Stop:
    def __repr__(self):
        return 'STOP'


STOP = _Stop()


class Iter:
    kind = 'Iter'
    double_ended = False

    def nxt(self, I):
        raise NotImplementedError

    def nxt_back(self, I):
        raise Unsupported('next_back on ' + self.kind)

    def drain(self, I):
        out = []
        while True:
            v = self.nxt(I)
            if v is STOP:
                return out
            out.append(v)


class ListIter(Iter):
    def __init__(self, items, kind='Iter', by_ref=None):
        self.items = list(items)
        self.i = 0
        self.j = len(self.items)
        self.kind = kind

    def nxt(self, I):
        if self.i >= self.j:
            return STOP
        v = self.items[self.i]
        self.i += 1
        return v

    def nxt_back(self, I):
        if self.i >= self.j:
            return STOP
        self.j -= 1
        return self.items[self.j]

    def remaining(self):
        return self.items[self.i:self.j]


class RefIter(Iter):
    """slice::Iter / IterMut: yields element pointers into a backing list"""

    def __init__(self, back, lo=0, hi=None):
        self.back = back
        self.i = lo
        self.j = len(back) if hi is None else hi
        self.kind = 'slice::Iter'

    def nxt(self, I):
        if self.i >= self.j:
            return STOP
        p = ElemPtr(ValPtr(Slice(self.back)), self.i)
        self.i += 1
        return p

    def nxt_back(self, I):
        if self.i >= self.j:
            return STOP
        self.j -= 1
        return ElemPtr(ValPtr(Slice(self.back)), self.j)


class LazySplit(Iter):
    kind = 'Split'

    def __init__(self, I, cs, pat):
        self.cs = cs
        self.pat = pat
        self.pos = 0
        self.done = False

    def nxt(self, I):
        from models_str import find_first
        if self.done:
            return STOP
        r = find_first(I, self.cs, self.pat, self.pos)
        if r is None:
            self.done = True
            return Str(self.cs[self.pos:])
        out = Str(self.cs[self.pos:r[0]])
        self.pos = r[0] + r[1]
        return out


class MapIter(Iter):
    kind = 'Map'

    def __init__(self, inner, f):
        self.inner = inner
        self.f = f

    def nxt(self, I):
        v = self.inner.nxt(I)
        if v is STOP:
            return STOP
        return I.call_value(self.f, [v])

    def nxt_back(self, I):
        v = self.inner.nxt_back(I)
        if v is STOP:
            return STOP
        return I.call_value(self.f, [v])


class FilterIter(Iter):
    kind = 'Filter'

    def __init__(self, inner, f):
        self.inner = inner
        self.f = f

    def nxt(self, I):
        while True:
            v = self.inner.nxt(I)
            if v is STOP:
                return STOP
            if I.world.branch(I.call_value(self.f, [ValPtr(v)])):
                return v


class FilterMapIter(Iter):
    kind = 'FilterMap'

    def __init__(self, inner, f):
        self.inner = inner
        self.f = f

    def nxt(self, I):
        while True:
            v = self.inner.nxt(I)
            if v is STOP:
                return STOP
            r = I.call_value(self.f, [v])
            if opt_is_some(I, r):
                return r.fields[0]


def opt_is_some(I, r):
    if isinstance(r.variant, int):
        return r.variant == 1
    return I.world.branch(r.variant == 1)


class EnumerateIter(Iter):
    kind = 'Enumerate'

    def __init__(self, inner):
        self.inner = inner
        self.n = 0

    def nxt(self, I):
        v = self.inner.nxt(I)
        if v is STOP:
            return STOP
        t = Tuple(self.n, v)
        self.n += 1
        return t


class ZipIter(Iter):
    kind = 'Zip'

    def __init__(self, a, b):
        self.a = a
        self.b = b

    def nxt(self, I):
        x = self.a.nxt(I)
        if x is STOP:
            return STOP
        y = self.b.nxt(I)
        if y is STOP:
            return STOP
        return Tuple(x, y)


class ChainIter(Iter):
    kind = 'Chain'

    def __init__(self, a, b):
        self.a = a
        self.b = b

    def nxt(self, I):
        if self.a is not None:
            x = self.a.nxt(I)
            if x is not STOP:
                return x
            self.a = None
        return self.b.nxt(I)


class SkipIter(Iter):
    kind = 'Skip'

    def __init__(self, inner, n):
        self.inner = inner
        self.n = n

    def nxt(self, I):
        while self.n > 0:
            self.n -= 1
            if self.inner.nxt(I) is STOP:
                return STOP
        return self.inner.nxt(I)


class TakeIter(Iter):
    kind = 'Take'

    def __init__(self, inner, n):
        self.inner = inner
        self.n = n

    def nxt(self, I):
        if self.n <= 0:
            return STOP
        self.n -= 1
        return self.inner.nxt(I)


class TakeWhileIter(Iter):
    kind = 'TakeWhile'

    def __init__(self, inner, f, skip=False):
        self.inner = inner
        self.f = f
        self.done = False
        self.skip = skip

    def nxt(self, I):
        if self.skip:
            while not self.done:
                v = self.inner.nxt(I)
                if v is STOP:
                    return STOP
                if not I.world.branch(I.call_value(self.f, [ValPtr(v)])):
                    self.done = True
                    return v
            return self.inner.nxt(I)
        if self.done:
            return STOP
        v = self.inner.nxt(I)
        if v is STOP:
            return STOP
        if I.world.branch(I.call_value(self.f, [ValPtr(v)])):
            return v
        self.done = True
        return STOP


class PeekIter(Iter):
    kind = 'Peekable'

    def __init__(self, inner):
        self.inner = inner
        self.buf = []

    def nxt(self, I):
        if self.buf:
            return self.buf.pop(0)
        return self.inner.nxt(I)

    def peek(self, I):
        if not self.buf:
            v = self.inner.nxt(I)
            if v is STOP:
                return STOP
            self.buf.append(v)
        return self.buf[0]


class RevIter(Iter):
    kind = 'Rev'

    def __init__(self, inner):
        self.inner = inner

    def nxt(self, I):
        return self.inner.nxt_back(I)

    def nxt_back(self, I):
        return self.inner.nxt(I)


class ClonedIter(Iter):
    kind = 'Cloned'

    def __init__(self, inner):
        self.inner = inner

    def nxt(self, I):
        v = self.inner.nxt(I)
        if v is STOP:
            return STOP
        return clone_value(I, v)

    def nxt_back(self, I):
        v = self.inner.nxt_back(I)
        if v is STOP:
            return STOP
        return clone_value(I, v)


class RangeIter(Iter):
    kind = 'Range'

    def __init__(self, a, b):
        self.a = a
        self.b = b

    def nxt(self, I):
        if not isinstance(self.a, int) or not isinstance(self.b, int):
            if not I.world.branch(self.a < self.b):
                return STOP
            v = self.a
            self.a = self.a + 1
            return v
        if self.a >= self.b:
            return STOP
        v = self.a
        self.a += 1
        return v

    def nxt_back(self, I):
        if self.a >= self.b:
            return STOP
        self.b -= 1
        return self.b


class FlatIter(Iter):
    kind = 'FlatMap'

    def __init__(self, inner, f=None):
        self.inner = inner
        self.f = f
        self.cur = None

    def nxt(self, I):
        while True:
            if self.cur is not None:
                v = self.cur.nxt(I)
                if v is not STOP:
                    return v
                self.cur = None
            x = self.inner.nxt(I)
            if x is STOP:
                return STOP
            if self.f is not None:
                x = I.call_value(self.f, [x])
            self.cur = into_iter(I, x)


class OnceIter(ListIter):
    pass


def clone_value(I, v):
    from models_std import do_clone
    return do_clone(I, v)


def into_iter(I, v):
    """IntoIterator::into_iter semantics on a runtime value"""
    if isinstance(v, Iter):
        return v
    if isinstance(v, Ptr):
        t = v.load()
        if isinstance(t, Iter):
            return t
        if isinstance(t, VecObj):
            return RefIter(t.items)
        if isinstance(t, Slice):
            return RefIter(t.back, t.lo, t.hi)
        if isinstance(t, MapObj):
            return map_iter(t, by_ref=True)
        if isinstance(t, Adt) and t.name == 'Option':
            return ListIter([FieldPtr(v, 0)] if t.variant == 1 else [])
        if isinstance(t, Adt) and t.name == 'Box':
            return into_iter(I, deref_ptr(t))
        if isinstance(t, Ptr):
            return into_iter(I, t)
        raise Unsupported('into_iter on &%r' % (t,))
    if isinstance(v, VecObj):
        return ListIter(v.items, kind='vec::IntoIter')
    if isinstance(v, Slice):
        return RefIter(v.back, v.lo, v.hi)
    if isinstance(v, MapObj):
        return map_iter(v, by_ref=False)
    if isinstance(v, Adt) and v.name == 'Option':
        if not isinstance(v.variant, int):
            v.variant = 1 if I.world.branch(v.variant == 1) else 0
        return ListIter(v.fields[:1] if v.variant == 1 else [])
    if isinstance(v, Adt) and v.name in ('Range',):
        return RangeIter(v.fields[0], v.fields[1])
    if isinstance(v, Adt) and v.name == 'RangeInclusive':
        return RangeIter(v.fields[0], v.fields[1] + 1)
    if isinstance(v, Adt) and v.name == 'Box':
        return into_iter(I, deref_ptr(v).load())
    raise Unsupported('into_iter on %r' % (v,))


ORDER_HOOK = [None]      # models_env: iteration order of std hash containers under the two-environment harness


def map_iter(m, by_ref):
    if ORDER_HOOK[0] is not None and m.kind in ('HashMap', 'HashSet') and len(m.entries) >= 2:
        perm = ORDER_HOOK[0](m)
        if perm is not None:
            m2 = MapObj([m.entries[i] for i in perm], m.kind)
            if by_ref and m.kind == 'HashMap':
                # values stay addressable in the original map
                return ListIter([Tuple(ValPtr(m.entries[i][0]), EntryValPtr(m, m.entries[i][0])) for i in perm], kind='map::Iter')
            m = m2
    if m.kind in ('HashSet', 'BTreeSet', 'IndexSet'):
        if by_ref:
            return ListIter([ValPtr(k) for k, _ in m.entries], kind='set::Iter')
        return ListIter([k for k, _ in m.entries], kind='set::IntoIter')
    if by_ref:
        out = []
        for e in m.entries:
            out.append(Tuple(ValPtr(e[0]), EntryValPtr(m, e[0])))
        return ListIter(out, kind='map::Iter')
    return ListIter([Tuple(k, v) for k, v in m.entries], kind='map::IntoIter')


class EntryValPtr(Ptr):
    __slots__ = ('m', 'k')

    def __init__(self, m, k):
        self.m = m
        self.k = k

    def load(self):
        for k, v in self.m.entries:
            if k is self.k:
                return v
        raise Unsupported('stale map entry')

    def store(self, nv):
        for i, (k, v) in enumerate(self.m.entries):
            if k is self.k:
                self.m.entries[i] = (k, nv)
                return
        raise Unsupported('stale map entry')


def as_iter(I, it):
    """resolve `&mut Iter` / Iter"""
    v = peel(it) if not isinstance(it, Iter) else it
    if isinstance(v, Iter):
        return v
    return into_iter(I, it)


def wrap_next(v):
    return none() if v is STOP else some(v)


# ------------------------------------------------------------------ trait-method models (dispatch on values)
@model('<Iterator>::next')
def _next(I, ci, it):
    return wrap_next(as_iter(I, it).nxt(I))


@model('<DoubleEndedIterator>::next_back')
def _next_back(I, ci, it):
    return wrap_next(as_iter(I, it).nxt_back(I))


@model('<IntoIterator>::into_iter')
def _into_iter(I, ci, v):
    return into_iter(I, v)


@model('<Iterator>::map')
def _map(I, ci, it, f):
    return MapIter(as_iter(I, it), f)


@model('<Iterator>::filter')
def _filter(I, ci, it, f):
    return FilterIter(as_iter(I, it), f)


@model('<Iterator>::filter_map')
def _filter_map(I, ci, it, f):
    return FilterMapIter(as_iter(I, it), f)


@model('<Iterator>::flat_map')
def _flat_map(I, ci, it, f):
    return FlatIter(as_iter(I, it), f)


@model('<Iterator>::flatten')
def _flatten(I, ci, it):
    return FlatIter(as_iter(I, it))


@model('<Iterator>::enumerate')
def _enumerate(I, ci, it):
    return EnumerateIter(as_iter(I, it))


@model('<Iterator>::zip')
def _zip(I, ci, a, b):
    return ZipIter(as_iter(I, a), into_iter(I, b))


@model('<Iterator>::chain')
def _chain(I, ci, a, b):
    return ChainIter(as_iter(I, a), into_iter(I, b))


@model('<Iterator>::skip')
def _skip(I, ci, it, n):
    return SkipIter(as_iter(I, it), I.world.concretize_int(n, what='skip'))


@model('<Iterator>::take')
def _take(I, ci, it, n):
    return TakeIter(as_iter(I, it), I.world.concretize_int(n, what='take'))


@model('<Iterator>::take_while')
def _take_while(I, ci, it, f):
    return TakeWhileIter(as_iter(I, it), f)


@model('<Iterator>::skip_while')
def _skip_while(I, ci, it, f):
    return TakeWhileIter(as_iter(I, it), f, skip=True)


@model('<Iterator>::peekable')
def _peekable(I, ci, it):
    return PeekIter(as_iter(I, it))


@model('Peekable::peek')
def _peek(I, ci, it):
    v = peel(it).peek(I)
    return none() if v is STOP else some(ValPtr(v))


@model('<Iterator>::rev')
def _rev(I, ci, it):
    return RevIter(as_iter(I, it))


@model('<Iterator>::cloned', '<Iterator>::copied')
def _cloned(I, ci, it):
    return ClonedIter(as_iter(I, it))


@model('<Iterator>::by_ref')
def _by_ref(I, ci, it):
    return it


@model('<Iterator>::collect', '<FromIterator>::from_iter')
def _collect(I, ci, it):
    target = None
    if ci.key == '<Iterator>::collect':
        g = ci.path[-1] if ci.path and ci.path[-1].startswith('<') else ''
        target = g[1:-1] if g else ''
    else:
        target = ci.selfty_full
    return collect_into(I, as_iter(I, it) if not isinstance(it, Iter) else it, target)


def collect_into(I, it, target):
    from interp import last_seg
    t = last_seg(target) if target else 'Vec'
    items = it.drain(I)
    if t == 'Vec' or t == 'Box' or t == 'slice':
        return VecObj(items)
    if t == 'String':
        out = []
        for x in items:
            x = peel(x)
            if isinstance(x, (Str, StringObj)):
                out.extend(x.chars)
            else:
                out.append(x)
        return StringObj(out)
    if t in ('Result', 'Option'):
        from interp import generic_args
        inner = generic_args(target)
        vals = []
        for x in items:
            if not isinstance(x.variant, int):
                x.variant = I.world.concretize_int(x.variant, [0, 1])
            bad = 1 if t == 'Result' else 0
            if x.variant == bad:
                return x if t == 'Result' else none()
            vals.append(x.fields[0])
        inner_v = collect_into(I, ListIter(vals), inner[0] if inner else 'Vec')
        return ok(inner_v) if t == 'Result' else some(inner_v)
    if t in ('HashMap', 'IndexMap', 'BTreeMap', 'HashSet', 'BTreeSet', 'IndexSet'):
        from models_std import map_insert
        m = MapObj([], t)
        for x in items:
            if t.endswith('Set'):
                map_insert(I, m, x, UNIT)
            else:
                map_insert(I, m, x.fields[0], x.fields[1])
        if t.startswith('BTree'):
            from models_std import sort_items
            ks = sort_items(I, [k for k, _ in m.entries])
            m.entries = [(k, next(v for kk, v in m.entries if kk is k)) for k in ks]
        return m
    raise Unsupported('collect into ' + str(target))


@model('<Iterator>::all')
def _all(I, ci, it, f):
    it = as_iter(I, it)
    while True:
        v = it.nxt(I)
        if v is STOP:
            return True
        if not I.world.branch(I.call_value(f, [v])):
            return False


@model('<Iterator>::any')
def _any(I, ci, it, f):
    it = as_iter(I, it)
    while True:
        v = it.nxt(I)
        if v is STOP:
            return False
        if I.world.branch(I.call_value(f, [v])):
            return True


@model('<Iterator>::find')
def _find(I, ci, it, f):
    it = as_iter(I, it)
    while True:
        v = it.nxt(I)
        if v is STOP:
            return none()
        if I.world.branch(I.call_value(f, [ValPtr(v)])):
            return some(v)


@model('<Iterator>::find_map')
def _find_map(I, ci, it, f):
    it = as_iter(I, it)
    while True:
        v = it.nxt(I)
        if v is STOP:
            return none()
        r = I.call_value(f, [v])
        if opt_is_some(I, r):
            return r


@model('<Iterator>::position')
def _position(I, ci, it, f):
    it = as_iter(I, it)
    n = 0
    while True:
        v = it.nxt(I)
        if v is STOP:
            return none()
        if I.world.branch(I.call_value(f, [v])):
            return some(n)
        n += 1


@model('<Iterator>::count')
def _count(I, ci, it):
    return len(as_iter(I, it).drain(I))


@model('<Iterator>::last')
def _last(I, ci, it):
    xs = as_iter(I, it).drain(I)
    return some(xs[-1]) if xs else none()


@model('<Iterator>::nth')
def _nth(I, ci, it, n):
    it = as_iter(I, it)
    n = I.world.concretize_int(n, what='nth')
    v = STOP
    for _ in range(n + 1):
        v = it.nxt(I)
        if v is STOP:
            return none()
    return some(v)


@model('<Iterator>::fold')
def _fold(I, ci, it, init, f):
    acc = init
    it = as_iter(I, it)
    while True:
        v = it.nxt(I)
        if v is STOP:
            return acc
        acc = I.call_value(f, [acc, v])


@model('<Iterator>::for_each')
def _for_each(I, ci, it, f):
    it = as_iter(I, it)
    while True:
        v = it.nxt(I)
        if v is STOP:
            return UNIT
        I.call_value(f, [v])


@model('<Iterator>::sum')
def _sum(I, ci, it):
    acc = 0
    for v in as_iter(I, it).drain(I):
        acc = acc + peel(v)
    return acc


@model('<Iterator>::max', '<Iterator>::min')
def _max(I, ci, it):
    from models_std import do_cmp
    xs = as_iter(I, it).drain(I)
    if not xs:
        return none()
    best = xs[0]
    for x in xs[1:]:
        o = do_cmp(I, best, x)
        v = I.world.concretize_int(o.variant, [-1, 0, 1])
        if ci.method == 'max':
            if v <= 0:
                best = x
        else:
            if v > 0:
                best = x
    return some(best)


@model('<Iterator>::max_by', '<Iterator>::min_by')
def _max_by(I, ci, it, f):
    xs = as_iter(I, it).drain(I)
    if not xs:
        return none()
    best = xs[0]
    for x in xs[1:]:
        o = I.call_value(f, [ValPtr(best), ValPtr(x)])
        v = I.world.concretize_int(o.variant, [-1, 0, 1])
        if ci.method == 'max_by':
            if v <= 0:
                best = x
        else:
            if v > 0:
                best = x
    return some(best)


@model('<Iterator>::max_by_key', '<Iterator>::min_by_key')
def _max_by_key(I, ci, it, f):
    from models_std import do_cmp
    xs = as_iter(I, it).drain(I)
    if not xs:
        return none()
    best = xs[0]
    bk = I.call_value(f, [ValPtr(best)])
    for x in xs[1:]:
        k = I.call_value(f, [ValPtr(x)])
        v = I.world.concretize_int(do_cmp(I, bk, k).variant, [-1, 0, 1])
        if (ci.method == 'max_by_key' and v <= 0) or (ci.method == 'min_by_key' and v > 0):
            best, bk = x, k
    return some(best)


@model('<Iterator>::size_hint')
def _size_hint(I, ci, it):
    return Tuple(0, none())


@model('<ExactSizeIterator>::len')
def _exact_len(I, ci, it):
    it = as_iter(I, it)
    if isinstance(it, ListIter):
        return it.j - it.i
    if isinstance(it, RefIter):
        return it.j - it.i
    raise Unsupported('ExactSizeIterator::len on ' + it.kind)


@model('<Iterator>::unzip')
def _unzip(I, ci, it):
    xs = as_iter(I, it).drain(I)
    return Tuple(VecObj([x.fields[0] for x in xs]), VecObj([x.fields[1] for x in xs]))


@model('<Iterator>::partition')
def _partition(I, ci, it, f):
    a, b = [], []
    for x in as_iter(I, it).drain(I):
        (a if I.world.branch(I.call_value(f, [ValPtr(x)])) else b).append(x)
    return Tuple(VecObj(a), VecObj(b))


@model('once', 'iter::once')
def _once(I, ci, v):
    return ListIter([v], kind='Once')


@model('Chars::as_str')
def _chars_as_str(I, ci, it):
    it = peel(it)
    return Str(it.remaining())


@model('Chars::rev', 'Split::rev')
def _x_rev(I, ci, it):
    return RevIter(as_iter(I, it))
