"""Program = parsed MIR dump + name resolution tables derived from the dump and from the source spans it names."""
import functools
import os
import re
import glob

import mirparse
from mirparse import strip_generics

STD_ENUMS = {
    'Option': ['None', 'Some'],
    'Result': ['Ok', 'Err'],
    'ControlFlow': ['Continue', 'Break'],
    'Cow': ['Borrowed', 'Owned'],
    'Bound': ['Included', 'Excluded', 'Unbounded'],
    'Value': ['Null', 'Bool', 'Number', 'String', 'Array', 'Object'],
    'Item': ['Literal', 'OwnedLiteral', 'Space', 'OwnedSpace', 'Numeric', 'Fixed', 'Error'],
}
ORDERING = {'Less': -1, 'Equal': 0, 'Greater': 1}


def type_key(t):
    """normalise a type for index keys: last path segments, generics kept (also normalised)"""
    if t is None:
        return None
    t = t.strip()
    t = re.sub(r"'\w+\s*,?\s*", '', t)            # lifetimes
    t = t.replace('<>', '')

    def seg(m):
        return m.group(0).split('::')[-1]
    t = re.sub(r'[A-Za-z_][\w]*(?:::[A-Za-z_]\w*)+', seg, t)
    t = re.sub(r'\s+', ' ', t)
    return t


class Program:
    def __init__(self, mir_path, repo='/repo'):
        self.repo = repo
        self.funcs, self.statics = mirparse.parse_file(mir_path)
        self.enums = dict(STD_ENUMS)          # name -> [variant names]
        self.enum_discr = {}                  # (name, variant) -> explicit discriminant
        self.fields = {}                      # struct name -> [field names]
        self._scan_source_enums()
        self.impl_index = {}                  # (trait_key|None, type_key, method) -> [Func]
        self.closures = {}                    # '{closure@span}' -> Func
        self.free = {}                        # last segment -> [Func]
        self._build_index()
        self._resolve_cache = {}

    # ------------------------------------------------------------------ source scanning
    @functools.lru_cache(None)
    def src(self, path):
        with open(os.path.join(self.repo, path)) as f:
            return f.read().split('\n')

    def _scan_source_enums(self):
        for path in glob.glob(os.path.join(self.repo, 'src/**/*.rs'), recursive=True):
            txt = open(path).read()
            txt_nc = re.sub(r'//[^\n]*', '', txt)
            for m in re.finditer(r'\benum\s+(\w+)\s*(?:<[^>{]*>)?\s*\{', txt_nc):
                name = m.group(1)
                body, _ = balanced(txt_nc, m.end() - 1)
                variants = []
                for part in split_variants(body):
                    part = re.sub(r'#\[[^\]]*\]', '', part, flags=re.S).strip()
                    mm = re.match(r'(\w+)', part)
                    if not mm:
                        continue
                    variants.append(mm.group(1))
                    md = re.search(r'=\s*(-?\d+)\s*$', part)
                    if md:
                        self.enum_discr[(name, mm.group(1))] = int(md.group(1))
                if name in self.enums and self.enums[name] != variants:
                    # ambiguous enum name: keep both under file-qualified keys
                    self.enums.setdefault('__dups__', {}).setdefault(name, []).append((path, variants))
                    prev = self.enums[name]
                    if isinstance(prev, list):
                        self.enums['__dups__'][name].append((None, prev))
                else:
                    self.enums[name] = variants

    def variant_index(self, ty, var):
        if ty == 'Ordering':
            return ORDERING.get(var)
        vs = self.enums.get(ty)
        if vs is None or var not in vs:
            dups = self.enums.get('__dups__', {}).get(ty, [])
            for _, vl in dups:
                if var in vl:
                    vs = vl
                    break
            else:
                return None
        if (ty, var) in self.enum_discr:
            return self.enum_discr[(ty, var)]
        return vs.index(var)

    def bare_variant(self, name):
        """a unit variant printed without its enum (rustc trims unique paths): -> (enum, discriminant) or None"""
        if name in ORDERING:
            return 'Ordering', ORDERING[name]
        if not hasattr(self, '_bare'):
            self._bare = {}
            for en, vs in self.enums.items():
                if en == '__dups__':
                    continue
                for v in vs:
                    self._bare.setdefault(v, []).append(en)
        ens = self._bare.get(name)
        if ens and len(ens) == 1:
            return ens[0], self.variant_index(ens[0], name)
        return None

    def variant_name(self, ty, idx):
        if ty == 'Ordering':
            return {-1: 'Less', 0: 'Equal', 1: 'Greater'}[idx]
        return self.enums[ty][idx]

    def note_fields(self, ty, names):
        self.fields.setdefault(ty, names)

    # ------------------------------------------------------------------ index
    def impl_header(self, span):
        """'src/utils/sanitize.rs:23:1: 23:15' -> (trait text|None, type text, is_derive)"""
        m = re.match(r'(.+?):(\d+):(\d+): (\d+):(\d+)$', span)
        f, l, c = m.group(1), int(m.group(2)), int(m.group(3))
        lines = self.src(f)
        text = lines[l - 1][c - 1:]
        if text.startswith('impl'):
            full = ' '.join(x.strip() for x in lines[l - 1:l + 6])
            full = full[full.index('impl'):]
            full = full.split('{')[0]
            body = full[4:].strip()
            if body.startswith('<'):
                e = match_angle(body, 0)
                body = body[e + 1:].strip()
            body = body.split(' where ')[0].strip()
            k = mirparse.top_find(body, ' for ', angle=True)
            if k >= 0:
                return body[:k].strip(), body[k + 5:].strip(), False
            return None, body, False
        tr = re.match(r'([\w:]+)', text).group(1).split('::')[-1]
        for k in range(l - 1, min(l + 60, len(lines))):
            ln = lines[k].strip()
            if ln.startswith(('#', '//')):
                continue
            mm = re.search(r'\b(?:struct|enum)\s+(\w+)', ln)
            if mm:
                return tr, mm.group(1), True
        return tr, None, True

    def _build_index(self):
        for name, f in self.funcs.items():
            if '{closure#' in name and f.params:
                t = f.params[0][1]
                t = re.sub(r'^&(mut )?', '', t).strip()
                if t.startswith('{closure@'):
                    self.closures[t] = f
                continue
            if f.kind != 'fn':
                continue
            m = re.match(r'(.*?)<impl at ([^>]+)>::(\w+)$', name)
            if m:
                try:
                    tr, ty, derived = self.impl_header(m.group(2))
                except Exception:
                    continue
                key = (type_key(tr), type_key(ty), m.group(3))
                self.impl_index.setdefault(key, []).append(f)
                # also index with generics stripped for loose lookup
                key2 = (strip_generics(key[0]) if key[0] else None, strip_generics(key[1] or ''), m.group(3))
                if key2 != key:
                    self.impl_index.setdefault(key2, []).append(f)
                continue
            segs = name.split('::')
            self.free.setdefault(segs[-1], []).append(f)
            if len(segs) >= 2:
                # trait default methods `Trait::method` and similar
                self.impl_index.setdefault((None, segs[-2], segs[-1]), []).append(f)

    def resolve(self, ci):
        hit = self._resolve_cache.get(ci.text, 0)
        if hit != 0:
            return hit
        r = self._resolve(ci)
        self._resolve_cache[ci.text] = r
        return r

    def _resolve(self, ci):
        t = ci.text
        if t in self.funcs and self.funcs[t].kind == 'fn':
            return self.funcs[t]
        if ci.selfty is not None:
            tr = type_key(ci.trait_full) if ci.trait_full else None
            ty = type_key(ci.selfty_full)
            for key in ((tr, ty, ci.method),
                        (strip_generics(tr) if tr else None, strip_generics(ty), ci.method)):
                c = self.impl_index.get(key)
                if c:
                    return self._pick(c, ci)
            # `&T` receivers of trait impls on T are *not* looked up here: rustc prints the impl type exactly
            if tr is None:
                # inherent call printed as Type::method but defined in a trait default body?
                c = self.impl_index.get((None, strip_generics(ty), ci.method))
                if c:
                    return self._pick(c, ci)
            else:
                # trait default method body: `Trait::method`
                c = self.impl_index.get((None, strip_generics(tr), ci.method))
                if c and self.has_impl(strip_generics(tr), strip_generics(ty)):
                    return self._pick(c, ci)
            return None
        # free function: exact or unique suffix
        flat = re.sub(r'::+', '::', strip_generics(t)).strip(':')
        cands = self.free.get(flat.split('::')[-1], [])
        good = [f for f in cands if f.name == flat or f.name.endswith('::' + flat) or flat.endswith('::' + f.name)]
        if len(good) == 1:
            return good[0]
        if len(good) > 1:
            exact = [f for f in good if f.name == flat]
            if exact:
                return exact[0]
        return None

    def has_impl(self, tr, ty):
        for (a, b, _m) in self.impl_index:
            if a is not None and strip_generics(a) == tr and strip_generics(b or '') == ty:
                return True
        # empty impl blocks (all default methods) leave no function: look at the source
        return self._empty_impl(tr, ty)

    @functools.lru_cache(None)
    def _empty_impl(self, tr, ty):
        pat = re.compile(r'impl(?:<[^>]*>)?\s+(?:[\w:]+::)?%s(?:<[^{]*>)?\s+for\s+(?:[\w:]+::)?%s\b' % (re.escape(tr), re.escape(ty)))
        for path in glob.glob(os.path.join(self.repo, 'src/**/*.rs'), recursive=True):
            if pat.search(open(path).read()):
                return True
        return False

    def _pick(self, cands, ci):
        if len(cands) == 1:
            return cands[0]
        # disambiguate by module path segments mentioned at the call site
        hint = set(re.findall(r'\w+', ci.selfty_full or '') + re.findall(r'\w+', ci.text.split('<impl')[0]))
        best = None
        score = -1
        for f in cands:
            words = set(re.findall(r'\w+', f.name))
            s = len(words & hint)
            if s > score:
                best, score = f, s
        return best

    @functools.lru_cache(None)
    def impl_generic_names(self, fname):
        """names of the generic parameters of the impl block a function belongs to (from the source header)"""
        m = re.match(r'(.*?)<impl at ([^>]+)>::', fname)
        if not m:
            return []
        mm = re.match(r'(.+?):(\d+):(\d+): ', m.group(2))
        lines = self.src(mm.group(1))
        text = ' '.join(x.strip() for x in lines[int(mm.group(2)) - 1:int(mm.group(2)) + 3])
        text = text[int(mm.group(3)) - 1:] if False else text
        k = text.find('impl<')
        if k < 0:
            return []
        e = match_angle(text, k + 4)
        names = []
        for part in mirparse.split_top(text[k + 5:e]):
            part = part.strip()
            if part.startswith("'"):
                continue
            names.append(re.match(r'(?:const\s+)?(\w+)', part).group(1))
        return names

    @functools.lru_cache(None)
    def method_generic_names(self, method):
        """type parameter names of `fn method<...>` as written in the source (first definition found)"""
        pat = re.compile(r'fn\s+%s\s*<([^>(]*)>' % re.escape(method))
        for path in sorted(glob.glob(os.path.join(self.repo, 'src/**/*.rs'), recursive=True)):
            m = pat.search(open(path).read())
            if m:
                out = []
                for part in m.group(1).split(','):
                    part = part.strip()
                    if part and not part.startswith("'"):
                        out.append(re.match(r'(?:const\s+)?(\w+)', part).group(1))
                return out
        return []

    def closure_fn(self, span):
        return self.closures.get(span)

    def ctor(self, ci):
        """enum-variant / tuple-struct constructor used as a function"""
        if ci.kind != 'path' or len(ci.path) < 2:
            return None
        ty, var = mirparse.split_variant(ci.text)
        if var is None:
            return None
        idx = self.variant_index(ty, var)
        if idx is None:
            return None
        return ty, idx

    # ------------------------------------------------------------------ consts / statics / promoteds
    def _by_suffix(self, name, kinds):
        f = self.funcs.get(name)
        if f is not None and f.kind in kinds:
            return f
        flat = name
        cands = [g for g in self.funcs.values() if g.kind in kinds and
                 (g.name.endswith('::' + flat) or flat.endswith('::' + g.name))]
        if len(cands) == 1:
            return cands[0]
        return None

    @functools.lru_cache(None)
    def resolve_const(self, name):
        return self._by_suffix(name, ('const',))

    @functools.lru_cache(None)
    def resolve_static(self, name):
        return self._by_suffix(name, ('static',))

    @functools.lru_cache(None)
    def resolve_promoted(self, text):
        f = self.funcs.get(text)
        if f is not None:
            return f
        m = re.match(r'(.*)::promoted\[(\d+)\]$', text)
        owner, k = m.group(1), m.group(2)
        from interp import parse_callee
        ci = parse_callee(owner)
        fn = self.resolve(ci)
        if fn is not None:
            return self.funcs.get('%s::promoted[%s]' % (fn.name, k))
        # closures / consts: suffix match
        cands = [g for g in self.funcs.values() if g.kind == 'promoted' and g.name.endswith('::promoted[%s]' % k)
                 and (g.name[:-len('::promoted[%s]' % k)].endswith(owner) or owner.endswith(g.name[:-len('::promoted[%s]' % k)]))]
        if len(cands) == 1:
            return cands[0]
        return None


def match_angle(s, i):
    d = 0
    k = i
    while k < len(s):
        ch = s[k]
        if ch == '<':
            d += 1
        elif ch == '>' and s[k - 1] not in '-=':
            d -= 1
            if d == 0:
                return k
        k += 1
    raise ValueError(s)


def balanced(txt, i):
    """txt[i] == '{' -> (inner text, end index)"""
    d = 0
    k = i
    while k < len(txt):
        if txt[k] == '{':
            d += 1
        elif txt[k] == '}':
            d -= 1
            if d == 0:
                return txt[i + 1:k], k
        k += 1
    return txt[i + 1:], len(txt)


def split_variants(body):
    out = []
    d = 0
    cur = []
    for ch in body:
        if ch in '([{<':
            d += 1
        elif ch in ')]}>':
            d -= 1
        if ch == ',' and d == 0:
            out.append(''.join(cur))
            cur = []
        else:
            cur.append(ch)
    if ''.join(cur).strip():
        out.append(''.join(cur))
    return out
