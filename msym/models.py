"""Registry of python models for functions outside the crate (std & third party).

A model is `fn(I, ci, *args)`; `I` is the interpreter, `ci` the parsed callee.  Models are looked up by
`ci.key` (`Type::method`, `<Trait>::method`, or bare function name), then by predicate fall-backs.
Every model used in a run is counted in World.stats.models and reported in the evidence file.
"""
import z3

from values import *     # noqa
import interp as _interp

REG = {}
FALLBACKS = []
CONSTS = []


def model(*keys):
    def deco(f):
        for k in keys:
            REG[k] = f
        return f
    return deco


def fallback(f):
    FALLBACKS.append(f)
    return f


class Models:
    def lookup(self, I, ci, args):
        f = REG.get(ci.key)
        if f is not None:
            return f
        for fb in FALLBACKS:
            r = fb(I, ci, args)
            if r is not None:
                return r
        return None

    def const(self, I, text):
        for c in CONSTS:
            r = c(I, text)
            if r is not None:
                return r
        return None


# ------------------------------------------------------------------ helpers shared by model files
def chars_of(v):
    """chars of anything string-like (through references)"""
    v = peel(v)
    if isinstance(v, (Str, StringObj)):
        return list(v.chars)
    if isinstance(v, Adt) and v.name == 'Cow':
        return chars_of(v.fields[0])
    raise Unsupported('not a string: %r' % (v,))


def is_stringlike(v):
    v = peel(v)
    return isinstance(v, (Str, StringObj)) or (isinstance(v, Adt) and v.name == 'Cow')


def char_eq(a, b):
    if isinstance(a, int) and isinstance(b, int):
        return a == b
    return a == b


def conj(cs):
    cs = [c for c in cs if c is not True]
    if any(c is False for c in cs):
        return False
    if not cs:
        return True
    if len(cs) == 1:
        return cs[0]
    return z3.And(cs)


def disj(cs):
    cs = [c for c in cs if c is not False]
    if any(c is True for c in cs):
        return True
    if not cs:
        return False
    if len(cs) == 1:
        return cs[0]
    return z3.Or(cs)


def neg(c):
    if isinstance(c, bool):
        return not c
    return z3.Not(c)


def seq_eq_cond(a, b):
    """condition for two char lists to be equal"""
    if len(a) != len(b):
        return False
    return conj([char_eq(x, y) for x, y in zip(a, b)])


def to_bool(I, c):
    """keep symbolic"""
    return c


def items_of(v):
    v = peel(v)
    if isinstance(v, VecObj):
        return v.items
    if isinstance(v, Slice):
        return v.items()
    if isinstance(v, Adt) and v.name == 'tuple':
        return v.fields
    raise Unsupported('not a sequence: %r' % (v,))


def struct_eq(I, a, b):
    """structural equality (derive(PartialEq) semantics) -> bool / z3 Bool; user impls are consulted first"""
    a = peel(a)
    b = peel(b)
    if isinstance(a, (Str, StringObj)) or isinstance(b, (Str, StringObj)):
        return seq_eq_cond(chars_of(a), chars_of(b))
    if isinstance(a, Adt) and isinstance(b, Adt):
        if a.name not in ('tuple', 'Option', 'Result', 'Box'):
            fn = I.prog.resolve(_interp.parse_callee('<%s as PartialEq>::eq' % a.name))
            if fn is not None:
                return I.run(fn, [ValPtr(a), ValPtr(b)])
        if a.name == 'Box':
            return struct_eq(I, deref_ptr(a).load(), deref_ptr(b).load())
        if isinstance(a.variant, int) and isinstance(b.variant, int):
            if a.variant != b.variant:
                return False
            return conj([struct_eq(I, x, y) for x, y in zip(a.fields, b.fields)])
        if not a.fields and not b.fields:
            return a.variant == b.variant
        if a.name == 'Option':
            # symbolic presence with a payload slot: None == None, Some(x) == Some(y) iff x == y
            pe = struct_eq(I, a.fields[0], b.fields[0]) if a.fields and b.fields else True
            return conj([a.variant == b.variant, disj([a.variant == 0, pe])])
        for v in (a, b):
            if not isinstance(v.variant, int):
                v.variant = I.world.concretize_int(v.variant, list(range(0, 8)))
        return struct_eq(I, a, b)
    if isinstance(a, (VecObj, Slice)) and isinstance(b, (VecObj, Slice)):
        xa, xb = items_of(a), items_of(b)
        if len(xa) != len(xb):
            return False
        return conj([struct_eq(I, x, y) for x, y in zip(xa, xb)])
    if isinstance(a, MapObj) and isinstance(b, MapObj):
        if len(a.entries) != len(b.entries):
            return False
        # HashMap / HashSet / IndexMap equality ignores the order of the entries (indexmap documents this explicitly):
        # same size and every entry of a has an equal entry in b
        return conj([disj([conj([struct_eq(I, k1, k2), struct_eq(I, v1, v2)]) for (k2, v2) in b.entries])
                     for (k1, v1) in a.entries])
    if isinstance(a, (int, bool, z3.ExprRef)) and isinstance(b, (int, bool, z3.ExprRef)):
        return _interp.eq_scalar(a, b)
    if a is b:
        return True
    raise Unsupported('struct_eq %r %r' % (a, b))


import models_str      # noqa  (registers)
import models_iter     # noqa
import models_std      # noqa
import models_fmt      # noqa
import models_regex    # noqa
import models_chrono   # noqa
import models_json     # noqa
import models_tera     # noqa
import models_misc     # noqa
import models_env      # noqa
import models_serde    # noqa
import models_path     # noqa
_interp.OVERRIDES.update(models_tera.OVERRIDES)
