import sys, time
import engine
from engine import *
import chars as C
import z3

def path(ctx, arg):
    I, w = ctx.I, ctx.w
    n, sep, lower, keep, maxlen = arg
    cs = [z3.Int('c%d' % i) for i in range(n)]
    for c in cs: w.assume(C.domain(c))
    sz = I.call('Sanitizer::str', [some(mkstr(sep)) if sep is not None else none(), lower, keep, none() if maxlen is None else some(maxlen)])
    out = I.call('Sanitizer::sanitize', [ValPtr(sz), Str(cs)])
    oc = out.chars
    ctx.tag('len%d' % len(oc))
    bad = [z3.Not(z3.Or(C.p_ascii_alnum(c), c == ord(sep))) if not isinstance(c,int) else not (chr(c).isascii() and (chr(c).isalnum() or chr(c)==sep)) for c in oc]
    bad = [b for b in bad if b is not False]
    if bad:
        m = w.find(z3.Or(bad) if not any(b is True for b in bad) else z3.BoolVal(True))
        if m is not None:
            inp = ''.join(chr(m.eval(c, model_completion=True).as_long()) for c in cs)
            ctx.violation(input=inp)
    ctx.res.witness = len(oc)

if __name__ == '__main__':
    C.default_alphabet()
    N = int(sys.argv[1])
    t0 = time.time()
    ex = engine.explore('smoke_san', 'path', [(N, '.', False, False, None)], jobs=int(sys.argv[2]) if len(sys.argv) > 2 else 1)
    print('paths', ex.paths, ex.status, 'queries', ex.queries, 'solver_s', round(ex.solver_s, 2), 'wall', round(ex.wall, 2))
    print('viol', len(ex.violations), ex.violations[:3])
    print('unsupported', ex.unsupported)
    print('panics', ex.panics)
    print('tags', ex.tags)
