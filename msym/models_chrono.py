"""Model of the chrono calls zerv makes: DateTime::<Utc>::from_timestamp, format, Utc::now, timestamp().

Calendar fields are defined by the proleptic-Gregorian reference algorithm (Hinnant's civil_from_days) as z3 integer
terms over the symbolic timestamp; the Kani harnesses c17_* prove chrono's compiled accessors equal this reference for
every second of 1970-2199.  Only the strftime items zerv uses are rendered.
"""
import z3

from values import *     # noqa
from models import model, fallback, chars_of

END_2199 = 7_258_118_400
CHRONO_MAX_SECS = 8_210_266_876_799      # 262142-12-31T23:59:59Z (chrono's MAX_UTC)


def idiv(a, b):
    return a // b if isinstance(a, int) else a / b


def imod(a, b):
    return a % b


def fields(ts):
    """dict of calendar fields (int or z3 terms) for 0 <= ts"""
    days = idiv(ts, 86400)
    sod = imod(ts, 86400)
    z = days + 719468
    era = idiv(z, 146097)
    doe = z - era * 146097
    yoe = idiv(doe - idiv(doe, 1460) + idiv(doe, 36524) - idiv(doe, 146096), 365)
    y = yoe + era * 400
    doy = doe - (365 * yoe + idiv(yoe, 4) - idiv(yoe, 100))
    mp = idiv(5 * doy + 2, 153)
    d = doy - idiv(153 * mp + 2, 5) + 1
    if isinstance(mp, int):
        m = mp + 3 if mp < 10 else mp - 9
        year = y + 1 if m <= 2 else y
        leap = (year % 4 == 0 and year % 100 != 0) or year % 400 == 0
        cum = [0, 31, 59, 90, 120, 151, 181, 212, 243, 273, 304, 334][m - 1]
        ordinal = cum + d + (1 if leap and m > 2 else 0)
    else:
        m = z3.If(mp < 10, mp + 3, mp - 9)
        year = z3.If(m <= 2, y + 1, y)
        leap = z3.Or(z3.And(year % 4 == 0, year % 100 != 0), year % 400 == 0)
        cumt = [0, 31, 59, 90, 120, 151, 181, 212, 243, 273, 304, 334]
        cum = z3.IntVal(334)
        for k in range(10, -1, -1):
            cum = z3.If(m == k + 1, cumt[k], cum)
        ordinal = cum + d + z3.If(z3.And(leap, m > 2), 1, 0)
    wd = imod(days + 3, 7)            # Monday = 0
    week_mon = idiv(ordinal + 6 - wd, 7)
    return dict(year=year, month=m, day=d, hour=idiv(sod, 3600), minute=idiv(imod(sod, 3600), 60), second=imod(sod, 60),
                ordinal=ordinal, weekday_mon0=wd, week_mon=week_mon)


def two(v):
    return [idiv(v, 10) + 48, imod(v, 10) + 48]


def unpadded(w, v, maxdigits=2):
    if isinstance(v, int):
        return [ord(c) for c in str(v)]
    if w.branch(v < 10):
        return [v + 48]
    if maxdigits == 2 or w.branch(v < 100):
        return two(v)
    raise Unsupported('unpadded field wider than 2 digits')


def four(v):
    return [imod(idiv(v, 1000), 10) + 48, imod(idiv(v, 100), 10) + 48, imod(idiv(v, 10), 10) + 48, imod(v, 10) + 48]


ITEMS = {'Y': ('year', 4), 'y': ('year100', 2), 'm': ('month', 2), 'd': ('day', 2), 'H': ('hour', 2), 'M': ('minute', 2),
         'S': ('second', 2), 'W': ('week_mon', 2)}


def render_strftime(I, ts, fmt):
    """chars of dt.format(fmt).to_string() for the strftime items zerv uses"""
    w = I.world
    f = fields(ts)
    f['year100'] = imod(f['year'], 100)
    out = []
    i = 0
    while i < len(fmt):
        c = fmt[i]
        if c != '%':
            out.append(ord(c))
            i += 1
            continue
        i += 1
        nopad = False
        if fmt[i] == '-':
            nopad = True
            i += 1
        it = ITEMS.get(fmt[i])
        if it is None:
            raise Unsupported('strftime item %' + fmt[i])
        i += 1
        v = f[it[0]]
        if it[1] == 4:
            if nopad:
                raise Unsupported('%-Y')
            out += four(v)
        elif nopad:
            out += unpadded(w, v)
        else:
            out += two(v)
    return out


@model('DateTime::from_timestamp')
def _from_timestamp(I, ci, secs, nsecs):
    w = I.world
    if isinstance(secs, int):
        if 0 <= secs < END_2199:
            return some(Opaque('DateTime', secs))
        if secs > CHRONO_MAX_SECS or secs < -8_334_601_228_800:
            return none()
        raise Unsupported('timestamp outside the modelled range 1970..2199')
    if w.branch(z3.And(secs >= 0, secs < END_2199)):
        return some(Opaque('DateTime', secs))
    if w.branch(z3.Or(secs > CHRONO_MAX_SECS, secs < -8_334_601_228_800)):
        return none()
    raise Unsupported('timestamp outside the modelled range 1970..2199')


@model('DateTime::format')
def _format(I, ci, dt, fmt):
    cs = chars_of(fmt)
    if not all(isinstance(c, int) for c in cs):
        if LENIENT[0]:
            return Opaque('DelayedFormat', (peel(dt).state, list(cs)))
        raise Unsupported('symbolic strftime format')
    return Opaque('DelayedFormat', (peel(dt).state, ''.join(chr(c) for c in cs)))


@model('DateTime::timestamp')
def _timestamp(I, ci, dt):
    return peel(dt).state


@model('Utc::now')
def _now(I, ci):
    w = I.world
    t = w.fresh_int('now', 0, NOW_MAX[0])
    return Opaque('DateTime', t)


def render_delayed(I, v):
    ts, fmt = v.state
    if isinstance(fmt, list) or LENIENT[0]:
        cs = fmt if isinstance(fmt, list) else [ord(c) for c in fmt]
        if strftime_has_error(I, cs):
            raise Panic('a Display implementation returned an error unexpectedly (chrono: invalid strftime item)')
        if isinstance(fmt, list):
            I.world.notes.append('strftime output of a symbolic format is opaque (panic-freedom obligations only)')
            return [63]
    try:
        return render_strftime(I, ts, fmt)
    except Unsupported:
        if LENIENT[0]:
            return [63]
        raise


@model('DateTime::with_timezone', 'DateTime::naive_utc', 'DateTime::to_utc')
def _with_timezone(I, ci, dt, *a):
    return peel(dt)


# ------------------------------------------------------------------ validity of arbitrary (also symbolic) strftime strings
NOW_MAX = [END_2199 - 1]   # harnesses may bound the wall clock (flow: dev timestamps are u32, i.e. before 2106-02-07)
LENIENT = [False]     # set by harnesses that only ask "does formatting panic?": valid-but-unmodelled output becomes '?'
_SINGLE = 'ABCDFGHIMPRSTUVWXYZabhcdefgjklmnpqrstuvwxyz+%'
_NUMERIC = 'CGHIMSUVWYdefgjklmqsuwy'


def _is(w, c, chars):
    if isinstance(c, int):
        return chr(c) in chars
    return w.branch(z3.Or([c == ord(x) for x in chars]))


def strftime_has_error(I, cs):
    """mirrors chrono 0.4 StrftimeItems::parse_next_item: True when some item is Item::Error (formatting then panics)"""
    w = I.world
    n = len(cs)
    i = 0
    while i < n:
        if not _is(w, cs[i], '%'):
            i += 1
            continue
        i += 1
        if i >= n:
            return True
        pad = _is(w, cs[i], '-0_')
        alt = (not pad) and _is(w, cs[i], '#')
        if pad or alt:
            i += 1
            if i >= n:
                return True
            if alt and not _is(w, cs[i], 'z'):
                return True
        spec = cs[i]
        i += 1
        if _is(w, spec, _SINGLE):
            if pad and not _is(w, spec, _NUMERIC):
                return True
            continue
        if _is(w, spec, ':'):
            k = 0
            while i < n and k < 2 and _is(w, cs[i], ':'):
                i += 1
                k += 1
            if i < n and _is(w, cs[i], 'z'):
                i += 1
                if pad:
                    return True
                continue
            return True
        if _is(w, spec, '.'):
            if i >= n:
                return True
            if _is(w, cs[i], 'f'):
                i += 1
            elif _is(w, cs[i], '369'):
                i += 1
                if i >= n or not _is(w, cs[i], 'f'):
                    return True
                i += 1
            else:
                return True
            if pad:
                return True
            continue
        if _is(w, spec, '369'):
            if i >= n or not _is(w, cs[i], 'f'):
                return True
            i += 1
            if pad:
                return True
            continue
        return True
    return False


@model('StrftimeItems::new')
def _strftime_items(I, ci, fmt):
    """the item iterator, abstracted to what zerv asks of it: does it contain an Item::Error?"""
    from models_iter import ListIter
    cs = chars_of(fmt)
    bad = strftime_has_error(I, cs)
    items = [Adt('Item', 0, [Str(cs)])]
    if bad:
        items.append(Adt('Item', 6, []))
    return ListIter(items, kind='StrftimeItems')


# ------------------------------------------------------------------ Datelike / Timelike / Weekday accessors
# the same civil-from-days reference as the strftime model; the Kani harnesses prove year/month/day/ordinal/weekday/
# hour/minute/second of the compiled chrono equal to this reference for every second 1970-2199
def _ts_of(dt):
    dt = peel(dt)
    if isinstance(dt, Opaque) and dt.kind == 'DateTime':
        return dt.state
    if isinstance(dt, Opaque) and dt.kind == 'DateTimeLocal':
        return dt.state[0] + dt.state[1]
    raise Unsupported('calendar field of %r' % (dt,))


def _field_model(name, adjust=0):
    def f(I, ci, dt):
        v = fields(_ts_of(dt))[name]
        return v + adjust if adjust else v
    return f


for _m, _f, _a in (('year', 'year', 0), ('month', 'month', 0), ('month0', 'month', -1), ('day', 'day', 0), ('day0', 'day', -1),
                   ('ordinal', 'ordinal', 0), ('ordinal0', 'ordinal', -1)):
    model('<Datelike>::' + _m)(_field_model(_f, _a))
for _m, _f in (('hour', 'hour'), ('minute', 'minute'), ('second', 'second')):
    model('<Timelike>::' + _m)(_field_model(_f))


@model('<Datelike>::weekday')
def _weekday(I, ci, dt):
    return Opaque('Weekday', fields(_ts_of(dt))['weekday_mon0'])


@model('Weekday::num_days_from_monday', 'Weekday::number_from_monday', 'Weekday::num_days_from_sunday', 'Weekday::number_from_sunday')
def _weekday_num(I, ci, wd):
    m0 = peel(wd).state
    if ci.method == 'num_days_from_monday':
        return m0
    if ci.method == 'number_from_monday':
        return m0 + 1
    s0 = imod(m0 + 1, 7)
    return s0 if ci.method == 'num_days_from_sunday' else s0 + 1
