"""Runs Kani harnesses of /verif/kani (path dependency on /repo) in parallel and parses the verdicts.

Every harness runs in its own target dir (concurrent cargo-kani runs must not share one), under a memory cap and a
time cap; `VERIFICATION:- SUCCESSFUL` with all cover properties satisfied is a pass, a FAILED check is a
counterexample (concrete values are extracted with concrete playback), anything else is inconclusive.
"""
import os
import re
import subprocess
import sys
import time
from concurrent.futures import ThreadPoolExecutor

HERE = os.path.dirname(os.path.abspath(__file__))
VERIF = os.path.dirname(HERE)
CRATE = os.path.join(VERIF, 'kani')
BUILD = os.path.join(VERIF, 'build', 'kani')
REPO = os.environ.get('VERIF_REPO', '/repo')


def _env():
    e = dict(os.environ, CARGO_NET_OFFLINE='true')
    e.pop('RUSTUP_TOOLCHAIN', None)
    return e


def prepare():
    os.makedirs(BUILD, exist_ok=True)
    lock = os.path.join(CRATE, 'Cargo.lock')
    if not os.path.exists(lock):
        open(lock, 'w').write(open(os.path.join(REPO, 'Cargo.lock')).read())


def run_harness(name, timeout_s=1800, mem_gb=24, playback=False):
    prepare()
    tdir = os.path.join(BUILD, name)
    cmd = ['cargo', 'kani', '--target-dir', tdir, '--harness', name]
    if playback:
        cmd += ['-Z', 'concrete-playback', '--concrete-playback=print']
    t0 = time.time()
    try:
        p = subprocess.run(['bash', '-c', 'ulimit -v %d; exec "$@"' % (mem_gb * 1024 * 1024), 'x'] + cmd, cwd=CRATE, env=_env(),
                           stdout=subprocess.PIPE, stderr=subprocess.STDOUT, text=True, timeout=timeout_s)
        out = p.stdout
        timed_out = False
    except subprocess.TimeoutExpired as e:
        out = (e.stdout or b'').decode() if isinstance(e.stdout, bytes) else (e.stdout or '')
        timed_out = True
        subprocess.run(['pkill', '-f', tdir], stdout=subprocess.DEVNULL, stderr=subprocess.DEVNULL)
    wall = time.time() - t0
    res = dict(harness=name, wall_s=round(wall, 1), timed_out=timed_out)
    m = re.search(r'Verification Time: ([0-9.]+)s', out)
    res['solver_s'] = float(m.group(1)) if m else None
    m = re.search(r'\*\* (\d+) of (\d+) failed', out)
    res['checks'] = int(m.group(2)) if m else None
    res['failed_checks'] = int(m.group(1)) if m else None
    m = re.search(r'\*\* (\d+) of (\d+) cover properties satisfied', out)
    res['covers'] = (int(m.group(1)), int(m.group(2))) if m else None
    res['failed_desc'] = re.findall(r'Failed Checks: (.*)', out)
    if 'VERIFICATION:- SUCCESSFUL' in out:
        res['verdict'] = 'pass'
        if res['covers'] and res['covers'][0] != res['covers'][1]:
            res['verdict'] = 'vacuous'
    elif 'VERIFICATION:- FAILED' in out and res['failed_checks'] and 'Status: ERROR' not in out and not timed_out:
        res['verdict'] = 'fail'
        # unwinding assertion failures mean the bound is too small: inconclusive, not a counterexample
        if all('unwinding assertion' in d for d in res['failed_desc']):
            res['verdict'] = 'inconclusive'
    else:
        res['verdict'] = 'inconclusive'
        res['tail'] = out[-1500:]
    if playback:
        res['playback'] = parse_playback(out)
    return res


def parse_playback(out):
    """byte vectors of the kani::any() values, in call order, from the printed concrete-playback unit test"""
    vecs = []
    m = re.search(r'let concrete_vals: Vec<Vec<u8>> = vec!\[(.*?)\];', out, re.S)
    if not m:
        return None
    for line in m.group(1).split('\n'):
        mm = re.search(r'vec!\[([0-9, ]*)\]', line)
        if mm:
            vecs.append([int(x) for x in mm.group(1).split(',') if x.strip()])
    return vecs


def le_int(bs):
    return int.from_bytes(bytes(bs), 'little')


def run_all(names, jobs=6, timeout_s=1800, mem_gb=24):
    with ThreadPoolExecutor(max_workers=jobs) as ex:
        return list(ex.map(lambda n: run_harness(n, timeout_s, mem_gb), names))


if __name__ == '__main__':
    for r in run_all(sys.argv[1:], jobs=8):
        print(r)
