"""C11 check driver."""
import json
import os
import sys
import time

HERE = os.path.dirname(os.path.abspath(__file__))
sys.path.insert(0, os.path.dirname(HERE))
sys.path.insert(0, os.path.join(os.path.dirname(HERE), 'harness'))

import engine
import native
import checklib
import c11
from values import *      # noqa


def native_cmp(a, b):
    return native.driver().call(op='pep440_cmp', a=a, b=b)


def build_value(I, d):
    vi = I.prog.variant_index

    def seg(it):
        if 'u' in it:
            return Adt('LocalSegment', vi('LocalSegment', 'UInt'), [it['u']])
        return Adt('LocalSegment', vi('LocalSegment', 'Str'), [StringObj(it['s'])])

    def opt(x):
        return none() if x is None else some(x)
    lab = {'a': 'Alpha', 'b': 'Beta', 'rc': 'Rc'}
    return Adt('PEP440', 0, [d['epoch'], VecObj(list(d['release'])),
                             opt(None if d['pre_label'] is None else Adt('PreReleaseLabel', vi('PreReleaseLabel', lab[d['pre_label']]), [])),
                             opt(d['pre_number']), opt(Adt('PostLabel', 0, []) if d['post_label'] else None), opt(d['post_number']),
                             opt(Adt('DevLabel', 0, []) if d['dev_label'] else None), opt(d['dev_number']),
                             opt(None if d['local'] is None else VecObj([seg(x) for x in d['local']]))])


def rand_ver(rng):
    def num():
        return rng.choice([0, 1, 2, 10, 2**32 - 1, rng.randrange(2**32)])

    def seg():
        if rng.random() < 0.5:
            return {'u': num()}
        while True:
            s = [ord(rng.choice('019az')) for _ in range(rng.randint(1, 2))]
            if not all(48 <= c <= 57 for c in s):
                return {'s': s}
    pre = rng.choice([None, 'a', 'b', 'rc'])
    post = rng.random() < 0.5
    dev = rng.random() < 0.5
    return dict(epoch=rng.choice([0, 0, 1, 2**32 - 1]), release=[rng.choice([0, 1, 2]) for _ in range(rng.randint(1, 4))],
                pre_label=pre, pre_number=None if pre is None or rng.random() < 0.3 else num(),
                post_label=post, post_number=None if not post or rng.random() < 0.3 else num(),
                dev_label=dev, dev_number=None if not dev or rng.random() < 0.3 else num(),
                local=None if rng.random() < 0.5 else [seg() for _ in range(rng.randint(1, 3))])


def show(d):
    s = ('%d!' % d['epoch'] if d['epoch'] else '') + '.'.join(map(str, d['release']))
    if d['pre_label']:
        s += d['pre_label'] + ('' if d['pre_number'] is None else str(d['pre_number']))
    if d['post_label']:
        s += '.post' + ('' if d['post_number'] is None else str(d['post_number']))
    if d['dev_label']:
        s += '.dev' + ('' if d['dev_number'] is None else str(d['dev_number']))
    if d['local'] is not None:
        s += '+' + '.'.join(str(x['u']) if 'u' in x else ''.join(map(chr, x['s'])) for x in d['local'])
    return s


def check_concrete(clause, v):
    """replay a solver model against the native code; returns (reproduced, description)"""
    a, b = v['a'], v['b']
    r = native_cmp(a, b)
    r2 = native_cmp(b, a)
    exp = c11.c_oracle(a, b)
    desc = '%s: a=%s b=%s native cmp=%s eq=%s reverse=%s spec=%d' % (clause, show(a), show(b), r.get('cmp'), r.get('eq'), r2.get('cmp'), exp)
    if 'panic' in r or 'panic' in r2:
        return True, desc + ' PANIC'
    if clause == 'cmp_vs_key':
        return r['cmp'] != exp, desc
    if clause == 'antisymmetry':
        return r['cmp'] != -r2['cmp'], desc
    if clause == 'eq_consistency':
        return r['eq'] != (r['cmp'] == 0), desc
    if clause == 'transitivity':
        c = v['c']
        ab, bc, ac = r['cmp'], native_cmp(b, c)['cmp'], native_cmp(a, c)['cmp']
        bad = (ab <= 0 and bc <= 0 and ac > 0) or (ab >= 0 and bc >= 0 and ac < 0) or (ab == 0 and bc == 0 and ac != 0) \
            or (ab <= 0 and bc <= 0 and (ab < 0 or bc < 0) and ac >= 0)
        return bad, 'transitivity: a=%s b=%s c=%s  ab=%d bc=%d ac=%d' % (show(a), show(b), show(c), ab, bc, ac)
    return False, desc


def classify(clause, v):
    a, b = v['a'], v['b']
    if clause == 'cmp_vs_key':
        if a['epoch'] != b['epoch']:
            return 'cmp_vs_key:epoch'
        n = max(len(a['release']), len(b['release']))
        if a['release'] + [0] * (n - len(a['release'])) != b['release'] + [0] * (n - len(b['release'])):
            return 'cmp_vs_key:release'
        ka, kb = c11.c_key(a), c11.c_key(b)
        names = ['epoch', 'pre_phase', 'pre_number', 'post_presence', 'post_number', 'dev_presence', 'dev_number']
        for i in range(1, 7):
            if ka[i] != kb[i]:
                return 'cmp_vs_key:' + names[i]
        if a['local'] != b['local']:
            return 'cmp_vs_key:local'
        return 'cmp_vs_key:equal_keys'
    return clause


def main():
    ck = checklib.Check('C11', 'PEP440 comparison is PEP440 2.0.0 precedence')
    ck.setup()
    quick = ck.tier == 'quick'
    rels = [1, 2, 3] if quick else [1, 2, 3, 4]
    locs = c11.local_shapes(2, 2) if quick else c11.local_shapes(3, 2)
    pairs = [((ra, None), (rb, None)) for ra in rels for rb in rels]
    pairs += [((1, la), (rb, lb)) for la in locs for lb in locs for rb in ((1, 2) if quick else (1, 2, 3)) if la is not None or lb is not None]
    N_ = None
    triples = [((1, N_), (1, N_), (1, N_)), ((2, N_), (1, N_), (2, N_)), ((1, (0,)), (1, (1,)), (1, N_)), ((1, (1,)), (1, (0,)), (1, (1,)))]
    if not quick:
        tl = c11.local_shapes(1, 1)
        triples = [((ra, la), (rb, lb), (rc, lc)) for ra in (1, 2) for rb in (1, 2) for rc in (1, 2) for la in tl for lb in tl for lc in tl]
    ck.bounds = dict(epoch='any u32', release='1..%d numbers, any u32' % max(rels), pre='absent or a/b/rc with absent or any-u32 number (symbolic presence bits)',
                     post_dev='absent | label alone | label + any u32 (symbolic presence bits)',
                     local='absent or up to %d segments, each UInt(any u32) or Str of 1..2 chars [a-z0-9] not all digits' % (2 if quick else 3),
                     pair_shapes=len(pairs), triple_shapes=len(triples))
    ck.outside = ['more than %d release numbers, more than %d local segments, local strings longer than 2' % (max(rels), 2 if quick else 3),
                  'records with a number but no label (never produced by the parser or normalize())',
                  'spelling independence through from_str is decided in the C09/C11 parser obligations, see evidence of C09']
    ck.assumptions = ['python models of Ord for u32/String/Vec, Option::unwrap_or, slice::get, Ordering::then_with (listed in models_used)',
                      'oracle = lexicographic key transcribed from the property statement, independent of zerv']
    # differential validation: concrete pairs through msym and the native build
    I = engine.make_interp()
    for _ in range(120):
        a, b = rand_ver(ck.rng), rand_ver(ck.rng)
        if ck.rng.random() < 0.3:
            b = dict(a, local=b['local'], post_number=b['post_number'])
            if not b['post_label']:
                b['post_number'] = None
        w = engine.World([])
        I.world = w
        I.depth = 0
        try:
            r = I.call('<PEP440 as Ord>::cmp', [ValPtr(build_value(I, a)), ValPtr(build_value(I, b))]).variant
            e = I.call('<PEP440 as PartialEq>::eq', [ValPtr(build_value(I, a)), ValPtr(build_value(I, b))])
        except (Panic, Unsupported) as ex:
            r, e = repr(ex), None
        n = native_cmp(a, b)
        ck.validated += 1
        if n.get('cmp') != r or n.get('eq') != e:
            ck.validation_mismatch.append(dict(a=show(a), b=show(b), msym=(r, e), native=n))
    deadline = time.time() + (600 if quick else 5400)
    ex = engine.explore('c11', 'path_pair', pairs, jobs=ck.jobs, deadline=deadline)
    cands = ck.absorb('pairs: cmp = documented key, antisymmetry, eq <=> Equal', ex, bounds=dict(shapes=len(pairs)),
                      expect_tags=['cmp_returned', 'oracle-1', 'oracle+0', 'oracle+1'])
    ex2 = engine.explore('c11', 'path_triple', triples, jobs=ck.jobs, deadline=deadline)
    cands += ck.absorb('triples: transitivity on the real code', ex2, bounds=dict(shapes=len(triples)), expect_tags=['cmp_returned'])
    seen = set()
    for v in cands:
        key = json.dumps(v, sort_keys=True, default=str)
        if key in seen:
            continue
        seen.add(key)
        ok, desc = check_concrete(v['clause'], v)
        ck.validated += 1
        rep = dict(op='pep440_cmp', clause=v['clause'], a=v['a'], b=v['b'], c=v.get('c'))
        if ok:
            ck.confirmed(classify(v['clause'], v), desc, rep)
        else:
            ck.not_reproduced(v['clause'], desc, rep)
    if ck.tier != 'quick':
        # cross-check on the compiled code (machine integers, real wrap-around semantics) with Kani / CBMC
        import kanirun
        r = kanirun.run_harness('c11_numeric_antisymmetry_eq', timeout_s=1800)
        ck.obligations.append(dict(name='kani:' + r['harness'], verdict=r['verdict'], solver_s=r['solver_s'], wall_s=r['wall_s'], checks=r['checks'], covers=r['covers'],
                                   bound='antisymmetry, eq <=> Equal, post/dev presence order on the compiled code (any u32; release 1..2 numbers, epoch, post, dev)', failed=r['verdict'] != 'pass'))
        ck.extra['kani'] = r
        if r['verdict'] != 'pass' and not ck.violations:
            ck.fail_inconclusive('kani %s: %s (%s) while the MIR-level run found no counterexample: the engines disagree' % (r['harness'], r['verdict'], '; '.join(r.get('failed_desc') or [])[:300]))
    ck.finish()


def replay(path):
    native.build()
    data = json.load(open(path))
    worst = 0
    for e in data['examples']:
        r = e['replay']
        ok, desc = check_concrete(r['clause'], r)
        print('replay:', desc, '-> violated' if ok else '-> holds')
        worst = max(worst, 1 if ok else 0)
    native.driver().close()
    sys.exit(worst)


if __name__ == '__main__':
    if '--replay' in sys.argv:
        replay(sys.argv[sys.argv.index('--replay') + 1])
    main()
