"""C10 check driver."""
import json
import os
import sys
import time

HERE = os.path.dirname(os.path.abspath(__file__))
sys.path.insert(0, os.path.dirname(HERE))
sys.path.insert(0, os.path.join(os.path.dirname(HERE), 'harness'))

import engine
import native
import checklib
import c10
from values import *      # noqa


def native_cmp(a, b):
    return native.driver().call(op='semver_cmp', a=a, b=b)


def build_value(I, d):
    vi = I.prog.variant_index

    def mk(enum, it):
        if 'u' in it:
            return Adt(enum, vi(enum, 'UInt'), [it['u']])
        return Adt(enum, vi(enum, 'Str'), [StringObj(it['s'])])
    return Adt('SemVer', 0, [d['major'], d['minor'], d['patch'],
                             none() if d['pre'] is None else some(VecObj([mk('PreReleaseIdentifier', x) for x in d['pre']])),
                             none() if d['build'] is None else some(VecObj([mk('BuildMetadata', x) for x in d['build']]))])


def rand_ver(rng):
    def ident(pre):
        if rng.random() < 0.5:
            return {'u': rng.choice([0, 1, 2, 10, 2**32, 2**64 - 1, rng.randrange(2**64)])}
        while True:
            s = [ord(rng.choice('0129aAzZ-')) for _ in range(rng.randint(1, 3))]
            if not pre or not all(48 <= c <= 57 for c in s):
                return {'s': s}
    return dict(major=rng.choice([0, 1, 2, 2**64 - 1]), minor=rng.choice([0, 1, 10]), patch=rng.choice([0, 3, 2**63]),
                pre=None if rng.random() < 0.3 else [ident(True) for _ in range(rng.randint(1, 3))],
                build=None if rng.random() < 0.5 else [ident(False) for _ in range(rng.randint(1, 2))])


def show(d):
    def ids(l):
        return '.'.join(str(x['u']) if 'u' in x else ''.join(map(chr, x['s'])) for x in l)
    s = '%d.%d.%d' % (d['major'], d['minor'], d['patch'])
    if d['pre'] is not None:
        s += '-' + ids(d['pre'])
    if d['build'] is not None:
        s += '+' + ids(d['build'])
    return s


def check_concrete(clause, v):
    """replay a solver model against the native code; returns (reproduced, description)"""
    a, b = v['a'], v['b']
    r = native_cmp(a, b)
    r2 = native_cmp(b, a)
    exp = c10.c_oracle(a, b)
    desc = '%s: a=%s b=%s native cmp=%s eq=%s reverse=%s spec=%d' % (clause, show(a), show(b), r.get('cmp'), r.get('eq'), r2.get('cmp'), exp)
    if 'panic' in r or 'panic' in r2:
        return True, desc + ' PANIC'
    if clause == 'cmp_vs_spec':
        return r['cmp'] != exp, desc
    if clause == 'antisymmetry':
        return r['cmp'] != -r2['cmp'], desc
    if clause == 'eq_consistency':
        return r['eq'] != (r['cmp'] == 0), desc
    if clause == 'partial_cmp':
        return r['partial'] != r['cmp'], desc
    if clause == 'transitivity':
        c = v['c']
        ab, bc, ac = r['cmp'], native_cmp(b, c)['cmp'], native_cmp(a, c)['cmp']
        bad = (ab <= 0 and bc <= 0 and ac > 0) or (ab >= 0 and bc >= 0 and ac < 0) or (ab == 0 and bc == 0 and ac != 0) \
            or (ab <= 0 and bc <= 0 and (ab < 0 or bc < 0) and ac >= 0)
        return bad, 'transitivity: a=%s b=%s c=%s  ab=%d bc=%d ac=%d' % (show(a), show(b), show(c), ab, bc, ac)
    return False, desc


def classify(clause, v):
    a, b = v['a'], v['b']
    if clause == 'cmp_vs_spec':
        # role: which part of the precedence rule is wrong
        same_core = all(a[k] == b[k] for k in ('major', 'minor', 'patch'))
        if not same_core:
            return 'cmp_vs_spec:core_numbers'
        if (a['pre'] is None) != (b['pre'] is None):
            return 'cmp_vs_spec:prerelease_vs_release'
        if a['pre'] == b['pre']:
            return 'cmp_vs_spec:build_metadata_not_ignored'
        for x, y in zip(a['pre'], b['pre']):
            if x != y:
                kinds = ('u' in x, 'u' in y)
                return 'cmp_vs_spec:identifier_' + {(True, True): 'numeric', (False, False): 'alpha', (True, False): 'mixed', (False, True): 'mixed'}[kinds]
        return 'cmp_vs_spec:list_length'
    return clause


def main():
    ck = checklib.Check('C10', 'SemVer comparison is SemVer 2.0.0 precedence')
    ck.setup()
    quick = ck.tier == 'quick'
    max_ids, max_len = (2, 2) if quick else (3, 3)
    builds = [None, (0,), (1,)] if quick else [None, (0,), (2,), (0, 1)]
    sh = c10.shapes(max_ids, max_len, [None])
    sh_b = c10.shapes(1 if quick else 2, 1 if quick else 2, builds)
    pairs = [(x, y) for x in sh for y in sh] + [(x, y) for x in sh_b for y in sh_b if x[1] is not None or y[1] is not None]
    tsh = c10.shapes(1 if quick else 2, 1 if quick else 2, [None])
    triples = [(x, y, z) for x in tsh for y in tsh for z in tsh]
    ck.bounds = dict(numbers='major/minor/patch and numeric identifiers: any u64', pre_release_lists='absent or 1..%d identifiers' % max_ids,
                     identifier='UInt(any u64) or Str of 1..%d chars over [0-9A-Za-z-] that is not all digits' % max_len,
                     build_metadata='absent or up to %d identifiers (UInt or short Str), symbolic content' % (1 if quick else 2),
                     pair_shapes=len(pairs), triple_shapes=len(triples))
    ck.outside = ['identifier lists longer than %d, string identifiers longer than %d chars' % (max_ids, max_len),
                  'non-ASCII identifiers (not SemVer)', 'transitivity is decided on the real code only up to the triple bound; beyond it follows from agreement with the spec comparator within the pair bound']
    ck.assumptions = ['python models of Ord for u64/String/Vec index/len, Ordering::then_with (listed in models_used)',
                      'oracle = SemVer 2.0.0 §11 comparator written from the spec, independent of zerv']
    # differential validation: concrete pairs through msym and the native build
    I = engine.make_interp()
    for _ in range(120):
        a, b = rand_ver(ck.rng), rand_ver(ck.rng)
        if ck.rng.random() < 0.3:
            b = dict(a, build=b['build'])
        w = engine.World([])
        I.world = w
        I.depth = 0
        try:
            r = I.call('<SemVer as Ord>::cmp', [ValPtr(build_value(I, a)), ValPtr(build_value(I, b))]).variant
            e = I.call('<SemVer as PartialEq>::eq', [ValPtr(build_value(I, a)), ValPtr(build_value(I, b))])
        except (Panic, Unsupported) as ex:
            r, e = repr(ex), None
        n = native_cmp(a, b)
        ck.validated += 1
        if n.get('cmp') != r or n.get('eq') != e:
            ck.validation_mismatch.append(dict(a=show(a), b=show(b), msym=(r, e), native=n))
    deadline = time.time() + (600 if quick else 5400)
    ex = engine.explore('c10', 'path_pair', pairs, jobs=ck.jobs, deadline=deadline)
    cands = ck.absorb('pairs: cmp = spec, antisymmetry, eq <=> Equal, partial_cmp', ex, bounds=dict(shapes=len(pairs)),
                      expect_tags=['cmp_returned', 'oracle-1', 'oracle+0', 'oracle+1'])
    ex2 = engine.explore('c10', 'path_triple', triples, jobs=ck.jobs, deadline=deadline)
    cands += ck.absorb('triples: transitivity on the real code', ex2, bounds=dict(shapes=len(triples)), expect_tags=['cmp_returned'])
    seen = set()
    for v in cands:
        key = json.dumps(v, sort_keys=True, default=str)
        if key in seen:
            continue
        seen.add(key)
        ok, desc = check_concrete(v['clause'], v)
        ck.validated += 1
        rep = dict(op='semver_cmp', clause=v['clause'], a=v['a'], b=v['b'], c=v.get('c'))
        if ok:
            ck.confirmed(classify(v['clause'], v), desc, rep)
        else:
            ck.not_reproduced(v['clause'], desc, rep)
    if ck.tier != 'quick':
        # cross-check on the compiled code (machine integers, real wrap-around semantics) with Kani / CBMC
        import kanirun
        r = kanirun.run_harness('c10_numeric_cmp_is_spec', timeout_s=1800)
        ck.obligations.append(dict(name='kani:' + r['harness'], verdict=r['verdict'], solver_s=r['solver_s'], wall_s=r['wall_s'], checks=r['checks'], covers=r['covers'],
                                   bound='cmp = spec comparator, antisymmetry, eq <=> Equal on the compiled code for numeric-only versions (any u64; pre-release lists of 0..2 numeric identifiers)', failed=r['verdict'] != 'pass'))
        ck.extra['kani'] = r
        if r['verdict'] != 'pass' and not ck.violations:
            ck.fail_inconclusive('kani %s: %s (%s) while the MIR-level run found no counterexample: the engines disagree' % (r['harness'], r['verdict'], '; '.join(r.get('failed_desc') or [])[:300]))
    ck.finish()


def replay(path):
    native.build()
    data = json.load(open(path))
    worst = 0
    for e in data['examples']:
        r = e['replay']
        ok, desc = check_concrete(r['clause'], r)
        print('replay:', desc, '-> violated' if ok else '-> holds')
        worst = max(worst, 1 if ok else 0)
    native.driver().close()
    sys.exit(worst)


if __name__ == '__main__':
    if '--replay' in sys.argv:
        replay(sys.argv[sys.argv.index('--replay') + 1])
    main()
