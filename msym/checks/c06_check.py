"""C06 check driver (also used by C01 with a different obligation filter)."""
import json
import os
import sys
import time

HERE = os.path.dirname(os.path.abspath(__file__))
sys.path.insert(0, os.path.dirname(HERE))
sys.path.insert(0, os.path.join(os.path.dirname(HERE), 'harness'))

import engine
import native
import checklib
import c06
import c06_schemas
from values import *      # noqa
import chars as C

C06_CLAUSES = ('placement', 'tier')
C01_CLAUSES = ('non_ascii_output', 'not_wellformed', 'own_parser_rejects', 'rerender_changes', 'cli_output', 'check_rejects')
SMART = ['Standard', 'StandardNoContext', 'StandardContext', 'Calver', 'CalverNoContext', 'CalverContext']


def run(pid, title, clauses):
    ck = checklib.Check(pid, title)
    engine.dump_mir()
    native.build()
    I = engine.make_interp()
    import relang
    pats = [relang.regex_of_static(I, 'SEMVER_REGEX').pattern, relang.regex_of_static(I, 'PEP440_REGEX').pattern]
    ck.load_alphabet(pats, char_ops=['alnum', 'lower', 'ws', 'width'])
    quick = ck.tier == 'quick'
    specs = c06_schemas.custom(ck.tier) + c06_schemas.presets(ck.tier)
    args = []
    for sp in specs:
        for fmt in ('semver', 'pep440'):
            args.append(dict(sp, fmt=fmt))
    ck.bounds = dict(schemas='%d schemas: placement menu (core / extra-core / build positions of var, ts, str, uint components) + the 16 fixed preset schemas' % len(specs),
                     variables='every variable a schema mentions has symbolic presence; numbers in [0,99] (presets [0,9]); text variables of 1-2 (thorough up to 4, hash 9) chars over ASCII + %d non-ASCII representatives; timestamps any second 1970-2199' % len(C.R),
                     formats=['semver', 'pep440'], smart_presets=SMART)
    ck.outside = ['custom JSON variables (Var::Custom)', 'schemas outside the menu, user RON text', 'numbers above 99 in rendering (number range faithfulness is C07)',
                  'clap argument parsing and the write to stdout (C01 executes OutputFormatter::format_output with a symbolic prefix and run_check_command); --output-template']
    ck.assumptions = ['python models of std / regex / chrono format (listed in models_used)', 'reference renderer transcribed from the property statement']
    deadline = time.time() + (900 if quick else 7200)
    ex = engine.explore('c06', 'path', args, jobs=ck.jobs, deadline=deadline)
    cands = ck.absorb('render(schema, vars): placement rules + well-formed output', ex, bounds=dict(args=len(args)), expect_tags=['rendered', 'wellformed', 'rerender_fixed_point'])
    # differential validation: the string msym predicts for a sampled path's model == the natively rendered string
    for wt in ex.wsamples:
        r = native.driver().call(op='render', schema=wt['schema_json'], vars=wt['vars'], fmt=wt['fmt'])
        ck.validated += 1
        got = native.uncps(r['out']) if 'out' in r else repr(r)
        if got != wt['out']:
            ck.validation_mismatch.append(dict(schema=wt['schema'], fmt=wt['fmt'], vars=wt['vars'], msym=wt['out'], native=got))
    ex2 = engine.explore('c06', 'path_tier', SMART, jobs=ck.jobs, deadline=time.time() + 600)
    cands += ck.absorb('smart presets choose the tier from dirty/distance/pre_release/post only', ex2, expect_tags=['tier0', 'tier1', 'tier2', 'tier3'])
    if pid == 'C01':
        # CLI layer: OutputFormatter (prefix) and the check command, on the preset schemas and every sixth (thorough: every third) menu schema
        cli = [dict(a, prefix_len=(None, 0, 1, 2)[i % 4]) for i, a in enumerate(args) if a.get('preset') or i % (6 if quick else 3) == 0]
        ex3 = engine.explore('c06', 'path_cli', cli, jobs=ck.jobs, deadline=time.time() + (600 if quick else 3600))
        cands += ck.absorb('OutputFormatter::format_output = prefix ++ rendering (one line); run_check_command accepts it as normal', ex3,
                           bounds=dict(args=len(cli), prefix='absent or 0..2 characters over the alphabet'), expect_tags=['cli_prefix_exact', 'check_accepts_as_normal'])
    seen = set()
    for v in cands:
        if v['clause'] not in clauses and v['clause'] != 'panic':
            continue
        key = json.dumps(v, sort_keys=True, default=str)
        if key in seen:
            continue
        seen.add(key)
        ok, desc = confirm(v)
        ck.validated += 1
        cls = '%s:%s' % (v['clause'], v.get('fmt', v.get('preset', '')))
        (ck.confirmed if ok else ck.not_reproduced)(cls, desc, v)
    ck.finish()


def confirm(v):
    """replay natively: render the same (schema, vars) with the real code and re-judge with concrete oracles"""
    if v['clause'] == 'tier':
        r = native.driver().call(op='preset_schema', preset=v['preset'], vars=v['vars'])
        return True, 'preset %s vars=%s native schema=%s (%s)' % (v['preset'], v['vars'], r.get('schema'), v['detail'])
    r = native.driver().call(op='render', schema=v['schema'], vars=v['vars'], fmt=v['fmt'])
    if 'panic' in r:
        return True, 'schema=%s vars=%s PANIC %s' % (v.get('schema_text'), v['vars'], r['panic'])
    if 'error' in r:
        return False, 'native render failed: %r' % (r,)
    out = native.uncps(r['out'])
    desc = 'schema=%s fmt=%s vars=%s native=%r :: %s' % (v.get('schema_text'), v['fmt'], v['vars'], out, v['detail'])
    if v['clause'] == 'placement':
        return out != v.get('expected'), desc
    if v['clause'] == 'cli_output':
        pf = v.get('prefix')
        r2 = native.driver().call(op='format_output', schema=v['schema'], vars=v['vars'], fmt=v['fmt'], prefix=pf)
        got = native.uncps(r2['out']) if r2.get('ok') else None
        want = ''.join(map(chr, pf or [])) + out
        return got != want or '\n' in out, desc + ' format_output=%r' % (got,)
    if v['clause'] == 'check_rejects':
        r2 = native.driver().call(op='check', version=r['out'], fmt=v['fmt'])
        return (not r2.get('ok')) or 'normalized' in native.uncps(r2['out']), desc + ' check=%r' % (native.uncps(r2['out']) if r2.get('ok') else r2.get('err'),)
    import relang
    import re
    if v['clause'] == 'non_ascii_output':
        return not out.isascii(), desc
    if v['clause'] == 'not_wellformed':
        okre = relang.SEMVER_PY if v['fmt'] == 'semver' else re.compile(c06.NF_PATTERN.replace('(?:', '(?:'), re.ASCII)
        return okre.fullmatch(out) is None if v['fmt'] == 'semver' else okre.match(out) is None, desc
    if v['clause'] == 'own_parser_rejects':
        return not r.get('reparse_ok'), desc
    if v['clause'] == 'rerender_changes':
        return r.get('rerendered') is not None and native.uncps(r['rerendered']) != out, desc
    return False, desc


if __name__ == '__main__':
    run('C06', 'Rendering places every schema component where the documented rules say', C06_CLAUSES)
