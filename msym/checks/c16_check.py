"""C16 check driver."""
import os
import sys
import time

HERE = os.path.dirname(os.path.abspath(__file__))
sys.path.insert(0, os.path.dirname(HERE))
sys.path.insert(0, os.path.join(os.path.dirname(HERE), 'harness'))

import engine
import native
import checklib
import c16
from values import *      # noqa
import chars as C


def configs(tier):
    N = 5 if tier == 'quick' else 7
    out = []
    for p in ('semver_str', 'pep440_local_str', 'uint', 'key'):
        out.append((dict(preset=p), N + (1 if tier == 'thorough' else 0)))
    for sep in ('.', '-', '_', None):
        for lower in (False, True):
            for keep in (False, True):
                out.append((dict(sep=sep, lower=lower, keep=keep, maxlen=None), N if sep is not None else N - 1))
                mls = [0, 1, 2, N - 1] if tier == 'quick' else list(range(0, N + 1))
                for ml in sorted(set(mls)):
                    out.append((dict(sep=sep, lower=lower, keep=keep, maxlen=ml), N - 1))
    for keep in (False, True):
        out.append((dict(sep=None, lower=False, keep=keep, maxlen=None, target='uint'), N))
    return out, N


def native_run(cfg, inp):
    d = native.driver()
    req = dict(op='sanitize', input=native.cps(inp))
    if cfg.get('preset'):
        req['preset'] = cfg['preset']
    else:
        req.update(sep=None if cfg['sep'] is None else native.cps(cfg['sep']), lower=cfg['lower'], keep=cfg['keep'],
                   maxlen=cfg['maxlen'])
        if cfg.get('target') == 'uint':
            req['target'] = 'uint'
    r = d.call(**req)
    if 'out' in r:
        r['out'] = native.uncps(r['out'])
    return r


def classify(clause, cfg, inp, native_res):
    """role-based class key of a confirmed violation (used for known-findings matching)"""
    nonascii_alnum = any((not ch.isascii()) and ch.isalnum() for ch in inp)
    nonascii_lowers_to_ascii = any((not ch.isascii()) and any(x.isascii() and x.isalnum() for x in ch.lower()) for ch in inp)
    if clause == 'panic':
        if 'char_boundary' in native_res.get('panic', '') or 'char boundary' in native_res.get('panic', ''):
            return 'truncate_inside_multibyte_char'
        return 'panic'
    if nonascii_alnum and clause in ('a_charset', 'e_reference', 'c_leading_zero', 'd_maxlen', 'f_idempotence', 'b_separators'):
        return 'nonascii_alnum_passthrough'
    if nonascii_lowers_to_ascii and clause in ('e_reference',) and c16.effective(cfg)[1]:
        return 'nonascii_lowercases_to_ascii'
    return clause


def concrete_msym(I, cfg, inp):
    """run the interpreter concretely (used for differential validation)"""
    w = engine.World([])
    I.world = w
    I.depth = 0
    try:
        sz = c16.make_sanitizer(I, cfg)
        out = I.call('Sanitizer::sanitize', [ValPtr(sz), mkstr(inp)])
        return {'out': ''.join(chr(c) for c in out.chars)}
    except Panic as e:
        return {'panic': str(e)}


def literal_inputs():
    """string literals of the repo's own sanitiser tests + a few fixed awkward ones"""
    import re
    src = open(os.path.join(engine.REPO, 'src/utils/sanitize.rs')).read()
    k = src.find('#[cfg(test)]')
    lits = set(re.findall(r'"((?:[^"\\]|\\.)*)"', src[k:])) if k >= 0 else set()
    out = set()
    for s in lits:
        try:
            out.add(bytes(s, 'utf-8').decode('unicode_escape') if '\\' in s else s)
        except Exception:
            pass
    out |= {'', '0', '00', '007', 'a..b', '-a-', 'É', 'aÉb', 'K', '1.02.003', ' 42 ', '٣', 'ﬃ', '😀a'}
    return sorted(x for x in out if len(x) <= 24 and all(ord(ch) < 128 or ord(ch) in C.R for ch in x))


def main():
    ck = checklib.Check('C16', 'The sanitiser contract')
    ck.setup(char_ops=['alnum', 'ws', 'lower', 'width'])
    cfgs, N = configs(ck.tier)
    ck.bounds = dict(max_input_chars=N, alphabet='all 128 ASCII code points + %d non-ASCII representatives (one per '
                     'behaviour class of the real std char tables)' % len(C.R),
                     configurations=len(cfgs), separators=['.', '-', '_', 'none'], lowercase=[False, True],
                     keep_zeros=[False, True], max_length='none and 0..%d' % N, presets=['semver_str', 'pep440_local_str', 'uint', 'key'])
    ck.outside = ['inputs longer than the bound', 'code points outside the alphabet (covered only by the class argument)',
                  'separators other than . - _ or longer than one char', 'separator none: only leading-zero rule, length and idempotence are claimed']
    ck.assumptions = ['python models of std str/String/char/iterator functions listed under models_used (validated '
                      'differentially against the native build on every run)',
                      'non-ASCII predicate values are table look-ups of the native std answers']
    # ---- differential validation of the translator (concrete inputs through MIR interpreter and native code)
    I = engine.make_interp()
    lits = literal_inputs()
    rng = ck.rng
    pool = 'aZ09.-_ 0' + ''.join(chr(r) for r in list(C.R)[:10])
    rnd = [''.join(rng.choice(pool) for _ in range(rng.randint(0, 8))) for _ in range(60)]
    vcfgs = [c for c, _ in cfgs if c.get('preset')] + [c for c, _ in cfgs if not c.get('preset')][::5]
    for cfg in vcfgs:
        for s in (lits + rnd)[:: 1 if cfg.get('preset') else 3]:
            a = concrete_msym(I, cfg, s)
            b = native_run(cfg, s)
            ck.validated += 1
            if ('panic' in a) != ('panic' in b) or a.get('out') != b.get('out'):
                ck.validation_mismatch.append(dict(cfg=cfg, input=s, msym=a, native=b))
    # ---- symbolic exploration
    args = []
    for cfg, n in cfgs:
        for k in range(0, n + 1):
            args.append((cfg, k))
    deadline = time.time() + (900 if ck.tier == 'quick' else 7200)
    ex = engine.explore('c16', 'path', args, jobs=ck.jobs, deadline=deadline)
    cands = ck.absorb('sanitizer_contract', ex, bounds=dict(N=N, configs=len(cfgs)), expect_tags=['returned', 'numeric', 'nonnumeric'])
    # ---- replay every candidate natively before reporting (dedup by clause+config+input)
    seen = set()
    for v in cands:
        inp = ''.join(chr(c) for c in v['input'])
        key = (v['clause'], repr(sorted(v['cfg'].items(), key=str)), inp)
        if key in seen:
            continue
        seen.add(key)
        bad, r = c16.concrete_check(v['cfg'], inp, native_run)
        ck.validated += 1
        desc = 'clause=%s cfg=%s input=%r native=%r' % (v['clause'], v['cfg'], inp, r.get('out', r.get('panic')))
        rep = dict(op='sanitize', cfg=v['cfg'], input=inp, clause=v['clause'])
        if v['clause'] in bad or (v['clause'] == 'panic' and 'panic' in r):
            ck.confirmed(classify(v['clause'], v['cfg'], inp, r), desc, rep)
        elif bad:
            # the native run violates the contract, but through a different clause than the solver named
            ck.confirmed(classify(bad[0], v['cfg'], inp, r), desc + ' (native clause: %s)' % bad[0], rep)
        else:
            ck.not_reproduced(v['clause'], desc, rep)
    ck.finish()


def replay(path):
    import json
    native.build()
    data = json.load(open(path))
    worst = 0
    for e in data['examples']:
        r = e['replay']
        bad, res = c16.concrete_check(r['cfg'], r['input'], native_run)
        print('replay', r, '->', res, 'violated:', bad)
        if bad:
            worst = 1
    native.driver().close()
    sys.exit(worst)


if __name__ == '__main__':
    if '--replay' in sys.argv:
        replay(sys.argv[sys.argv.index('--replay') + 1])
    main()
