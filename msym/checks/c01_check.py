"""C01 check driver: same executions as C06, judged for well-formedness of the emitted strings."""
import c06_check
if __name__ == '__main__':
    c06_check.run('C01', 'Every emitted version string is well-formed in the requested format', c06_check.C01_CLAUSES)
