"""C17 check driver: Kani (chrono fields = reference calendar, compiled code) + msym (pattern -> field mapping)."""
import itertools
import json
import os
import sys
import time

HERE = os.path.dirname(os.path.abspath(__file__))
sys.path.insert(0, os.path.dirname(HERE))
sys.path.insert(0, os.path.join(os.path.dirname(HERE), 'harness'))

import engine
import native
import checklib
import kanirun
import c17
from values import *      # noqa

KANI = ['c17_year', 'c17_month', 'c17_day', 'c17_time_of_day', 'c17_weekday', 'c17_ordinal']


def py_reference(pattern_tokens, ts):
    import datetime
    dt = datetime.datetime.fromtimestamp(ts, datetime.timezone.utc)
    week = int(dt.strftime('%W'))
    f = {'YYYY': '%04d' % dt.year, 'YY': '%02d' % (dt.year % 100), 'MM': str(dt.month), '0M': '%02d' % dt.month,
         'DD': str(dt.day), '0D': '%02d' % dt.day, 'HH': str(dt.hour), '0H': '%02d' % dt.hour, 'mm': str(dt.minute),
         '0m': '%02d' % dt.minute, 'SS': str(dt.second), '0S': '%02d' % dt.second, 'WW': str(week), '0W': '%02d' % week}
    return ''.join(f[t] for t in c17.tokens_of(pattern_tokens))


def native_resolve(pat, ts):
    r = native.driver().call(op='resolve_timestamp', pattern=native.cps(pat), ts=ts)
    if r.get('ok'):
        r['out'] = native.uncps(r['out'])
    return r


def confirm(v, tokens):
    r = native_resolve(v['pattern'], v['ts'])
    if 'panic' in r:
        return True, 'panic: %r' % (r,)
    if v['clause'] in ('pattern_rejected', 'schema_rejects_pattern'):
        return (not r.get('ok')), 'native: %r' % (r,)
    exp = py_reference(tokens, v['ts'])
    return (r.get('out') != exp), 'pattern=%s ts=%d native=%r expected=%r' % (v['pattern'], v['ts'], r.get('out', r.get('err')), exp)


def main():
    ck = checklib.Check('C17', 'Timestamp patterns and CalVer components are the UTC calendar fields')
    quick = ck.tier == 'quick'
    ck.setup(need_native=True, char_ops=['alnum', 'lower', 'ws', 'width'])
    # ---------------- Kani: chrono's compiled accessors == reference calendar for every second 1970..2199
    t0 = time.time()
    kres = kanirun.run_all(KANI, jobs=6, timeout_s=1500 if quick else 3600)
    for r in kres:
        ck.obligations.append(dict(name='kani:' + r['harness'], verdict=r['verdict'], solver_s=r['solver_s'], wall_s=r['wall_s'],
                                   checks=r['checks'], covers=r['covers'], bound='every ts in [0, 7258118400) i.e. 1970-01-01..2199-12-31',
                                   failed=r['verdict'] != 'pass'))
        if r['verdict'] == 'fail':
            pb = kanirun.run_harness(r['harness'], playback=True)
            vals = pb.get('playback') or []
            ts = kanirun.le_int(vals[0]) if vals else None
            rr = native.driver().call(op='ts_sweep_one', ts=ts) if ts is not None else {}
            # replay: compare chrono-backed resolve_timestamp with the python calendar for that instant
            ok = False
            desc = 'kani %s: chrono field differs from the reference calendar at ts=%s (%s)' % (r['harness'], ts, r['failed_desc'])
            if ts is not None:
                for p in ('compact_datetime', 'WW'):
                    nr = native_resolve(p, ts)
                    if nr.get('out') != py_reference([p], ts):
                        ok = True
            (ck.confirmed if ok else ck.not_reproduced)('chrono_field:' + r['harness'], desc, dict(harness=r['harness'], ts=ts))
        elif r['verdict'] != 'pass':
            ck.fail_inconclusive('kani %s: %s %s' % (r['harness'], r['verdict'], r.get('tail', '')[-300:]))
    ck.extra['kani'] = dict(harnesses=kres, wall_s=round(time.time() - t0, 1), version='kani 0.68 / CBMC 6.11 (cadical)')
    # ---------------- native sweep (translator validation of the chrono format model + zerv end to end)
    sw = native.driver().call(op='ts_sweep', seed=ck.seed)
    ck.validated += sw.get('evaluations', 0)
    if sw.get('mismatches'):
        for mm in sw['mismatches']:
            ck.confirmed('field_value:' + mm['pattern'], 'native sweep: resolve_timestamp(%r, %d) = %r, calendar says %r' % (mm['pattern'], mm['ts'], mm['got'], mm['expected']),
                         dict(pattern=mm['pattern'], ts=mm['ts'], clause='field_value'))
    ck.extra['native_sweep'] = dict(evaluations=sw.get('evaluations'), rule='first, last and one seeded second of every day 1970-2199 x 16 patterns, real resolve_timestamp vs reference')
    # ---------------- msym: zerv's tokenizer and pattern -> strftime mapping, ts symbolic
    singles = [[p] for p in c17.PATTERNS]
    pairs = [list(x) for x in itertools.product(list(c17.SPEC), repeat=2)]
    triples = [list(x) for x in itertools.product(list(c17.SPEC), repeat=3)] if not quick else \
        [['YYYY', '0M', '0D'], ['YY', 'MM', 'DD'], ['HH', 'mm', 'SS'], ['0H', '0m', '0S'], ['YYYY', 'WW', 'DD'], ['YYYY', '0W', '0D']]
    def unambiguous(ts):
        # adjacent names must not fuse in the tokenizer ("YY"+"YY" is the documented name "YYYY")
        return all(a[-1] != b[0] for a, b in zip(ts, ts[1:]))
    pairs = [p for p in pairs if unambiguous(p)]
    triples = [p for p in triples if unambiguous(p)]
    args = singles + pairs + triples + [['compact_date', 'YYYY'], ['YYYY', 'compact_date']]
    ck.bounds = dict(timestamp='symbolic, every second 1970-01-01T00:00:00Z..2199-12-31T23:59:59Z', patterns='the 16 documented names, all %d ordered pairs and %d triples of the 14 single-field names' % (len(pairs), len(triples)))
    ck.outside = ['years after 2199 and before 1970', 'custom %-formats', "chrono's zero padding of an already-correct field is modelled from the strftime definition and validated natively by the sweep"]
    ck.assumptions = ['calendar fields defined by the civil-from-days reference; Kani harnesses tie chrono::DateTime accessors to it on the compiled code',
                      'chrono::format items %Y %y %m %d %H %M %S %W with and without `-` rendered per strftime definition']
    deadline = time.time() + (600 if quick else 3600)
    ex = engine.explore('c17', 'path', args, jobs=ck.jobs, deadline=deadline)
    cands = ck.absorb('resolve_timestamp(pattern, ts) digits == UTC field (width per statement)', ex, bounds=dict(patterns=len(args)), expect_tags=['resolved'])
    ex2 = engine.explore('c17', 'path_schema', list(c17.PATTERNS), jobs=ck.jobs, deadline=deadline)
    cands += ck.absorb('each documented name is accepted as var(ts(name)) by ZervSchema::new', ex2, expect_tags=['schema_accepts'])
    by_pat = {''.join(a): a for a in args}
    seen = set()
    for v in cands:
        k = (v['clause'], v['pattern'], v['ts'])
        if k in seen:
            continue
        seen.add(k)
        if v['clause'] == 'schema_rejects_pattern':
            ck.confirmed('schema_rejects:' + v['pattern'], v['detail'], dict(v))
            continue
        ok, desc = confirm(v, by_pat.get(v['pattern'], [v['pattern']]))
        ck.validated += 1
        cls = '%s:%s' % (v['clause'], v['pattern'] if len(by_pat.get(v['pattern'], [0])) == 1 else 'concat')
        (ck.confirmed if ok else ck.not_reproduced)(cls, desc, dict(pattern=v['pattern'], ts=v['ts'], clause=v['clause']))
    ck.finish()


def replay(path):
    native.build()
    data = json.load(open(path))
    worst = 0
    for e in data['examples']:
        r = e['replay']
        if 'pattern' not in r:
            continue
        toks = [r['pattern']] if r['pattern'] in c17.PATTERNS else None
        nr = native_resolve(r['pattern'], r['ts'])
        exp = py_reference(toks, r['ts']) if toks else None
        print('replay', r, '->', nr, 'expected', exp)
        if toks and nr.get('out') != exp:
            worst = 1
    native.driver().close()
    sys.exit(worst)


if __name__ == '__main__':
    if '--replay' in sys.argv:
        replay(sys.argv[sys.argv.index('--replay') + 1])
    main()
