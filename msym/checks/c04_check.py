"""C04 check driver (decided part: branch-rule resolution and the branch hash; see DESIGN for what is outside)."""
import json
import os
import sys
import time

HERE = os.path.dirname(os.path.abspath(__file__))
sys.path.insert(0, os.path.dirname(HERE))
sys.path.insert(0, os.path.join(os.path.dirname(HERE), 'harness'))

import engine
import native
import checklib
import kanirun
import c04
import c03
import flowlib
import re
from values import *      # noqa

KANI = ['c04_prefix_wildcard_matches_only_under_prefix', 'c04_exact_and_star']


def py_rules(name):
    return c04.DEFAULT_RULES if c04.RULESETS[name] is None else c04.RULESETS[name]


def py_oracle(rules, branch, label, mode, num):
    rule = None
    if branch is not None:
        for r in rules:
            pat = r[0]
            if pat == '*':
                ok = len(branch) > 0
            elif pat.endswith('/*'):
                ok = branch.startswith(pat[:-1]) and len(branch) > len(pat) - 1
            else:
                ok = branch == pat
            if ok:
                rule = r
                break
    el = label or (rule[1] if rule else 'alpha')
    em = mode or (rule[3] if rule else 'commit')
    en = num
    if en is None and rule is not None:
        if rule[2] is not None:
            en = rule[2]
        else:
            rest = branch if rule[0] == '*' else branch[len(rule[0]) - 1:]
            for seg in rest.split('/'):
                if seg and seg.isascii() and seg.isdigit():
                    v = int(seg)
                    en = v if v <= 2**32 - 1 else None
                    break
    return el, em, en


def confirm_rules(v):
    b = None if v['branch'] is None else ''.join(chr(c) for c in v['branch'])
    rules = py_rules(v['rules'])
    r = native.driver().call(op='branch_rules', rules=None if c04.RULESETS[v['rules']] is None else [list(x) for x in rules],
                             branch=None if b is None else native.cps(b), label=v['label'], mode=v['mode'], num=v['num'])
    desc = 'rules=%s branch=%r flags=(%s,%s,%s) -> native %s' % (v['rules'], b, v['label'], v['num'], v['mode'], {k: r.get(k) for k in ('label', 'num', 'mode', 'err', 'panic')})
    if 'panic' in r:
        return True, desc
    if not r.get('ok'):
        return v['clause'] == 'unexpected_error', desc
    el, em, en = py_oracle(rules, b, v['label'], v['mode'], v['num'])
    return (r['label'], r['mode'], r['num']) != (el, em, en), desc + ' expected (%s,%s,%s)' % (el, en, em)


def confirm_hash(v):
    if v['clause'] in ('hash_not_u32', 'hash_digits', 'hash_length') and not v.get('_searched'):
        # the hash is an uninterpreted function in the encoding: the solver shows that *some* hash value breaks the
        # pipeline; find a real input with such a hash natively (about half of all inputs qualify for length 10)
        for cand in [''.join(chr(c) for c in v['value']), 'feature-2', 'main', 'a', 'b', 'c', 'dev', 'x1', 'hotfix/7']:
            ok, desc = confirm_hash(dict(v, value=[ord(c) for c in cand], _searched=True))
            if ok:
                return ok, desc
        return False, desc
    val = ''.join(chr(c) for c in v['value'])
    extra = '' if v['allow0'] is None else ', allow_leading_zero=%s' % ('true' if v['allow0'] else 'false')
    t = '{{ hash_int(value=bumped_branch, length=%d%s) }}' % (v['length'], extra)
    rs = native.driver().call(op='template', template=native.cps(t), vars={'bumped_branch': native.cps(val)}, **{'as': 'string'})
    ru = native.driver().call(op='template', template=native.cps(t), vars={'bumped_branch': native.cps(val)}, **{'as': 'u32'})
    out = native.uncps(rs['value']) if rs.get('ok') and rs.get('value') is not None else None
    desc = 'hash_int(value=%r, length=%d%s) = %r; as u32: %s' % (val, v['length'], extra, out, ru.get('value', ru.get('err')))
    if 'panic' in rs or 'panic' in ru:
        return True, desc
    if v['clause'] == 'hash_not_u32':
        return not ru.get('ok'), desc
    if out is None:
        return v['clause'] == 'unexpected_error', desc
    bad = len(out) > v['length'] or not out.isdigit() or (not v['allow0'] and len(out) > 1 and out[0] == '0')
    return bad, desc


def flow_oracle(case, arg):
    """the statement's composed law on concrete values -> (patch, label|None, number|None|'hash', post|None, dev_expected)"""
    x, y, z = [int(p) for p in case['tag'].split('.')]
    rules = py_rules(arg.get('rules', 'default'))
    el, em, en = py_oracle(rules, case.get('branch'), arg.get('label'), arg.get('mode'), arg.get('num'))
    dist = case.get('distance') or 0
    dirty = case.get('dirty') is True
    if arg.get('dirty_flag'):
        dirty = True
    if arg.get('no_dirty_flag'):
        dirty = False
    ahead = dist > 0
    eff_dirty = dirty or (em == 'tag' and ahead and not (arg.get('dirty_flag') or arg.get('no_dirty_flag')))
    moved = eff_dirty or ahead
    tag_post = case.get('tag_post')
    if not moved:
        return z, None, None, tag_post, False
    if em == 'commit':
        post = (tag_post or 0) + dist if case.get('distance') is not None else tag_post
    else:
        post = (tag_post or 0) + 1
    return z + 1, el, (en if en is not None else 'hash'), post, ((dirty or ahead) if em == 'tag' else dirty)


def confirm_law(v):
    arg, case = v['arg'], v['case']
    r = flowlib.run_native(arg, case, 'semver', schema='standard-base-prerelease-post-dev')
    desc = 'case=%s flags=%s -> %s' % (case, {k2: arg[k2] for k2 in ('rules', 'mode', 'label', 'num', 'hash_len', 'dirty_flag', 'no_dirty_flag') if arg.get(k2) is not None}, r.get('out', r.get('err', r.get('panic'))))
    if 'panic' in r:
        return True, desc
    if v['clause'] == 'flow_error':
        return not r.get('ok'), desc
    if not r.get('ok'):
        return False, desc
    m = re.fullmatch(r'(\d+)\.(\d+)\.(\d+)(?:-(?:(alpha|beta|rc)\.(\d+))?\.?(?:post\.(\d+))?\.?(?:dev\.(\d+))?)?', r['out'])
    if not m:
        return True, desc + ' (unparseable)'
    ep, el, en, epost, edev = flow_oracle(case, arg)
    got = (int(m.group(3)), m.group(4), None if m.group(5) is None else int(m.group(5)), None if m.group(6) is None else int(m.group(6)), m.group(7) is not None)
    bad = got[0] != ep or got[1] != el or got[3] != epost or got[4] != edev
    if en != 'hash' and got[2] != en:
        bad = True
    if en == 'hash' and (got[2] is None or len(str(got[2])) > arg.get('hash_len', 5)):
        bad = True
    return bad, desc + ' expected patch=%s label=%s num=%s post=%s dev=%s' % (ep, el, en, epost, edev)


def main():
    ck = checklib.Check('C04', 'Flow derives pre-release, post and dev parts from the documented branch rules')
    engine.dump_mir()
    native.build()
    I0 = engine.make_interp()
    import relang
    ck.load_alphabet([relang.regex_of_static(I0, 'SEMVER_REGEX').pattern, relang.regex_of_static(I0, 'PEP440_REGEX').pattern], char_ops=['alnum', 'lower', 'ws', 'width'])
    quick = ck.tier == 'quick'
    t0 = time.time()
    kres = kanirun.run_all(KANI, jobs=2, timeout_s=900)
    for r in kres:
        ck.obligations.append(dict(name='kani:' + r['harness'], verdict=r['verdict'], solver_s=r['solver_s'], wall_s=r['wall_s'], checks=r['checks'],
                                   covers=r['covers'], bound='branch = any <= 5 (4) ASCII bytes', failed=r['verdict'] != 'pass'))
        if r['verdict'] == 'fail':
            pb = kanirun.run_harness(r['harness'], playback=True)
            vals = pb.get('playback') or []
            # any(): len (8 bytes) then one byte per buffer cell
            try:
                ln = kanirun.le_int(vals[0])
                bs = bytes(x[0] for x in vals[1:])[:ln].decode('ascii', 'replace')
            except Exception:
                ln, bs = None, None
            rr = native.driver().call(op='branch_rules', rules=[['ab/*', 'rc', None, 'tag'], ['dev', 'beta', 1, 'commit'], ['*', 'alpha', None, 'commit']], branch=None if bs is None else native.cps(bs))
            exp = py_oracle([('ab/*', 'rc', None, 'tag'), ('dev', 'beta', 1, 'commit'), ('*', 'alpha', None, 'commit')], bs, None, None, None) if bs is not None else None
            ok = bs is not None and rr.get('ok') and (rr['label'], rr['mode'], rr['num']) != exp
            (ck.confirmed if ok else ck.not_reproduced)('kani:matches', 'kani %s: branch=%r native=%s expected=%s' % (r['harness'], bs, rr, exp), dict(kind='kani', branch=bs))
        elif r['verdict'] != 'pass':
            ck.fail_inconclusive('kani %s: %s %s' % (r['harness'], r['verdict'], r.get('tail', '')[-300:]))
    ck.extra['kani'] = dict(harnesses=kres, wall_s=round(time.time() - t0, 1))
    rargs = c04.rule_args(ck.tier)
    hargs = c04.hash_args(ck.tier)
    ck.bounds = dict(rule_sets=list(c04.RULESETS), branch='absent, or every name of length 0..%d over {a,b,d,l,r,v,/,-,0,1,9,x,two non-ASCII}; for the default GitFlow rules: release/ release develop feature/ + up to %d free chars, 9-11 digit segments' % (5 if quick else 7, 3 if quick else 5),
                     flags='--pre-release-label / --post-mode enumerated, --pre-release-num symbolic presence and any u32',
                     hash='value of %s chars over the full alphabet, every length 1..10, allow_leading_zero absent/true/false' % ('1-2' if quick else '0-3'))
    ck.outside = ['branch names longer than the bound', 'the composed law is decided for the flow cases of C03 (one-digit numbers, sources none/stdin); git sources are C02',
                  'Tera templates outside the fixed family flow builds (the model answers unsupported); every reported flow result is replayed through the real pipeline']
    ck.assumptions = ['DefaultHasher (fixed SipHash keys) modelled as an uninterpreted u64 function of the written data', 'python models of str/Vec/Option/iterator functions (models_used)',
                      'oracle = rule semantics transcribed from the statement']
    deadline = time.time() + (600 if quick else 3600)
    ex = engine.explore('c04', 'path_rules', rargs, jobs=ck.jobs, deadline=deadline)
    cands = [('r', v) for v in ck.absorb('apply_branch_rules == explicit flags, else first matching rule, number per the statement', ex, bounds=dict(configs=len(rargs)),
                                         expect_tags=['applied', 'rule:none', 'rule:*', 'rule:rl/*', 'rule:release/*', 'rule:develop'])]
    # differential validation: label / number / post-mode msym computes for a sampled path's model == the native result
    for wt in ex.wsamples:
        if 'flags' not in wt:
            continue
        rules = py_rules(wt['rules'])
        b = wt['branch']
        r = native.driver().call(op='branch_rules', rules=None if c04.RULESETS[wt['rules']] is None else [list(x) for x in rules],
                                 branch=None if b is None else native.cps(b), label=wt['flags']['label'], mode=wt['flags']['mode'], num=wt['flags']['num'])
        ck.validated += 1
        if not r.get('ok') or (r['label'], r['mode'], r['num']) != (wt['label'], wt['mode'], wt['num']):
            ck.validation_mismatch.append(dict(rules=wt['rules'], branch=b, flags=wt['flags'], msym=(wt['label'], wt['mode'], wt['num']), native={k: r.get(k) for k in ('label', 'mode', 'num', 'err', 'panic')}))
    ex2 = engine.explore('c04', 'path_hash', hargs, jobs=ck.jobs, deadline=time.time() + 600)
    cands += [('h', v) for v in ck.absorb('hash_int(value, length): <= length digits, no leading zero, deterministic, accepted as u32', ex2, bounds=dict(configs=len(hargs)), expect_tags=['hashed', 'fits_u32'])]
    fcases = [a for a in c03.flow_cases(ck.tier) if a.get('schema') in (None, 'standard')]
    ex3 = engine.explore('c03', 'path_law', fcases, jobs=ck.jobs, deadline=time.time() + (600 if quick else 3600))
    cands += [('law', v) for v in ck.absorb('flow result = composed law(tag, rule, distance, dirty, flags)', ex3, bounds=dict(configs=len(fcases)), expect_tags=['flow_ok', 'law_holds'])]
    seen = set()
    for kind, v in cands:
        key = json.dumps(v, sort_keys=True, default=str)
        if key in seen:
            continue
        seen.add(key)
        ok, desc = {'r': confirm_rules, 'h': confirm_hash, 'law': confirm_law}[kind](v)
        ck.validated += 1
        cls = v['clause'] if kind != 'h' else '%s:length%d' % (v['clause'], v['length'])
        (ck.confirmed if ok else ck.not_reproduced)(cls, v['clause'] + ': ' + desc, dict(v, kind=kind))
    ck.finish()


def replay(path):
    native.build()
    data = json.load(open(path))
    worst = 0
    for e in data['examples']:
        v = e['replay']
        if v.get('kind') == 'kani':
            continue
        ok, desc = {'r': confirm_rules, 'h': confirm_hash, 'law': confirm_law}[v['kind']](v)
        print('replay:', desc, '-> violated' if ok else '-> holds')
        worst = max(worst, int(ok))
    native.driver().close()
    sys.exit(worst)


if __name__ == '__main__':
    if '--replay' in sys.argv:
        replay(sys.argv[sys.argv.index('--replay') + 1])
    main()
