"""C07 check driver."""
import json
import os
import sys
import time

HERE = os.path.dirname(os.path.abspath(__file__))
sys.path.insert(0, os.path.dirname(HERE))
sys.path.insert(0, os.path.join(os.path.dirname(HERE), 'harness'))

import engine
import native
import checklib
import c07
import c10_check
import c11_check
from values import *      # noqa

U32 = 2**32 - 1


def show_sv(d):
    return c10_check.show(d)


def all_numbers(d):
    out = [d['major'], d['minor'], d['patch']]
    for l in (d['pre'] or []) + (d['build'] or []):
        if 'u' in l:
            out.append(l['u'])
    return out


def norm_sv(d):
    return json.dumps(d, sort_keys=True)


def replay_semver(v):
    a = v['a']
    r = native.driver().call(op='semver_convert', v=a)
    if 'panic' in r:
        return (v['clause'] == 'panic' or True), 'panic', 'a=%s native panic: %s' % (show_sv(a), r['panic'])
    fits = all(n <= U32 for n in all_numbers(a))
    bad = []
    if r['back_printed'] != r['printed']:
        bad.append('semver_identity')
    # expected PEP 440 rendering
    exp = expected_pep_string(a)
    got = native.uncps(r['pep_printed'])
    if got != exp:
        bad.append('pep440_fields' if fits else 'silent_number_change')
    if fits and r['back_from_pep_printed'] != r['printed']:
        bad.append('pep440_roundtrip')
    desc = 'a=%s back=%s pep=%s (expected %s) back_from_pep=%s' % (show_sv(a), native.uncps(r['back_printed']), got, exp, native.uncps(r['back_from_pep_printed']))
    return bool(bad), (v['clause'] if v['clause'] in bad else (bad[0] if bad else v['clause'])), desc


def expected_pep_string(a):
    pre = a['pre'] or []
    f = {}
    i = 0
    while i + 1 < len(pre):
        k = ''.join(map(chr, pre[i]['s']))
        f[k] = pre[i + 1]['u']
        i += 2
    s = ''
    if 'epoch' in f:
        s += '%d!' % f['epoch']
    s += '%d.%d.%d' % (a['major'], a['minor'], a['patch'])
    for lab, short in (('alpha', 'a'), ('beta', 'b'), ('rc', 'rc')):
        if lab in f:
            s += '%s%d' % (short, f[lab])
    if 'post' in f:
        s += '.post%d' % f['post']
    if 'dev' in f:
        s += '.dev%d' % f['dev']
    if a['build']:
        s += '+' + '.'.join(str(x['u']) if 'u' in x else ''.join(map(chr, x['s'])) for x in a['build'])
    return s


def replay_pep(v):
    p = v['p']
    r = native.driver().call(op='pep_convert', p=p)
    if 'panic' in r:
        return True, 'panic', 'p=%s native panic: %s' % (c11_check.show(p), r['panic'])
    bad = []
    if not r['equal']:
        bad.append('pep440_via_semver')
    if r['semver_printed'] != r['semver_again_printed']:
        bad.append('semver_rendering_fixed_point')
    desc = 'p=%s semver=%s back=%s equal=%s' % (c11_check.show(p), native.uncps(r['semver_printed']), native.uncps(r['back_printed']), r['equal'])
    return bool(bad), (v['clause'] if v['clause'] in bad else (bad[0] if bad else v['clause'])), desc


def classify(clause, v, desc):
    if clause == 'panic':
        if 'expect' in v.get('detail', '') or 'SemVer default conversion' in desc:
            return 'panic:Zerv::from(SemVer).expect'
        return 'panic'
    if clause == 'silent_number_change':
        return 'u32_overflow:' + overflow_role(v.get('a'), desc)
    return clause


def overflow_role(a, desc):
    """which number exceeds u32 and what happened to it in the PEP 440 rendering (role-based key)"""
    if not a:
        return 'unknown'
    pre = a['pre'] or []
    roles = []
    for k, name in enumerate(('major', 'minor', 'patch')):
        if a[name] > U32:
            roles.append(('core', a[name]))
    i = 0
    while i + 1 < len(pre):
        lab = ''.join(map(chr, pre[i]['s']))
        if pre[i + 1].get('u', 0) > U32:
            roles.append((lab if lab in ('epoch', 'post', 'dev') else 'pre_number', pre[i + 1]['u']))
        i += 2
    for b in a['build'] or []:
        if b.get('u', 0) > U32:
            roles.append(('build', b['u']))
    if not roles:
        return 'none_above_u32'
    m = __import__('re').search(r'pep=(\S+)', desc)
    pep = m.group(1) if m else ''
    out = []
    for role, n in roles:
        if str(n) not in pep:
            fate = 'dropped_or_altered'
        elif '+' in pep and str(n) in pep.split('+', 1)[1] and role != 'build':
            fate = 'moved_to_local'
        else:
            fate = 'kept_elsewhere'
        out.append('%s:%s' % (role, fate))
    return ','.join(sorted(set(out)))


def main():
    ck = checklib.Check('C07', 'Format conversion is faithful')
    ck.setup(char_ops=['alnum', 'lower', 'ws', 'width'])
    quick = ck.tier == 'quick'
    builds = [None, (0,), (2,)] if quick else [None, (0,), (1,), (3,), (0, 2), (2, 0)]
    sshapes = c07.semver_shapes(builds)
    if quick:
        # part combinations: all present, all absent, each alone; labels none / rc (alpha/beta differ only in the label word)
        keep = {(True, True, True), (False, False, False), (True, False, False), (False, True, False), (False, False, True)}
        sshapes = [s for s in sshapes if (s[0], s[2], s[3]) in keep and s[1] in (None, 'rc')]
    # repeated identifiers of the same kind (may be equal): plain core and the full shape
    dup = [(0, 0), (1, 1)] if quick else [(0, 0), (1, 1), (2, 2), (0, 0, 0), (1, 0, 1)]
    sshapes += [(e, lab, po, de, b) for b in dup for (e, lab, po, de) in ((False, None, False, False), (True, 'rc', True, True))]
    small = 9      # non-designated numbers stay one-digit in the designated-number runs (thorough: 99 only in the all-small run)
    P = lambda k: 10 ** k
    if quick:
        cls64 = [(0, 9), (10, 99), (P(9), U32), (U32 + 1, P(10) - 1), (P(10), P(11) - 1), (P(19), 2**64 - 1)]
        cls32 = [(0, 9), (10, 99), (P(9), U32)]
    else:
        # every second digit length (the full 1..20 sweep ran past the two-hour cap: 670 000 paths)
        cls64 = [(0, 9), (10, 99), (P(4), P(5) - 1), (P(8), P(9) - 1), (P(9), U32), (U32 + 1, P(10) - 1), (P(10), P(11) - 1), (P(14), P(15) - 1), (P(18), P(19) - 1), (P(19), 2**64 - 1)]
        cls32 = [(0, 9), (10, 99), (P(4), P(5) - 1), (P(8), P(9) - 1), (P(9), U32)]
    args = [(s, 'both', 'none', 9 if quick else 99, None) for s in sshapes]
    for s in sshapes:
        if quick and s[1] in ('alpha', 'beta'):
            continue
        args += [(s, 'both', b, small, r) for b in range(c07.count_numbers_semver(s)) for r in cls64]
    locs = [None, (0,), (2,)] if quick else [None, (0,), (1,), (2,), (0, 2), (2, 0)]
    pshapes = c07.pep_shapes(locs, rels=(1, 2, 3))
    if quick:
        keep = {(True, True, True), (False, False, False), (True, False, False), (False, True, False), (False, False, True)}
        pshapes = [p for p in pshapes if (p[1], p[3], p[4]) in keep and p[2] in (None, 'rc') and (p[0] in (1, 3) or p[5] is None)]
    pshapes += [(r, e, lab, po, de, l) for l in dup for (r, e, lab, po, de) in ((1, False, None, False, False), (3, True, 'rc', True, True))]
    ck.bounds = dict(semver='canonical shape X.Y.Z[-[epoch.E.][alpha|beta|rc.N.][post.P.][dev.D]][+ids]: all 2x4x2x2 part combinations, numbers: either all in [0,99], or one designated number (each position in turn) ranging over digit-length classes of the u64 range (quick: 1, 2, 10 (split at 2^32), 11 and 20 digits; thorough: lengths 1, 2, 5, 9, 10 (split at 2^32), 11, 15, 19, 20) with the others in [0,%d]' % small + ' (E>=1), build ids %s' % (builds + dup,),
                     pep440='release length 1..3, epoch/pre/post/dev each absent or present; numbers: all in [0,99] or one designated number any u32 with the others small, local %s' % (locs + dup,),
                     shapes=dict(semver=len(args), pep440=len(pshapes)))
    ck.outside = ['non-canonical SemVer (lossy by design)', 'more than 2 (thorough 3) build/local identifiers, string identifiers longer than 3',
                  'string-level render/parse round trips are covered by C08/C09', 'the `zerv render` CLI wrapper']
    ck.assumptions = ['python models of Vec/Option/String/IndexMap/str::parse/to_string used by the conversion code (models_used)',
                      'schema validation (ZervSchema::new/push_*) is executed from MIR, not modelled']
    # differential validation
    I = engine.make_interp()
    for _ in range(40):
        d = c10_check.rand_ver(ck.rng)
        # restrict to canonical-ish inputs so that From<SemVer> cannot panic natively in an uninteresting way
        w = engine.World([])
        I.world = w
        I.depth = 0
        try:
            z = I.call('<Zerv as From<SemVer>>::from', [c10_check.build_value(I, d)])
            back = I.call('<SemVer as From<Zerv>>::from', [deep_copy(z)])
            pep = I.call('<PEP440 as From<Zerv>>::from', [z])
            ms = (''.join(map(chr, I.call('<SemVer as ToString>::to_string', [ValPtr(back)]).chars)),
                  ''.join(map(chr, I.call('<PEP440 as ToString>::to_string', [ValPtr(pep)]).chars)))
        except Panic as e:
            ms = 'panic'
        except Unsupported as e:
            ms = 'unsupported: %s' % e
        r = native.driver().call(op='semver_convert', v=d)
        nat = 'panic' if 'panic' in r else (native.uncps(r['back_printed']), native.uncps(r['pep_printed']))
        ck.validated += 1
        if ms != nat:
            ck.validation_mismatch.append(dict(input=show_sv(d), msym=ms, native=nat))
    deadline = time.time() + (900 if quick else 7200)
    ex = engine.explore('c07', 'path_semver', args, jobs=ck.jobs, deadline=deadline)
    cands = [('sv', v) for v in ck.absorb('canonical SemVer -> Zerv -> SemVer / PEP 440 / back', ex, bounds=dict(shapes=len(args)), expect_tags=['converted', 'roundtrip'])]
    pargs = [(p, 'none', 9 if quick else 99, None) for p in pshapes]
    for p in pshapes:
        if quick and p[2] in ('alpha', 'beta'):
            continue
        pargs += [(p, b, small, r) for b in range(c07.count_numbers_pep(p)) for r in cls32]
    ex2 = engine.explore('c07', 'path_pep', pargs, jobs=ck.jobs, deadline=time.time() + (900 if quick else 5400))
    cands += [('pep', v) for v in ck.absorb('PEP 440 (<=3 release numbers) -> SemVer -> PEP 440 equal; SemVer rendering is a fixed point', ex2, bounds=dict(shapes=len(pshapes)), expect_tags=['converted'])]
    seen = set()
    for kind, v in cands:
        key = json.dumps(v, sort_keys=True, default=str)
        if key in seen:
            continue
        seen.add(key)
        ok, clause, desc = (replay_semver if kind == 'sv' else replay_pep)(v)
        ck.validated += 1
        rep = dict(kind=kind, clause=clause, a=v.get('a'), p=v.get('p'))
        if ok:
            ck.confirmed(classify(clause, v, desc), clause + ': ' + desc, rep)
        else:
            ck.not_reproduced(v['clause'], desc, rep)
    ck.finish()


def replay(path):
    native.build()
    data = json.load(open(path))
    worst = 0
    for e in data['examples']:
        r = e['replay']
        ok, clause, desc = (replay_semver if r['kind'] == 'sv' else replay_pep)(dict(r, clause=r['clause']))
        print('replay:', clause, desc, '-> violated' if ok else '-> holds')
        worst = max(worst, int(ok))
    native.driver().close()
    sys.exit(worst)


if __name__ == '__main__':
    if '--replay' in sys.argv:
        replay(sys.argv[sys.argv.index('--replay') + 1])
    main()
