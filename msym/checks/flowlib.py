"""Shared replay helpers for the flow checks (C03, composed half of C04): argv construction for the native `flow` op and
independent string-level comparators (SemVer 2.0.0 precedence, PEP 440 key) used to judge native outputs."""
import re

import native
import relang
import c04


def rules_ron(name):
    rules = c04.RULESETS[name]
    if rules is None:
        return None
    parts = []
    for pat, lab, num, mode in rules:
        parts.append('(pattern: "%s", pre_release_label: %s, %spost_mode: %s)' % (pat, lab, '' if num is None else 'pre_release_num: %d, ' % num, mode))
    return '[' + ', '.join(parts) + ']'


def argv_for(arg, fmt, schema=None):
    a = ['--source', 'stdin', '--output-format', fmt, '--schema', schema or arg.get('schema') or 'standard']
    rr = rules_ron(arg.get('rules', 'default'))
    if rr:
        a += ['--branch-rules', rr]
    if arg.get('label'):
        a += ['--pre-release-label', arg['label']]
    if arg.get('num') is not None:
        a += ['--pre-release-num', str(arg['num'])]
    if arg.get('mode'):
        a += ['--post-mode', arg['mode']]
    if arg.get('hash_len'):
        a += ['--hash-branch-len', str(arg['hash_len'])]
    if arg.get('dirty_flag'):
        a += ['--dirty']
    if arg.get('no_dirty_flag'):
        a += ['--no-dirty']
    return a


def vars_for(case, distance=None):
    x, y, z = [int(p) for p in case['tag'].split('.')]
    v = dict(major=x, minor=y, patch=z, distance=case['distance'] if distance is None else distance, dirty=case['dirty'])
    if case.get('branch') is not None:
        v['bumped_branch'] = native.cps(case['branch'])
    if case.get('tag_post') is not None:
        v['post'] = case['tag_post']
    if case.get('tag_pre'):
        v['pre_release'] = dict(label=case['tag_pre'][0], number=case['tag_pre'][1])
    return v


def run_native(arg, case, fmt, distance=None, schema=None):
    r = native.driver().call(op='flow', vars=vars_for(case, distance), argv=argv_for(arg, fmt, schema))
    if r.get('ok'):
        r['out'] = native.uncps(r['out'])
    return r


# ------------------------------------------------------------------ independent comparators on strings
def semver_key(s):
    m = relang.SEMVER_PY.fullmatch(s)
    if not m:
        return None
    core = tuple(int(x) for x in m.groups()[:3])
    pre = m.group(4)
    ids = None
    if pre is not None:
        ids = []
        for p in pre.split('.'):
            ids.append((0, int(p), '') if p.isdigit() else (1, 0, p))
    return core, ids


def semver_cmp(a, b):
    ka, kb = semver_key(a), semver_key(b)
    if ka is None or kb is None:
        return None
    if ka[0] != kb[0]:
        return -1 if ka[0] < kb[0] else 1
    pa, pb = ka[1], kb[1]
    if pa is None and pb is None:
        return 0
    if pa is None:
        return 1
    if pb is None:
        return -1
    for x, y in zip(pa, pb):
        if x != y:
            return -1 if x < y else 1
    return (len(pa) > len(pb)) - (len(pa) < len(pb))


def pep_key(s):
    m = relang.PEP440_PY.fullmatch(s)
    if not m:
        return None
    rel = [int(x) for x in m.group('release').split('.')]
    while len(rel) > 1 and rel[-1] == 0:
        rel.pop()
    ph = {'a': 0, 'alpha': 0, 'b': 1, 'beta': 1, 'rc': 2, 'c': 2, 'pre': 2, 'preview': 2}
    pre = (ph[m.group('pre_l').lower()], int(m.group('pre_n') or 0)) if m.group('pre_l') else (3, 0)
    post = (1, int(m.group('post_n1') or m.group('post_n2') or 0)) if m.group('post') else (0, 0)
    dev = (0, int(m.group('dev_n') or 0)) if m.group('dev') else (1, 0)
    loc = (0, ())
    if m.group('local'):
        segs = re.split(r'[-_.]', m.group('local').lower())
        loc = (1, tuple((0, int(x), '') if x.isdigit() else (1, 0, x) for x in segs))
    return (int(m.group('epoch') or 0), tuple(rel), pre, post, dev, loc)


def pep_cmp(a, b):
    ka, kb = pep_key(a), pep_key(b)
    if ka is None or kb is None:
        return None
    # zero-padded release comparison
    n = max(len(ka[1]), len(kb[1]))
    ka = (ka[0], ka[1] + (0,) * (n - len(ka[1]))) + ka[2:]
    kb = (kb[0], kb[1] + (0,) * (n - len(kb[1]))) + kb[2:]
    return (ka > kb) - (ka < kb)


def vcmp(fmt, a, b):
    return semver_cmp(a, b) if fmt == 'semver' else pep_cmp(a, b)
