"""C05 check driver."""
import json
import os
import sys
import time

HERE = os.path.dirname(os.path.abspath(__file__))
sys.path.insert(0, os.path.dirname(HERE))
sys.path.insert(0, os.path.join(os.path.dirname(HERE), 'harness'))

import engine
import native
import checklib
import c05
import c06
from values import *      # noqa

ORDER = ['epoch', 'major', 'minor', 'patch', 'label', 'pre_n', 'post', 'dev']


def concrete_law(start, flags, arg):
    """the 11-level law on concrete values (independent re-implementation for the replay side)"""
    s = {k: start.get(k) for k in ('epoch', 'major', 'minor', 'patch', 'post', 'dev')}
    pre = start.get('pre_release')
    pre = None if pre is None else dict(pre)
    state = dict(s, pre=pre)

    def reset(level):
        k = ORDER.index(level)
        for lower in ORDER[k + 1:]:
            if lower in ('major', 'minor', 'patch'):
                state[lower] = 0
            elif lower == 'label':
                state['pre'] = None
            elif lower == 'pre_n':
                if state['pre'] is not None:
                    state['pre']['number'] = 0
            elif lower in ('post', 'dev'):
                state[lower] = None

    def num(level, o, b):
        if o is not None:
            state[level] = o
        if b is not None:
            state[level] = (state[level] or 0) + b
            reset(level)

    def pren(o, b):
        if o is not None:
            if state['pre'] is None:
                state['pre'] = dict(label='alpha', number=o)
            else:
                state['pre']['number'] = o
        if b is not None:
            if state['pre'] is None:
                state['pre'] = dict(label='alpha', number=b)
            else:
                state['pre']['number'] = (state['pre']['number'] or 0) + b
            reset('pre_n')

    def section(sec):
        comps = c05.SCHEMAS[arg['schema']][{'core': 0, 'extra_core': 1, 'build': 2}[sec]]
        specs = {}
        for sp in arg.get('ov_' + sec, []):
            i, v = sp.split('=')
            specs.setdefault(c05.norm_index(i, len(comps)), [None, None])[0] = int(v) if v.isdigit() else v
        for sp in arg.get('bp_' + sec, []):
            i, v = (sp.split('=') + ['1'])[:2]
            specs.setdefault(c05.norm_index(i, len(comps)), [None, None])[1] = int(v)
        for i in sorted(specs):
            o, b = specs[i]
            c = comps[i]
            if c[0] == 'var':
                lv = {'Major': 'major', 'Minor': 'minor', 'Patch': 'patch', 'Epoch': 'epoch', 'Post': 'post', 'Dev': 'dev', 'PreRelease': 'pre_n'}.get(c[1])
                if lv == 'pre_n':
                    pren(o, b)
                elif lv:
                    num(lv, o, b)
    g = lambda k: flags.get('--' + k)
    gb = lambda k: flags.get('--bump-' + k)
    for lv in ('epoch', 'major', 'minor', 'patch'):
        num(lv, g(lv), gb(lv))
    section('core')
    if arg.get('ov_label'):
        n = g('pre_release_num')
        if n is None:
            n = state['pre']['number'] if state['pre'] and state['pre']['number'] is not None else 0
        state['pre'] = dict(label=arg['ov_label'], number=n)
    if arg.get('bp_label'):
        reset('label')
        state['pre'] = dict(label=arg['bp_label'], number=0)
    pren(g('pre_release_num'), gb('pre_release_num'))
    num('post', g('post'), gb('post'))
    num('dev', g('dev'), gb('dev'))
    section('extra_core')
    section('build')
    return state


def native_bump(v):
    arg = v['arg']
    fl = v['flags']
    ov = {k[2:]: n for k, n in fl.items() if not k.startswith('--bump-')}
    bp = {k[7:]: n for k, n in fl.items() if k.startswith('--bump-')}
    req = dict(op='bump', schema=c06.schema_json(c05.SCHEMAS[arg['schema']]), vars=v['start'], overrides=ov, bumps=bp,
               ov_label=arg.get('ov_label'), bp_label=arg.get('bp_label'))
    for sec in ('core', 'extra_core', 'build'):
        req['ov_' + sec] = arg.get('ov_' + sec, [])
        req['bp_' + sec] = arg.get('bp_' + sec, [])
    return native.driver().call(**req)


def confirm(v):
    r = native_bump(v)
    arg = v['arg']
    desc = '%s start=%s flags=%s -> native %s' % (arg.get('name'), v['start'], v['flags'], {k: r.get(k) for k in ('ok', 'vars', 'err', 'panic')})
    if 'panic' in r:
        return True, 'panic', desc
    if v['clause'] == 'invalid_target_accepted':
        return bool(r.get('ok')), v['clause'], desc
    if v['clause'] == 'unexpected_error':
        return not r.get('ok'), v['clause'], desc
    if not r.get('ok'):
        return False, v['clause'], desc
    exp = concrete_law(v['start'], v['flags'], arg)
    got = r['vars']
    bad = any(got.get(k) != exp.get(k) for k in ('epoch', 'major', 'minor', 'patch', 'post', 'dev')) or got.get('pre_release') != exp['pre']
    if v['clause'] == 'literal':
        return True, v['clause'], desc + ' :: ' + v['detail']
    return bad, v['clause'], desc + ' expected %s' % exp


def classify(clause, v):
    arg = v['arg']
    return '%s:%s' % (clause, arg.get('name', '').split(':')[0])


def main():
    ck = checklib.Check('C05', 'Override, bump and reset semantics follow the precedence order')
    ck.setup(char_ops=['alnum', 'lower', 'ws', 'width'])
    args = c05.args_for(ck.tier)
    quick = ck.tier == 'quick'
    ck.bounds = dict(start='symbolic presence and values (<= 2^40) of epoch/major/minor/patch/pre-release(label,number)/post/dev',
                     by_name_flags='windows of %d levels at a time: override and bump of each level in the window have symbolic presence and any u32 amount; plus all-bumps and all-overrides windows' % (3 if quick else 4),
                     labels='override/bump of the pre-release label in {alpha, beta, rc} x by-name windows',
                     index_ops='positive, negative and ~n indices into core / extra-core / build, with and without values, against by-name windows; literal uint/str components; 15 invalid-target shapes',
                     configurations=len(args))
    ck.outside = ['start values above 2^40 (u64 overflow of additions is decided under C13)', 'more than %d levels with simultaneously symbolic flags' % (3 if quick else 4),
                  'VCS/tag-version/clean context overrides (apply_context_overrides) and template resolution of the flag values',
                  'flag order: ResolvedArgs is a record, the spec vectors are permuted only in the index families']
    ck.assumptions = ['python models of Option/Vec/IndexMap/HashSet/str::split_once/parse/sort_by_key used by the bump code', 'oracle = the 11-level law transcribed from the statement']
    deadline = time.time() + (900 if quick else 7200)
    ex = engine.explore('c05', 'path', args, jobs=ck.jobs, deadline=deadline)
    cands = ck.absorb('apply_component_processing == 11-level law; invalid targets rejected', ex, bounds=dict(configs=len(args)), expect_tags=['processed', 'rejected'])
    # differential validation: the variables msym computes for a sampled path's model == the natively computed ones
    for wt in ex.wsamples:
        if not isinstance(wt.get('arg'), dict) or 'result' not in wt:
            continue
        r = native_bump(wt)
        ck.validated += 1
        got = r.get('vars') or {}
        if not r.get('ok') or any(got.get(k) != wt['result'].get(k) for k in ('epoch', 'major', 'minor', 'patch', 'post', 'dev', 'pre_release')):
            ck.validation_mismatch.append(dict(arg=wt['arg'].get('name'), start=wt['start'], flags=wt['flags'], msym=wt['result'], native={k: r.get(k) for k in ('ok', 'vars', 'err', 'panic')}))
    seen = set()
    for v in cands:
        key = json.dumps(v, sort_keys=True, default=str)
        if key in seen:
            continue
        seen.add(key)
        ok, clause, desc = confirm(v)
        ck.validated += 1
        (ck.confirmed if ok else ck.not_reproduced)(classify(clause, v), clause + ': ' + desc, v)
    ck.finish()


def replay(path):
    native.build()
    data = json.load(open(path))
    worst = 0
    for e in data['examples']:
        ok, clause, desc = confirm(e['replay'])
        print('replay:', clause, desc, '-> violated' if ok else '-> holds')
        worst = max(worst, int(ok))
    native.driver().close()
    sys.exit(worst)


if __name__ == '__main__':
    if '--replay' in sys.argv:
        replay(sys.argv[sys.argv.index('--replay') + 1])
    main()
