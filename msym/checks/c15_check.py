"""C15 check driver (decided part: part accessors, template context coherence, custom function contracts)."""
import json
import os
import sys
import time

HERE = os.path.dirname(os.path.abspath(__file__))
sys.path.insert(0, os.path.dirname(HERE))
sys.path.insert(0, os.path.join(os.path.dirname(HERE), 'harness'))

import engine
import native
import checklib
import c15
import c10
import c11
import c06
import c06_schemas
import c16
from values import *      # noqa

U = native.uncps


def ou(x):
    return None if x is None else U(x)


def confirm(kind, v):
    d = native.driver()
    if kind == 'sv':
        r = d.call(op='parts', v=v['v'])
        if 'panic' in r:
            return True, 'panic %s' % r['panic']
        full, base, pre, build, docker = U(r['full']), U(r['base']), ou(r['pre']), ou(r['build']), U(r['docker'])
        rec = base + ('-' + pre if pre is not None else '') + ('+' + build if build is not None else '')
        return (rec != full or docker != full.replace('+', '-')), 'semver %r parts=(%r,%r,%r) docker=%r' % (full, base, pre, build, docker)
    if kind == 'pep':
        r = d.call(op='parts', p=v['p'])
        if 'panic' in r:
            return True, 'panic %s' % r['panic']
        full, base, pre, build = U(r['full']), U(r['base']), ou(r['pre']), ou(r['build'])
        rec = base + (pre or '') + ('+' + build if build is not None else '')
        return rec != full, 'pep440 %r parts=(%r,%r,%r)' % (full, base, pre, build)
    if kind == 'tpl':
        r = d.call(op='format_template', schema=v['schema'], vars=v['vars'], template=native.cps(v['template']))
        if 'panic' in r or 'error' in r:
            return 'panic' in r, 'format_output: %s' % (r.get('panic') or r.get('error'))
        g = lambda k: U(r[k]['out']) if r[k].get('ok') else None
        t, sv, pp = g('templated'), g('semver'), g('pep440')
        tx = v['template']
        if t is None or sv is None or pp is None:
            bad = not tx.startswith('{{ major')
        elif tx == '{{ semver }}':
            bad = t != sv
        elif tx == '{{ pep440 }}':
            bad = t != pp
        elif 'docker' in tx:
            bad = t != sv.replace('+', '-')
        elif tx.startswith('v{{ semver_obj.base_part'):
            bad = not ('v' + sv).startswith(t)
        elif 'pep440_obj.base_part' in tx:
            bad = not pp.startswith(t)
        else:
            bad = False
        return bad, 'template %r -> %r ; semver %r ; pep440 %r (vars %s)' % (tx, t, sv, pp, v['vars'])
    if kind == 'ctx':
        r = d.call(op='context', schema=v['schema'], vars=v['vars'])
        if 'panic' in r:
            return True, 'panic %s' % r['panic']
        sv, pp = U(r['semver']), U(r['pep440'])
        bad = sv != U(r['semver_direct']) or pp != U(r['pep440_direct'])
        rec = U(r['sv_base']) + ('-' + ou(r['sv_pre']) if r['sv_pre'] is not None else '') + ('+' + ou(r['sv_build']) if r['sv_build'] is not None else '')
        bad = bad or rec != sv
        rec = U(r['pp_base']) + (ou(r['pp_pre']) or '') + ('+' + ou(r['pp_build']) if r['pp_build'] is not None else '')
        bad = bad or rec != pp
        for f in ('major', 'minor', 'patch', 'epoch', 'post', 'dev', 'distance'):
            if f in v['vars'] and r.get(f) != v['vars'][f]:
                bad = True
        return bad, 'context vars=%s semver=%r pep440=%r sv_obj=(%r,%r,%r) pp_obj=(%r,%r,%r)' % (v['vars'], sv, pp, U(r['sv_base']), ou(r['sv_pre']), ou(r['sv_build']), U(r['pp_base']), ou(r['pp_pre']), ou(r['pp_build']))
    # functions through the real Tera registration
    a = v['arg']
    fn = a[0]
    val = ''.join(chr(c) for c in v.get('value', []))
    vars_ = {'bumped_branch': native.cps(val)}

    def render(t, **kw):
        r = d.call(op='template', template=native.cps(t), vars=dict(vars_, **kw), **{'as': 'string'})
        return r, (U(r['value']) if r.get('ok') and r.get('value') is not None else None)
    if fn == 'prefix':
        r, out = render('{{ prefix(value=bumped_branch, length=%d) }}' % a[2])
        if 'panic' in r:
            return True, 'prefix(value=%r, length=%d) panics: %s' % (val, a[2], r['panic'])
        out = out or ''
        bad = len(out) > a[2] or not val.startswith(out) or (val.isascii() and len(out) < min(a[2], len(val)))
        return bad, 'prefix(value=%r, length=%d) = %r' % (val, a[2], out)
    if fn == 'hash':
        t = '{{ hash(value=bumped_branch%s) }}' % ('' if a[2] is None else ', length=%d' % a[2])
        r, out = render(t)
        if 'panic' in r:
            return True, 'hash panics: %s' % r['panic']
        L = 7 if a[2] is None else a[2]
        return (out is None or len(out) > L or any(ch not in '0123456789abcdef' for ch in out)), 'hash(%r, %s) = %r' % (val, a[2], out)
    if fn == 'sanitize':
        cfgname = a[2]
        if isinstance(cfgname, str):
            t = '{{ sanitize(value=bumped_branch%s) }}' % ('' if cfgname == 'default' else ', preset="%s"' % cfgname)
            sep, lower, keep = '.', cfgname in ('pep440', 'lower_dotted', 'pep440_local_str'), False
        else:
            sep, lower, keep = cfgname
            t = '{{ sanitize(value=bumped_branch, separator="%s", lowercase=%s, keep_zeros=%s) }}' % (sep, str(lower).lower(), str(keep).lower())
        r, out = render(t)
        if 'panic' in r:
            return True, 'sanitize panics: %s' % r['panic']
        exp = c16.concrete_reference(val, sep, lower, keep)
        return out != exp, 'sanitize(%r, %r) = %r, contract says %r' % (val, cfgname, out, exp)
    if fn == 'prefix_if':
        return True, 'prefix_if: %s' % v['detail']
    if fn == 'format_timestamp':
        import c17_check
        fmt = a[1]
        t = '{{ format_timestamp(value=bumped_timestamp%s) }}' % ('' if fmt is None else ', format="%s"' % fmt)
        r = d.call(op='template', template=native.cps(t), vars={'bumped_timestamp': v.get('ts', 0)}, **{'as': 'string'})
        out = U(r['value']) if r.get('ok') and r.get('value') is not None else None
        exp = ''.join(t2 if len(t2) == 1 else c17_check.py_reference([t2], v.get('ts', 0)) for t2 in a[2])
        return out != exp, 'format_timestamp(%d, %r) = %r expected %r' % (v.get('ts', 0), fmt, out, exp)
    return False, 'unknown'


def main():
    ck = checklib.Check('C15', 'Template variables agree with the rendered version; functions keep contracts')
    ck.setup(char_ops=['alnum', 'lower', 'ws', 'width'])
    quick = ck.tier == 'quick'
    sshapes = c10.shapes(2 if quick else 3, 2, [None, (0,), (2,), (1, 0)])
    pshapes = [(r, l) for r in (1, 2, 3) for l in c11.local_shapes(2, 2)]
    specs = [s for s in c06_schemas.custom(ck.tier) if s['name'] in ('core_std', 'extra_all_secondary', 'extra_dev', 'extra_post_epoch_order', 'build_context', 'build_literal_dotted', 'core_text_var', 'core_four_ints')]
    specs += [s for s in c06_schemas.presets('quick') if s['name'] in ('preset_standard_prerelease_post_dev_context', 'preset_standard_base', 'preset_calver_prerelease')]
    fargs = c15.fn_args(ck.tier)
    ck.bounds = dict(semver_records='%d shapes: pre-release lists up to %d identifiers, build metadata up to 2, numbers in [0,99]' % (len(sshapes), 2 if quick else 3),
                     pep440_records='%d shapes: release 1..3, symbolic presence of epoch/pre/post/dev, local up to 2 segments' % len(pshapes),
                     context='%d schemas of the C06 menu with symbolic variables' % len(specs),
                     functions='%d argument shapes: prefix/prefix_if/hash/sanitize with values of 0..3(4) chars over ASCII + non-ASCII representatives, format_timestamp with ts any second 1970-2199 and 6 formats' % len(fargs))
    ck.bounds['templates'] = '%d templates x schemas through OutputFormatter::format_output: %r' % (len(c15.TEMPLATES), [t for t, _k in c15.TEMPLATES])
    ck.outside = ["Tera's own parsing / rendering of arbitrary user templates and filters (library code, no MIR): the template branch of format_output runs through the Tera subset model (models_tera: {{ var }}, {{ a.b }}, {% if %}, zerv's functions)", 'hash_int is decided under C04', 'custom JSON variables']
    ck.assumptions = ['python models of std/HashMap/serde_json::Value accessors, chrono format items, DefaultHasher as an uninterpreted function', 'reference contracts transcribed from the statement']
    deadline = time.time() + (300 if quick else 3600)
    cands = []
    ex = engine.explore('c15', 'path_semver_parts', sshapes, jobs=ck.jobs, deadline=deadline)
    cands += [('sv', v) for v in ck.absorb('SemVer parts recompose to to_string; docker form', ex, expect_tags=['parts'])]
    ex = engine.explore('c15', 'path_pep_parts', pshapes, jobs=ck.jobs, deadline=deadline)
    cands += [('pep', v) for v in ck.absorb('PEP 440 parts recompose to to_string', ex, expect_tags=['parts'])]
    ex = engine.explore('c15', 'path_context', specs, jobs=ck.jobs, deadline=time.time() + (300 if quick else 1800))
    cands += [('ctx', v) for v in ck.absorb('ZervTemplateContext::from_zerv agrees with the renderers', ex, expect_tags=['context'])]
    targs = [dict(s, template=t) for s in specs for t in c15.TEMPLATES if quick is False or (s['name'] in ('extra_all_secondary', 'build_context') and t[1] != 'scalars')]
    ex = engine.explore('c15', 'path_template', targs, jobs=ck.jobs, deadline=time.time() + (600 if quick else 1800))
    cands += [('tpl', v) for v in ck.absorb('format_output with a template ({{ semver }}, {{ pep440 }}, docker, base parts, scalars) agrees with format_output without one', ex,
                                            expect_tags=['template:semver', 'template:pep440', 'template:docker', 'same_output'])]
    ex = engine.explore('c15', 'path_fn', fargs, jobs=ck.jobs, deadline=time.time() + (300 if quick else 1800))
    cands += [('fn', v) for v in ck.absorb('custom template functions keep their contracts', ex, expect_tags=['fn_returned'])]
    import c04, c04_check
    hargs = [(n, L, a) for L in (1, 7, 10, 20, 21, 24) for (n, a) in ((1, None), (2, False), (1, True))]
    ex = engine.explore('c04', 'path_hash', hargs, jobs=ck.jobs, deadline=time.time() + 300)
    cands += [('hash_int', v) for v in ck.absorb('hash_int: <= length decimal digits, no leading zero unless allowed', ex, expect_tags=['hashed'])]
    seen = set()
    for kind, v in cands:
        key = json.dumps(v, sort_keys=True, default=str)
        if key in seen:
            continue
        seen.add(key)
        if kind == 'hash_int':
            if v['clause'] == 'hash_not_u32':
                continue          # the u32 limit of the flow pipeline is C04's subject
            ok, desc = c04_check.confirm_hash(v)
        else:
            ok, desc = confirm(kind, v)
        ck.validated += 1
        cls = v['clause'] if kind != 'fn' else '%s:%s' % (v['clause'], v['fn'])
        (ck.confirmed if ok else ck.not_reproduced)(cls, v['clause'] + ': ' + desc, dict(v, kind=kind))
    ck.finish()


def replay(path):
    native.build()
    data = json.load(open(path))
    worst = 0
    for e in data['examples']:
        v = e['replay']
        ok, desc = confirm(v['kind'], v)
        print('replay:', desc, '-> violated' if ok else '-> holds')
        worst = max(worst, int(ok))
    native.driver().close()
    sys.exit(worst)


if __name__ == '__main__':
    if '--replay' in sys.argv:
        replay(sys.argv[sys.argv.index('--replay') + 1])
    main()
