"""Real git repositories for C02: build a repository from a concrete description, run the real extraction natively,
and an independent oracle of the statement computed from the description (not from git, not from zerv)."""
import os
import shutil
import subprocess
import tempfile

import flowlib
import native

ROOT = os.path.join(os.path.dirname(os.path.dirname(os.path.dirname(os.path.abspath(__file__)))), 'build', 'gitrepos')
ENV = dict(os.environ, GIT_CONFIG_GLOBAL='/dev/null', GIT_CONFIG_SYSTEM='/dev/null', GIT_AUTHOR_NAME='t', GIT_AUTHOR_EMAIL='t@example.invalid',
           GIT_COMMITTER_NAME='t', GIT_COMMITTER_EMAIL='t@example.invalid', LC_ALL='C', TZ='UTC')


def git(d, *args, date=None, inp=None):
    env = dict(ENV)
    if date is not None:
        env['GIT_AUTHOR_DATE'] = env['GIT_COMMITTER_DATE'] = '%d +0000' % date
    r = subprocess.run(['git'] + list(args), cwd=d, env=env, input=inp, capture_output=True, text=True)
    if r.returncode != 0:
        raise RuntimeError('git %s: %s' % (' '.join(args), r.stderr.strip()))
    return r.stdout.strip()


def build_repo(desc):
    """desc: commits=[(id, [parent ids])] parents first; head=id; branch=name|None (detached); side={name: id} extra branches;
    tags={name: (id, annotated)}; dirty in (None, 'untracked', 'modified', 'staged', 'ignored_only'); dates: id -> unix time.
    -> (dir, {id: hash})"""
    os.makedirs(ROOT, exist_ok=True)
    d = tempfile.mkdtemp(prefix='r', dir=ROOT)
    git(d, 'init', '-q', '-b', 'trunk')
    open(os.path.join(d, 'f'), 'w').write('0\n')
    open(os.path.join(d, '.gitignore'), 'w').write('*.log\n')
    os.makedirs(os.path.join(d, 'sub'), exist_ok=True)
    open(os.path.join(d, 'sub', 'file.txt'), 'w').write('0\n')
    git(d, 'add', 'f', '.gitignore', 'sub/file.txt')
    tree = git(d, 'write-tree')
    hs = {}
    base = 1_600_000_000
    for n, (cid, parents) in enumerate(desc['commits']):
        args = ['commit-tree', tree, '-m', 'c%s' % cid]
        for p in parents:
            args += ['-p', hs[p]]
        hs[cid] = git(d, *args, date=desc.get('dates', {}).get(cid, base + 100 * n))
    for name, cid in (desc.get('side') or {}).items():
        git(d, 'update-ref', 'refs/heads/' + name, hs[cid])
    if desc.get('branch'):
        git(d, 'update-ref', 'refs/heads/' + desc['branch'], hs[desc['head']])
        git(d, 'symbolic-ref', 'HEAD', 'refs/heads/' + desc['branch'])
        git(d, 'reset', '-q', '--hard')
        if desc['branch'] != 'trunk':
            pass
    else:
        git(d, 'update-ref', 'refs/heads/keep', hs[desc['head']])
        git(d, 'checkout', '-q', '--detach', hs[desc['head']])
    for name, (cid, annotated) in desc['tags'].items():
        if annotated:
            git(d, 'tag', '-a', '-m', 'tag ' + name, name, hs[cid], date=base + 50_000)
        else:
            git(d, 'tag', name, hs[cid])
    dirty = desc.get('dirty')
    if dirty == 'untracked':
        open(os.path.join(d, 'new.txt'), 'w').write('x')
    elif dirty == 'modified':
        open(os.path.join(d, 'f'), 'w').write('1\n')
    elif dirty == 'staged':
        open(os.path.join(d, 'f'), 'w').write('2\n')
        git(d, 'add', 'f')
    elif dirty == 'ignored_only':
        open(os.path.join(d, 'x.log'), 'w').write('x')
    elif dirty == 'deleted':
        os.remove(os.path.join(d, 'f'))
    elif dirty == 'staged_and_modified':
        open(os.path.join(d, 'f'), 'w').write('2\n')
        git(d, 'add', 'f')
        open(os.path.join(d, 'f'), 'w').write('3\n')
    elif dirty == 'modified_and_untracked':
        open(os.path.join(d, 'f'), 'w').write('1\n')
        open(os.path.join(d, 'new.txt'), 'w').write('x')
    elif dirty == 'modified_long_path':
        open(os.path.join(d, 'sub', 'file.txt'), 'w').write('1\n')
    elif dirty == 'staged_new':
        open(os.path.join(d, 'n'), 'w').write('x')
        git(d, 'add', 'n')
    return d, hs


def remove(d):
    shutil.rmtree(d, ignore_errors=True)


def ancestors(desc, cid):
    par = dict(desc['commits'])
    seen, todo = set(), [cid]
    while todo:
        c = todo.pop()
        if c not in seen:
            seen.add(c)
            todo += par[c]
    return seen


def valid(fmt, t):
    fmts = ['semver', 'pep440'] if fmt == 'auto' else [fmt]
    return [f for f in fmts if (flowlib.semver_key(t) if f == 'semver' else flowlib.pep_key(t)) is not None]


def oracle(desc, fmt):
    """-> dict(no_tag=bool, admissible={tag: distance}) per the statement"""
    anc = ancestors(desc, desc['head'])
    tagged = {}
    for t, (cid, _a) in desc['tags'].items():
        if cid in anc and valid(fmt, t):
            tagged.setdefault(cid, []).append(t)
    if not tagged:
        return dict(no_tag=True, admissible={})
    nearest = [c for c in tagged if not any(d != c and c in ancestors(desc, d) for d in tagged)]
    adm = {}
    for c in nearest:
        for f in (['semver', 'pep440'] if fmt == 'auto' else [fmt]):
            ts = [t for t in tagged[c] if f in valid(fmt, t)]
            for t in ts:
                if all(flowlib.vcmp(f, o, t) <= 0 for o in ts):
                    adm[t] = len(anc - ancestors(desc, c))
    return dict(no_tag=False, admissible=adm)


def run_real(desc, fmt):
    """build the repository, run the real extraction; -> (native result, hashes, judged dict(ok=bool, why=str))"""
    d, hs = build_repo(desc)
    try:
        r = native.driver().call(op='git_vcs', path=d, fmt=fmt)
    finally:
        remove(d)
    o = oracle(desc, fmt)
    why = []
    if not r.get('ok'):
        return r, hs, dict(ok=False, why=['extraction failed: %s' % r.get('err')])
    data = r['data']
    par = dict(desc['commits'])
    if o['no_tag']:
        if data['tag_version'] is not None:
            why.append('tag %r reported although no reachable commit carries a valid tag' % data['tag_version'])
        if r.get('vars_ok') or 'NoTagsFound' not in (r.get('vars_err') or ''):
            why.append('missing tags not reported as NoTagsFound')
    else:
        t = data['tag_version']
        if t not in o['admissible']:
            why.append('base tag %r, admissible %r' % (t, sorted(o['admissible'])))
        else:
            if data['distance'] != o['admissible'][t]:
                why.append('distance %r, expected %r' % (data['distance'], o['admissible'][t]))
            cid = desc['tags'][t][0]
            if data['tag_commit_hash'] != hs[cid]:
                why.append('tag commit hash')
            if not r.get('vars_ok'):
                why.append('variables not produced: %s' % r.get('vars_err'))
            else:
                v = r['vars']
                exp = dict(distance=data['distance'], dirty=data['is_dirty'], bumped_branch=data['current_branch'],
                           bumped_commit_hash='g' + data['commit_hash'], last_commit_hash='g' + hs[cid], bumped_timestamp=data['commit_timestamp'],
                           last_timestamp=data['tag_timestamp'], last_tag_version=t)
                sk = flowlib.semver_key(t) if fmt in ('semver', 'auto') else None
                if sk:
                    exp.update(major=sk[0][0], minor=sk[0][1], patch=sk[0][2])
                for kk, vv in exp.items():
                    if v.get(kk) != vv:
                        why.append('variable %s = %r, expected %r' % (kk, v.get(kk), vv))
            dates = desc.get('dates', {})
    if data['commit_hash'] != hs[desc['head']]:
        why.append('commit hash')
    if data['current_branch'] != desc.get('branch'):
        why.append('branch %r, expected %r' % (data['current_branch'], desc.get('branch')))
    want_dirty = desc.get('dirty') not in (None, 'clean', 'ignored_only')
    if data['is_dirty'] != want_dirty:
        why.append('dirty %r, expected %r' % (data['is_dirty'], want_dirty))
    return r, hs, dict(ok=not why, why=why)


def desc_of_world(world, annotated=False):
    """repository for a counterexample of the msym summary: the commits of the shape (parents first), commit dates
    decreasing along the listing order of the counterexample (so a date-ordered listing reproduces it), u = a side
    commit on the root"""
    import c02
    par = c02.SHAPES[world.get('shape') or 'lin%d' % world['commits']]
    k = len(par)
    order = world.get('order') or list(range(k))
    pos = {c: i for i, c in enumerate(order)}
    done, commits = set(), []
    while len(done) < k:                       # parents first
        for c in sorted(par, reverse=True):
            if c not in done and all(p in done for p in par[c]):
                commits.append((c, list(par[c])))
                done.add(c)
    root = [c for c in par if not par[c]][0]
    commits.append((k, [root]))                                             # unreachable side commit
    dates = {c: 1_600_000_000 + 1000 * (k - pos[c]) for c in par}
    dates[k] = 1_500_000_000
    tags = {t: (loc, annotated or t in (world.get('annotated') or [])) for t, loc in world['tags'].items() if loc >= 0}
    br = world.get('branch')
    return dict(commits=commits, head=0, branch=br if br else None, side={'side': k}, tags=tags, dates=dates,
                dirty=world.get('status') or None)


def random_desc(rng, fmt_tags):
    """a random small DAG with merges, side branches, mixed tag kinds (for validating the git-contract stubs)"""
    n = rng.randint(1, 6)
    commits = []
    for i in range(n):
        if i == 0:
            commits.append((i, []))
        else:
            ps = [rng.randrange(i)]
            if i >= 2 and rng.random() < 0.35:
                q = rng.randrange(i)
                if q not in ps:
                    ps.append(q)
            commits.append((i, ps))
    head = rng.randrange(n) if rng.random() < 0.3 else n - 1
    tags = {}
    for t in rng.sample(fmt_tags, rng.randint(0, min(4, len(fmt_tags)))):
        tags[t] = (rng.randrange(n), rng.random() < 0.5)
    return dict(commits=commits, head=head, branch=rng.choice([None, 'trunk', 'feature/x']), side={'other': n - 1}, tags=tags,
                dirty=rng.choice([None, None, 'untracked', 'modified', 'staged', 'ignored_only', 'deleted', 'staged_and_modified', 'modified_and_untracked', 'modified_long_path', 'staged_new']))
