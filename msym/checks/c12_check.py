"""C12 check driver (decided part: schema placement rules / refusal of invalid schemas)."""
import json
import os
import sys
import time

HERE = os.path.dirname(os.path.abspath(__file__))
sys.path.insert(0, os.path.dirname(HERE))
sys.path.insert(0, os.path.join(os.path.dirname(HERE), 'harness'))

import engine
import native
import checklib
import c12
import c17

PRIM = ['Major', 'Minor', 'Patch']
SEC = ['Epoch', 'PreRelease', 'Post', 'Dev']


def py_valid(schema, how):
    core, extra, build = schema
    if how == 'set_core':
        extra, build = [{'var': 'Epoch'}], [{'var': 'Distance'}]
    elif how == 'set_extra_core':
        core, build = [{'var': 'Major'}], [{'var': 'Distance'}]
    elif how == 'set_build':
        core, extra = [{'var': 'Major'}], [{'var': 'Epoch'}]
    if not (core or extra or build):
        return False
    vs = lambda part: [c['var'] for c in part if 'var' in c]
    cp = [v for v in vs(core) if v in PRIM]
    if any(v in SEC for v in vs(core)) or len(set(cp)) != len(cp) or [PRIM.index(v) for v in cp] != sorted(PRIM.index(v) for v in cp):
        return False
    es = [v for v in vs(extra) if v in SEC]
    if any(v in PRIM for v in vs(extra)) or len(set(es)) != len(es):
        return False
    if any(v in PRIM or v in SEC for v in vs(build)):
        return False
    for part in (core, extra, build):
        for c in part:
            if 'ts' in c:
                t = ''.join(chr(x) for x in c['ts'])
                if not (t in c17.PATTERNS or t.startswith('%')):
                    return False
    return True


def ron_doc(order, label='Alpha'):
    """a Zerv RON document with the given precedence order (the rest fixed): what `--output-format zerv` prints"""
    po = '' if order is None else ', precedence_order: [%s]' % ', '.join(order)
    return ('(schema: (core: [var(Major), var(Minor), var(Patch)], extra_core: [var(Epoch), var(PreRelease), var(Post), var(Dev)], build: [var(BumpedBranch)]%s), '
            'vars: (major: Some(1), minor: Some(2), patch: Some(18446744073709551615), epoch: Some(0), pre_release: Some((label: %s, number: Some(0))), post: Some(0), dev: Some(4294967296), distance: Some(0), dirty: Some(false), '
            'bumped_branch: Some(" Feature/X "), bumped_commit_hash: Some("gDEADBEEF00 "), bumped_timestamp: Some(0), last_branch: Some(""), last_commit_hash: Some(" ABCdef"), last_timestamp: Some(7258118399), last_tag_version: Some("V1.2.3 ")))' % (po, label))


def ron_string(cps):
    out = '"'
    for c in cps:
        ch = chr(c)
        out += '\\u{%x}' % c if (c < 32 or ch in '"\\' or c == 127) else ch
    return out + '"'


def ron_vars(d):
    """ZervVars as RON text from SymVars.concrete()"""
    fs = []
    for k, val in d.items():
        if val is None:
            continue
        if k == 'pre_release':
            fs.append('pre_release: Some((label: %s, number: %s))' % (val['label'].capitalize(), 'None' if val['number'] is None else 'Some(%d)' % val['number']))
        elif isinstance(val, bool):
            fs.append('%s: Some(%s)' % (k, 'true' if val else 'false'))
        elif isinstance(val, list):
            fs.append('%s: Some(%s)' % (k, ron_string(val)))
        else:
            fs.append('%s: Some(%d)' % (k, val))
    return '(%s)' % ', '.join(fs)


def ron_doc_vars(order, vars_):
    return ('(schema: (core: [var(Major), var(Minor), var(Patch)], extra_core: [var(Epoch), var(PreRelease), var(Post), var(Dev)], build: [var(BumpedBranch)], precedence_order: [%s]), vars: %s)'
            % (', '.join(order), ron_vars(vars_)))


def confirm_contents(v):
    """the two variable assignments of the counterexample as documents: each must survive parse -> emit -> parse unchanged,
    and different objects must not be emitted as the same document"""
    d = native.driver()
    ra = d.call(op='ron_roundtrip', text=native.cps(ron_doc_vars(v['order_a'], v['vars_a'])))
    rb = d.call(op='ron_roundtrip', text=native.cps(ron_doc_vars(v['order_b'], v['vars_b'])))
    if not (ra.get('ok') and rb.get('ok')):
        return False, 'documents of the counterexample not accepted natively (%s / %s)' % (ra.get('err'), rb.get('err'))
    lossy = ra['object'] != rb['object'] and ra['emitted'] == rb['emitted']
    unstable = ra['object'] != ra.get('object2') or rb['object'] != rb.get('object2')
    return lossy or unstable, 'variables %s vs %s: objects %s, emitted documents %s, parse-back %s' % (
        v['vars_a'], v['vars_b'], 'differ' if ra['object'] != rb['object'] else 'equal', 'identical' if ra['emitted'] == rb['emitted'] else 'differ',
        'differs from the object' if unstable else 'identical')


def confirm_ser(v):
    """two documents that differ only in what the counterexample says is lost: parsed by zerv, emitted by zerv"""
    d = native.driver()
    if v.get('what') == 'precedence_order':
        ra, rb = d.call(op='ron_roundtrip', text=native.cps(ron_doc(v['order_a']))), d.call(op='ron_roundtrip', text=native.cps(ron_doc(v['order_b'])))
        if not (ra.get('ok') and rb.get('ok')):
            return False, 'precedence orders %s / %s: documents not accepted natively (%s / %s)' % (v['orders'][0], v['orders'][1], ra.get('err'), rb.get('err'))
        lossy = ra['object'] != rb['object'] and ra['emitted'] == rb['emitted']
        unstable = ra['object'] != ra.get('object2') or rb['object'] != rb.get('object2')
        return lossy or unstable, 'precedence orders %s vs %s: objects %s, emitted documents %s, parse-back %s' % (
            v['orders'][0], v['orders'][1], 'differ' if ra['object'] != rb['object'] else 'equal', 'identical' if ra['emitted'] == rb['emitted'] else 'differ',
            'differs from the object' if unstable else 'identical')
    if v.get('what') == 'schema':
        comp = lambda k: {'var': 'var(%s)', 'ts': 'var(ts("%s"))', 'custom': 'var(custom("%s"))', 'str': 'str("%s")', 'uint': 'uint(%s)'}[k[0]] % (k[1],)
        import ast
        ka, kb = [ast.literal_eval(x) for x in v['kinds']]
        doc = lambda k: '(schema: (core: [var(Major)], extra_core: [], build: [var(BumpedBranch), %s]), vars: (major: Some(1)))' % comp(k)
        d = native.driver()
        ra, rb = d.call(op='ron_roundtrip', text=native.cps(doc(ka))), d.call(op='ron_roundtrip', text=native.cps(doc(kb)))
        if not (ra.get('ok') and rb.get('ok')):
            return True, 'component kinds %s / %s: a document zerv would emit is not accepted back (%s / %s)' % (ka, kb, ra.get('err'), rb.get('err'))
        lossy = ra['object'] != rb['object'] and ra['emitted'] == rb['emitted']
        unstable = ra['object'] != ra.get('object2') or rb['object'] != rb.get('object2')
        return lossy or unstable, 'component kinds %s vs %s: emitted documents %s, parse-back %s' % (ka, kb, 'identical' if ra['emitted'] == rb['emitted'] else 'differ', 'differs' if unstable else 'identical')
    if v.get('what') == 'contents' and 'vars_a' in v:
        return confirm_contents(v)
    return False, 'serialisation counterexample of kind %r has no native replay' % v.get('what')


def roundtrip_validation(ck):
    """differential: the real ron round trip of a handful of documents (every precedence order of the menu) is the identity"""
    d = native.driver()
    for name, order in c12.prec_orders(ck.tier) + [('absent', None)]:
        for label in ('Alpha', 'Rc'):
            r = d.call(op='ron_roundtrip', text=native.cps(ron_doc(order, label)))
            ck.validated += 1
            if not r.get('ok') or 'panic' in r:
                ck.fail_inconclusive('native RON document for order %s not accepted: %s' % (name, r))
            elif r['object'] != r.get('object2') or r['emitted'] != r.get('emitted2'):
                ck.confirmed('roundtrip:' + ('precedence_order' if order else 'document'), 'emit -> parse -> emit is not the identity for precedence order %s: %s' % (name, r.get('reparse_err') or 'objects differ'),
                             dict(clause='not_injective', how='ser', what='precedence_order', orders=[name, name], order_a=order, order_b=order))


def object_roundtrip_validation(ck):
    """differential: objects built in memory (not parsed) -> emit -> parse must give the identical object; texts with
    upper case, padding, quotes and non-ASCII, numbers at the type limits (covers normalisation on the parse side only,
    which the serialisation kernel cannot see)"""
    d = native.driver()
    texts = ['main', ' Feature/X ', 'DEADBEEFCAFE', ' ABCdef', 'a"b\\c', 'é\u212a', '', '0007']
    for i, t in enumerate(texts):
        vars_ = dict(major=i, minor=0, patch=2**64 - 1, epoch=None if i % 2 else 0, post=i % 3 or None, dev=None, distance=i, dirty=bool(i % 2),
                     bumped_branch=native.cps(t), bumped_commit_hash=native.cps(texts[(i + 2) % len(texts)]), last_branch=native.cps(texts[(i + 3) % len(texts)]),
                     last_commit_hash=native.cps(texts[(i + 1) % len(texts)]), bumped_timestamp=i * 1000, last_timestamp=None, last_tag_version=native.cps(texts[(i + 4) % len(texts)]),
                     pre_release=None if i % 3 == 0 else dict(label=('alpha', 'beta', 'rc')[i % 3], number=None if i % 2 else i))
        r = d.call(op='zerv_roundtrip', vars=vars_)
        ck.validated += 1
        if 'panic' in r or not r.get('ok') or r['object'] != r['object2'] or r['emitted'] != r['emitted2']:
            ck.confirmed('roundtrip:object', 'an in-memory Zerv object does not survive emit -> parse: %s' % (r.get('err') or r.get('panic') or 'objects differ: %s ... vs %s' % (r['object'][-420:-250], r['object2'][-420:-250])),
                         dict(clause='roundtrip_object', how='ser', what='object', vars=vars_))


def confirm_de(v):
    """a counterexample of the emit -> parse kernel: the object is built in memory natively (variables, precedence order,
    last build component of the model), emitted with the real ron printer and parsed back with the real ron parser"""
    import ast
    req = dict(op='zerv_roundtrip', vars=v['vars'], order=v['order_a'])
    try:
        spec = ast.literal_eval(v.get('schema_spec') or 'None')
        if spec and len(spec[2]) == 2 and spec[2][0] == ('var', 'BumpedBranch'):
            req['build_kind'] = list(spec[2][1])
    except Exception:
        pass
    r = native.driver().call(**req)
    bad = 'panic' in r or not r.get('ok') or r['object'] != r['object2'] or r['emitted'] != r['emitted2']
    return bad, 'in-memory object (order %s) emit -> parse: %s' % (v['orders'][0], (r.get('err') or r.get('panic') or 'object or re-emitted document differs') if bad else 'identical')


def confirm_pipe(v):
    """the real binary: the object of the counterexample is emitted natively, taken through
    `zerv version --source stdin --output-format zerv` once (= what a direct run prints) and once more (= the piped run);
    the two documents and the semver / pep440 renderings of both stages must coincide (dirty-state timestamp masked)"""
    import ast, re, subprocess
    req = dict(op='zerv_roundtrip', vars=v['vars'], order=v['order_a'])
    try:
        spec = ast.literal_eval(v.get('schema_spec') or 'None')
        if spec and len(spec[2]) == 2 and spec[2][0] == ('var', 'BumpedBranch'):
            req['build_kind'] = list(spec[2][1])
    except Exception:
        pass
    mask0 = lambda t: re.sub(r'bumped_timestamp: Some\(\d+\)', 'bumped_timestamp: T', t or '')
    rp = native.driver().call(**dict(req, pipe=True))
    if 'panic' in rp:
        return True, 'pipe stages panic natively: %s' % rp['panic']
    if rp.get('ok') is False and rp.get('stage') in (2, 3):
        return True, 'the document a direct run emits is not taken by the stdin stage: %s' % rp.get('err')
    if rp.get('ok') and (mask0(rp['object']) != mask0(rp['object2']) or mask0(rp['emitted']) != mask0(rp['emitted2'])):
        return True, 'to_zerv -> emit -> stdin source -> to_zerv (real code, order %s): the second object / document differs from the first' % v['orders'][0]
    r = native.driver().call(**req)
    if not r.get('emitted'):
        return False, 'object not emitted natively: %s' % r
    zb = native.zerv_bin()
    run = lambda doc, fmt: subprocess.run([zb, 'version', '--source', 'stdin', '--output-format', fmt], input=doc, capture_output=True, text=True, timeout=60)
    mask = lambda t: re.sub(r'bumped_timestamp: Some\(\d+\)', 'bumped_timestamp: T', t)
    s1 = run(r['emitted'], 'zerv')
    if s1.returncode != 0:
        return False, 'first stage refuses the document: %s' % s1.stderr.strip()[-200:]
    s2 = run(s1.stdout, 'zerv')
    bad = s2.returncode != 0 or mask(s1.stdout) != mask(s2.stdout)
    why = 'second stage: %s' % (s2.stderr.strip()[-160:] if s2.returncode != 0 else ('documents differ' if bad else 'identical'))
    for fmt in ('semver', 'pep440'):
        a, b = run(r['emitted'], fmt), run(s1.stdout, fmt)
        if (a.returncode, a.stdout) != (b.returncode, b.stdout) and 'dev' not in a.stdout:
            bad, why = True, why + '; %s rendering %r directly vs %r piped' % (fmt, a.stdout.strip() or a.stderr.strip()[-80:], b.stdout.strip() or b.stderr.strip()[-80:])
    return bad, 'zerv version --source stdin | zerv version --source stdin (order %s): %s' % (v['orders'][0], why)


def confirm(v):
    if v.get('clause') == 'pipe':
        return confirm_pipe(v)
    if v.get('clause') == 'roundtrip_de':
        return confirm_de(v)
    if v.get('clause') == 'roundtrip_object':
        r = native.driver().call(op='zerv_roundtrip', vars=v['vars'])
        bad = 'panic' in r or not r.get('ok') or r['object'] != r['object2']
        return bad, 'in-memory object emit -> parse: %s' % ('differs' if bad else 'identical')
    if v.get('clause') in ('not_injective', 'duplicate_key') or v.get('what') == 'serialize':
        return confirm_ser(v)
    how = v['how'] if v['how'] != 'zerv_new' else 'new'
    r = native.driver().call(op='schema_check', schema=v['schema'], how=how)
    desc = '%s %s -> native %s' % (v['how'], v['schema'], {k: r.get(k) for k in ('ok', 'err', 'panic')})
    if 'panic' in r:
        return True, desc
    return bool(r.get('ok')) != py_valid(v['schema'], how), desc


def main():
    ck = checklib.Check('C12', 'Zerv RON is a lossless interchange format and invalid objects are refused')
    ck.setup(char_ops=['alnum', 'lower', 'ws', 'width'])
    args = c12.args_for(ck.tier)
    quick = ck.tier == 'quick'
    ck.bounds = dict(schemas='core <= %d, extra-core <= %d, build <= %d components; each plain component is ANY of the 17 variables (a solver variable), plus literal / timestamp mixes with symbolic pattern text of <= 4 chars' % ((3, 3, 1) if quick else (4, 4, 2)),
                     entry_points=['ZervSchema::new', 'Zerv::new on a field-wise assembled schema', 'set_core', 'set_extra_core', 'set_build'], configurations=len(args))
    ck.bounds['serialisation'] = 'Zerv objects over one 3+5+3 schema (all component kinds; literal contents symbolic), every ZervVars field with symbolic presence and contents (numbers any u64, texts 1 char), %d pairs of precedence orders (default, adjacent swaps, reversed, prefix, empty)' % len(c12.ser_args(ck.tier))
    ck.bounds['deserialisation'] = 'emit -> parse -> emit of Zerv objects: %d configurations (every precedence order of the menu; 15 schemas incl. every component kind as last build component), every ZervVars field with symbolic presence and contents (numbers any u64, texts 2 chars over ASCII + class representatives, custom = {})' % len(c12.de_args(ck.tier))
    ck.outside = ['the text layer of ron (printer and parser): zerv\'s Serialize impls and its derived / hand-written Deserialize impls (visitors, field matchers, defaults, deserialize_with helpers) are executed from MIR against a recording serializer and a replaying deserializer that exchange the serde data-model tree; that ron prints and re-reads that tree faithfully is trusted and exercised natively on every run (document and in-memory object round trips)',
                  'custom variables other than the empty object (serde_json::Value through ron\'s deserialize_any)', 'pipe equivalence is decided in-process for default arguments (no overrides / bumps / templates on either stage) with both stages reading the same wall clock; clap and the process boundary are outside',
                  'malformed-document handling: serde / ron library code has no MIR in the crate and CBMC cannot get through its string handling (measured, DESIGN §2)',
                  'custom(...) components', 'longer schemas']
    ck.assumptions = ['python models of Vec/HashSet/IndexMap/iterator functions', 'oracle = placement rules transcribed from the statement as a z3 formula over the variable choices']
    ex = engine.explore('c12', 'path', args, jobs=ck.jobs, deadline=time.time() + (600 if quick else 3600))
    cands = ck.absorb('schema accepted <=> placement rules hold', ex, bounds=dict(configs=len(args)), expect_tags=['accepted', 'refused'])
    for wt in ex.wsamples:
        how = wt['how'] if wt['how'] != 'zerv_new' else 'new'
        r = native.driver().call(op='schema_check', schema=wt['schema'], how=how)
        ck.validated += 1
        if 'panic' in r or bool(r.get('ok')) != bool(wt['accepted']):
            ck.validation_mismatch.append(dict(schema=wt['schema'], how=wt['how'], msym=wt['accepted'], native=r))
    sargs = c12.ser_args(ck.tier)
    ex = engine.explore('c12', 'path_ser', sargs, jobs=ck.jobs, deadline=time.time() + (600 if quick else 1800))
    scands = ck.absorb('serialisation (zerv\'s Serialize impls from MIR, recording serializer) is injective: different objects never give the same document', ex,
                       bounds=dict(configs=len(sargs)), expect_tags=['serialized', 'documents_differ', 'documents_can_coincide', 'injective'])
    for v in scands:
        v.setdefault('how', 'ser')
    cands += scands
    dargs = c12.de_args(ck.tier)
    ex = engine.explore('c12', 'path_de', dargs, jobs=ck.jobs, deadline=time.time() + (600 if quick else 1800))
    dcands = ck.absorb('emit -> parse is the identity at the serde data-model level (zerv\'s Serialize and Deserialize impls from MIR, recording serializer + replaying deserializer) and re-emits the same document', ex,
                       bounds=dict(configs=len(dargs)), expect_tags=['emitted', 'parsed_back', 'identical'])
    for v in dcands:
        v.setdefault('how', 'de')
    cands += dcands
    ex = engine.explore('c12', 'path_pipe', dargs, jobs=ck.jobs, deadline=time.time() + (600 if quick else 1800))
    pcands = ck.absorb('pipe equivalence in-process: ZervDraft::to_zerv (default arguments) -> Display/ron -> process_cached_stdin_source -> ZervDraft::to_zerv gives the identical object (shared clock)', ex,
                       bounds=dict(configs=len(dargs)), expect_tags=['direct_ok', 'piped', 'identical'])
    for v in pcands:
        v.setdefault('how', 'pipe')
    cands += pcands
    roundtrip_validation(ck)
    object_roundtrip_validation(ck)
    seen = set()
    for v in cands:
        key = json.dumps(v, sort_keys=True, default=str)
        if key in seen:
            continue
        seen.add(key)
        ok, desc = confirm(v)
        ck.validated += 1
        (ck.confirmed if ok else ck.not_reproduced)('%s:%s' % (v['clause'], v['how']), v['clause'] + ': ' + desc, v)
    ck.finish()


def replay(path):
    native.build()
    data = json.load(open(path))
    worst = 0
    for e in data['examples']:
        ok, desc = confirm(e['replay'])
        print('replay:', desc, '-> violated' if ok else '-> holds')
        worst = max(worst, int(ok))
    native.driver().close()
    sys.exit(worst)


if __name__ == '__main__':
    if '--replay' in sys.argv:
        replay(sys.argv[sys.argv.index('--replay') + 1])
    main()
