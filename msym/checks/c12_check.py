"""C12 check driver (decided part: schema placement rules / refusal of invalid schemas)."""
import json
import os
import sys
import time

HERE = os.path.dirname(os.path.abspath(__file__))
sys.path.insert(0, os.path.dirname(HERE))
sys.path.insert(0, os.path.join(os.path.dirname(HERE), 'harness'))

import engine
import native
import checklib
import c12
import c17

PRIM = ['Major', 'Minor', 'Patch']
SEC = ['Epoch', 'PreRelease', 'Post', 'Dev']


def py_valid(schema, how):
    core, extra, build = schema
    if how == 'set_core':
        extra, build = [{'var': 'Epoch'}], [{'var': 'Distance'}]
    elif how == 'set_extra_core':
        core, build = [{'var': 'Major'}], [{'var': 'Distance'}]
    elif how == 'set_build':
        core, extra = [{'var': 'Major'}], [{'var': 'Epoch'}]
    if not (core or extra or build):
        return False
    vs = lambda part: [c['var'] for c in part if 'var' in c]
    cp = [v for v in vs(core) if v in PRIM]
    if any(v in SEC for v in vs(core)) or len(set(cp)) != len(cp) or [PRIM.index(v) for v in cp] != sorted(PRIM.index(v) for v in cp):
        return False
    es = [v for v in vs(extra) if v in SEC]
    if any(v in PRIM for v in vs(extra)) or len(set(es)) != len(es):
        return False
    if any(v in PRIM or v in SEC for v in vs(build)):
        return False
    for part in (core, extra, build):
        for c in part:
            if 'ts' in c:
                t = ''.join(chr(x) for x in c['ts'])
                if not (t in c17.PATTERNS or t.startswith('%')):
                    return False
    return True


def confirm(v):
    how = v['how'] if v['how'] != 'zerv_new' else 'new'
    r = native.driver().call(op='schema_check', schema=v['schema'], how=how)
    desc = '%s %s -> native %s' % (v['how'], v['schema'], {k: r.get(k) for k in ('ok', 'err', 'panic')})
    if 'panic' in r:
        return True, desc
    return bool(r.get('ok')) != py_valid(v['schema'], how), desc


def main():
    ck = checklib.Check('C12', 'Zerv RON is a lossless interchange format and invalid objects are refused')
    ck.setup(char_ops=['alnum', 'lower', 'ws', 'width'])
    args = c12.args_for(ck.tier)
    quick = ck.tier == 'quick'
    ck.bounds = dict(schemas='core <= %d, extra-core <= %d, build <= %d components; each plain component is ANY of the 17 variables (a solver variable), plus literal / timestamp mixes with symbolic pattern text of <= 4 chars' % ((3, 3, 1) if quick else (4, 4, 2)),
                     entry_points=['ZervSchema::new', 'Zerv::new on a field-wise assembled schema', 'set_core', 'set_extra_core', 'set_build'], configurations=len(args))
    ck.outside = ['byte-identical RON round trips and malformed-document handling: serde / ron library code has no MIR in the crate and CBMC cannot get through its string handling (measured, DESIGN §2)',
                  'pipe equivalence through the zerv binary', 'custom(...) components', 'longer schemas']
    ck.assumptions = ['python models of Vec/HashSet/IndexMap/iterator functions', 'oracle = placement rules transcribed from the statement as a z3 formula over the variable choices']
    ex = engine.explore('c12', 'path', args, jobs=ck.jobs, deadline=time.time() + (600 if quick else 3600))
    cands = ck.absorb('schema accepted <=> placement rules hold', ex, bounds=dict(configs=len(args)), expect_tags=['accepted', 'refused'])
    for wt in ex.wsamples:
        how = wt['how'] if wt['how'] != 'zerv_new' else 'new'
        r = native.driver().call(op='schema_check', schema=wt['schema'], how=how)
        ck.validated += 1
        if 'panic' in r or bool(r.get('ok')) != bool(wt['accepted']):
            ck.validation_mismatch.append(dict(schema=wt['schema'], how=wt['how'], msym=wt['accepted'], native=r))
    seen = set()
    for v in cands:
        key = json.dumps(v, sort_keys=True, default=str)
        if key in seen:
            continue
        seen.add(key)
        ok, desc = confirm(v)
        ck.validated += 1
        (ck.confirmed if ok else ck.not_reproduced)('%s:%s' % (v['clause'], v['how']), v['clause'] + ': ' + desc, v)
    ck.finish()


def replay(path):
    native.build()
    data = json.load(open(path))
    worst = 0
    for e in data['examples']:
        ok, desc = confirm(e['replay'])
        print('replay:', desc, '-> violated' if ok else '-> holds')
        worst = max(worst, int(ok))
    native.driver().close()
    sys.exit(worst)


if __name__ == '__main__':
    if '--replay' in sys.argv:
        replay(sys.argv[sys.argv.index('--replay') + 1])
    main()
