"""C03 check driver: flow versions sort consistently with history (sources none/stdin; distance/dirty abstraction)."""
import json
import os
import sys
import time

HERE = os.path.dirname(os.path.abspath(__file__))
sys.path.insert(0, os.path.dirname(HERE))
sys.path.insert(0, os.path.join(os.path.dirname(HERE), 'harness'))

import engine
import native
import checklib
import c03
import flowlib
import chars as C


def confirm(v):
    arg, case, fmt = v['arg'], v['case'], v.get('fmt', 'semver')
    x, y, z = [int(p) for p in case['tag'].split('.')]
    if v['clause'] == 'not_monotone':
        r1 = flowlib.run_native(arg, case, fmt)
        r2 = flowlib.run_native(arg, case, fmt, distance=v.get('distance2', (case['distance'] or 0) + 1))
        desc = 'd=%s -> %s ; d=%s -> %s' % (case['distance'], r1.get('out', r1.get('err')), v.get('distance2'), r2.get('out', r2.get('err')))
        if not (r1.get('ok') and r2.get('ok')):
            return False, desc
        return flowlib.vcmp(fmt, r1['out'], r2['out']) != -1, desc
    r = flowlib.run_native(arg, case, fmt)
    desc = 'case=%s flags=%s fmt=%s -> %s' % (case, {k: arg[k] for k in ('rules', 'mode', 'label', 'num', 'hash_len', 'schema', 'dirty_flag', 'no_dirty_flag') if arg.get(k) is not None}, fmt, r.get('out', r.get('err', r.get('panic'))))
    if 'panic' in r:
        return True, desc
    if v['clause'] == 'flow_error':
        return not r.get('ok'), desc
    if not r.get('ok'):
        return False, desc
    out = r['out']
    base, nxt = '%d.%d.%d' % (x, y, z), '%d.%d.%d' % (x, y, z + 1)
    if v['clause'] == 'clean_tag_changed':
        if (arg.get('schema') or '').endswith('context') and arg.get('schema') != 'standard-no-context':
            out = out.split('+')[0]
        return out != base, desc
    if v['clause'] == 'clean_pre_tag_changed':
        lab, n = case['tag_pre']
        if fmt == 'semver':
            exp = '%s-%s.%d' % (base, lab, n) + ('.post.%d' % case['tag_post'] if case.get('tag_post') is not None else '')
        else:
            exp = '%s%s%d' % (base, {'alpha': 'a', 'beta': 'b', 'rc': 'rc'}[lab], n) + ('.post%d' % case['tag_post'] if case.get('tag_post') is not None else '')
        return out != exp, desc + ' (tag %s)' % exp
    if v['clause'] == 'not_between':
        return not (flowlib.vcmp(fmt, base, out) == -1 and flowlib.vcmp(fmt, out, nxt) == -1), desc
    return False, desc


def main():
    ck = checklib.Check('C03', 'Flow versions sort consistently with history')
    engine.dump_mir()
    native.build()
    I = engine.make_interp()
    import relang
    pats = [relang.regex_of_static(I, 'SEMVER_REGEX').pattern, relang.regex_of_static(I, 'PEP440_REGEX').pattern]
    ck.load_alphabet(pats, char_ops=['alnum', 'lower', 'ws', 'width'])
    quick = ck.tier == 'quick'
    cases = c03.flow_cases(ck.tier)
    mono = [dict(name='monotone', rules='short', branch=b, mode='commit') for b in (list('main'), list('f/x'), None)] + \
           [dict(name='monotone', rules='default', branch=list('develop')), dict(name='monotone', rules='short', branch=list('main'), schema='standard-base-prerelease-post-dev-context', mode='commit')]
    ck.bounds = dict(tag='final release X.Y.Z: quick X.Y = 1.2 and Z in 1..9; thorough X,Y,Z in 1..9 (one decimal digit; the order obligations depend on the numbers only through comparisons), optional tag post; one family with Z in [2^32-3, 2^32+2] (semver output); pre-release tags X.Y.Z-<alpha|beta|rc>.<0..9>[.post.<0..9>] for the clean-checkout clause',
                     state='distance absent or 0..9, dirty absent/true/false (symbolic), clean-at-tag and moved families',
                     branch='absent, main, dv, rl/<any>, rl/2, f/<any><any>, release/<digit>, develop', rule_sets=['short', 'default'],
                     flags='post-mode absent/tag/commit, label/num flags, --dirty/--no-dirty, hash length 1,5,9 (thorough 1..9), schemas standard / standard-context / standard-no-context / standard-base-prerelease-post-dev-context',
                     branch_hash='the SipHash of the branch name is an uninterpreted u64; quick: 20-digit values (>= 10^19) except in the hash-length families, thorough: any u64', clock='wall clock before 2106-02-07 (dev timestamps are parsed as u32); one configuration runs with the clock unbounded',
                     configurations=len(cases) + len(mono))
    ck.outside = ['git histories (the git part is C02: distance/dirty are the abstraction of history)', 'pre-release tags carrying a dev part', 'multi-digit version numbers and distances in the order obligations', 'Tera templates outside the fixed family flow builds (the model answers unsupported)']
    ck.assumptions = ['Tera modelled for the template family flow builds ({% if [not] a [and|or] b %}X{% else %}Y{% endif %}, {{ var }}, {{ fn(k=v) }}); every flow result reported is replayed through the real run_flow_pipeline (real Tera, real RON hand-over) natively',
                      'the second pipeline pass is run on the same draft variables as the first (what re-reading the same stdin yields)', 'python std models (models_used)']
    cands = []
    ex = engine.explore('c03', 'path_order', cases, jobs=ck.jobs, deadline=time.time() + (900 if quick else 5400))
    cands += ck.absorb('clean at tag -> X.Y.Z; otherwise X.Y.Z < V < X.Y.(Z+1), both formats', ex, bounds=dict(configs=len(cases)), expect_tags=['flow_ok', 'clean_exact', 'clean_pre_exact', 'between'])
    # differential validation: the text msym predicts for sampled clean-checkout paths == the real run_flow_pipeline output
    for wt in ex.wsamples:
        if wt.get('out') is None or 'arg' not in wt:
            continue
        r = flowlib.run_native(wt['arg'], wt['case'], wt['fmt'])
        ck.validated += 1
        if not r.get('ok') or r.get('out') != wt['out']:
            ck.validation_mismatch.append(dict(case=wt['case'], fmt=wt['fmt'], msym=wt['out'], native=r.get('out', r.get('err', r.get('panic')))))
    ex = engine.explore('c03', 'path_monotone', mono, jobs=ck.jobs, deadline=time.time() + (600 if quick else 3600))
    cands += ck.absorb('commit post-mode: more commits -> strictly greater version', ex, bounds=dict(configs=len(mono)), expect_tags=['flow_ok', 'monotone'])
    seen = set()
    for v in cands:
        key = json.dumps(v, sort_keys=True, default=str)
        if key in seen:
            continue
        seen.add(key)
        ok, desc = confirm(v)
        ck.validated += 1
        cls = v['clause']
        if cls == 'flow_error':
            cls = 'flow_error:' + ('clock_after_2106' if v['arg'].get('now_full') else 'other')
        (ck.confirmed if ok else ck.not_reproduced)(cls, v['clause'] + ': ' + desc, v)
    ck.finish()


def replay(path):
    native.build()
    data = json.load(open(path))
    worst = 0
    for e in data['examples']:
        ok, desc = confirm(e['replay'])
        print('replay:', desc, '-> violated' if ok else '-> holds')
        worst = max(worst, int(ok))
    native.driver().close()
    sys.exit(worst)


if __name__ == '__main__':
    if '--replay' in sys.argv:
        replay(sys.argv[sys.argv.index('--replay') + 1])
    main()
