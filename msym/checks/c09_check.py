"""C09 check driver: relang (unbounded regular-language inclusion) + msym (bounded, whole from_str/to_string)."""
import json
import os
import re
import sys
import time

HERE = os.path.dirname(os.path.abspath(__file__))
sys.path.insert(0, os.path.dirname(HERE))
sys.path.insert(0, os.path.join(os.path.dirname(HERE), 'harness'))

import engine
import native
import checklib
import relang
import c09
from values import *      # noqa
import chars as C


def native_parse(s):
    r = native.driver().call(op='pep440_parse', input=native.cps(s))
    if r.get('ok'):
        r['printed'] = native.uncps(r['printed'])
    return r


def py_normal_form(s):
    m = relang.PEP440_PY.fullmatch(s)
    if not m:
        return None
    out = ''
    if m.group('epoch') and int(m.group('epoch')) != 0:
        out += '%d!' % int(m.group('epoch'))
    out += '.'.join(str(int(x)) for x in m.group('release').split('.'))
    if m.group('pre_l'):
        l = m.group('pre_l').lower()
        l = {'alpha': 'a', 'beta': 'b', 'c': 'rc', 'pre': 'rc', 'preview': 'rc'}.get(l, l)
        out += l + str(int(m.group('pre_n') or 0))
    if m.group('post'):
        out += '.post' + str(int(m.group('post_n1') or m.group('post_n2') or 0))
    if m.group('dev'):
        out += '.dev' + str(int(m.group('dev_n') or 0))
    if m.group('local'):
        segs = re.split(r'[-_.]', m.group('local').lower())
        out += '+' + '.'.join(str(int(x)) if x.isdigit() else x for x in segs)
    return out


def concrete_verdict(s):
    r = native_parse(s)
    bad = []
    if 'panic' in r:
        return ['panic'], r
    nf = py_normal_form(s)
    if bool(r.get('ok')) != (nf is not None):
        bad.append('accept_iff_grammar')
    if r.get('ok'):
        if nf is not None and r['printed'] != nf:
            bad.append('normal_form')
        if r.get('reprinted') is None or native.uncps(r['reprinted']) != r['printed']:
            bad.append('idempotence')
        if r.get('reparsed_equal') is False:
            bad.append('normal_form_equal')
    return bad, r


def classify(clause, s, r):
    if clause == 'panic':
        return 'panic'
    nums = [int(x) for x in re.findall(r'[0-9]+', s)]
    big = any(n >= 2**32 for n in nums)
    if clause == 'accept_iff_grammar':
        if r.get('ok'):
            return 'accepts_non_ascii' if not s.isascii() else 'accepts_outside_grammar'
        return 'rejects_valid_number_ge_2pow32' if big else 'rejects_valid'
    if clause in ('normal_form', 'idempotence', 'normal_form_equal'):
        if not s.isascii():
            return clause + ':non_ascii_input'
        return clause + (':number_ge_2pow32' if big else '')
    return clause


def msym_concrete(I, s):
    w = engine.World([])
    I.world = w
    I.depth = 0
    try:
        r = I.call('<PEP440 as FromStr>::from_str', [mkstr(s)])
        if r.variant != 0:
            return {'ok': False}
        p = I.call('<PEP440 as ToString>::to_string', [ValPtr(r.fields[0])])
        return {'ok': True, 'printed': ''.join(chr(c) for c in p.chars)}
    except Unsupported as e:
        return {'unsupported': str(e)}
    except Panic as e:
        return {'panic': str(e)}


def test_literals():
    src = open(os.path.join(engine.REPO, 'src/version/pep440/parser.rs')).read()
    k = src.find('#[cfg(test)]')
    lits = set(re.findall(r'"((?:[^"\\]|\\.)*)"', src[k:])) if k >= 0 else set()
    lits |= {'', 'v', '1', '1.2', 'v1.0', '1!2.3', '1.0a', '1.0-alpha.1', '1.0RC1', '1.0.post', '1.0-1', '1.0.dev', '1.0+abc.01.x', '01.002',
             '1.0+', '1.0 ', ' 1.0', '1.0\n', '1.0a1b2', '4294967296.0', '1.0.post4294967296', '1.0+4294967296', '1.0poſt1', '1.0+K',
             '1.0_1', '1.0.1', '1.0-r', '1.0.0.0.0', '0!1', '1.0c', '1.0preview3', '1.0+A-B_c'}
    return sorted(x for x in lits if len(x) <= 40 and '\\' not in x)


def main():
    ck = checklib.Check('C09', 'The PEP 440 parser accepts exactly PEP 440 and prints the normal form')
    engine.dump_mir()
    native.build()
    I = engine.make_interp()
    rx = relang.regex_of_static(I, 'PEP440_REGEX')
    ck.load_alphabet([rx.pattern, c09.SPEC_PATTERN], char_ops=['alnum', 'lower', 'ws', 'width'])
    # ---------------- relang: unbounded language inclusion
    t0 = time.time()
    impl = relang.hir_to_re(rx.hir)
    spec = relang.pep440_spec()
    rl = []
    w1 = relang.difference_witness(spec, impl)
    rl.append(dict(query='L(SemVer 2.0.0 spec) \\ L(PEP440_REGEX)', result='empty' if w1 is None else repr(w1)))
    if w1 == 'unknown':
        ck.fail_inconclusive('relang: solver unknown on spec \\ impl')
    elif w1 is not None:
        bad, r = concrete_verdict(w1)
        (ck.confirmed if 'accept_iff_grammar' in bad else ck.not_reproduced)(classify('accept_iff_grammar', w1, r), 'relang: %r is valid PEP 440 but the regex rejects it; native: %r' % (w1, r), dict(input=w1))
    impl_fs = impl
    w2 = relang.difference_witness(impl_fs, spec)
    rl.append(dict(query='L(PEP440_REGEX) \\ L(Appendix B, ASCII)', result='empty' if w2 is None else repr(w2)))
    if w2 == 'unknown':
        ck.fail_inconclusive('relang: solver unknown on impl \\ spec')
    elif w2 is not None:
        bad, r = concrete_verdict(w2)
        ck.validated += 1
        if 'accept_iff_grammar' in bad:
            ck.confirmed(classify('accept_iff_grammar', w2, r), 'relang (unbounded): %r accepted by from_str but not PEP 440 Appendix B; printed %r' % (w2, r.get('printed')), dict(input=w2))
        else:
            ck.not_reproduced('accept_iff_grammar', 'relang witness %r: native %r' % (w2, r), dict(input=w2))
    ck.extra['relang'] = dict(queries=rl, solver_s=round(time.time() - t0, 2), pattern_source='MIR constant of PEP440_REGEX::{closure#0}, lowered by regex-syntax (locked version) in the native helper',
                              bound='none (regular-language inclusion, any string length; code points <= U+2FFFF)')
    ck.obligations.append(dict(name='relang: spec subset of impl / impl minus spec', paths=2, queries=2, result=rl))
    # ---------------- differential validation
    for s in test_literals():
        if not all(ord(ch) < 128 or ord(ch) in C.R for ch in s):
            continue
        a = msym_concrete(I, s)
        b = native_parse(s)
        ck.validated += 1
        if a.get('ok') != b.get('ok') or a.get('printed') != b.get('printed') or ('panic' in a) != ('panic' in b):
            ck.validation_mismatch.append(dict(input=s, msym=a, native={k: b.get(k) for k in ('ok', 'printed', 'panic')}))
    # ---------------- msym exploration
    fams, N = c09.families(ck.tier)
    ck.bounds = dict(free_strings='every string of length 0..%d over ASCII + %d non-ASCII class representatives' % (N, len(C.R)),
                     grammar_alphabet_strings='length %d..%d over the PEP 440 alphabet (digits, label letters in both cases, separators, look-alikes)' % (N + 1, N + (1 if ck.tier == 'quick' else 2)),
                     structured='numeric groups of 1..11(12) symbolic digits in epoch / release / pre / post / implicit post / dev / local positions; '
                                'all label spellings in both cases with all separators; local segments up to 3(5) chars',
                     relang='unbounded length')
    ck.outside = ['free strings longer than the bound (covered only through the unbounded regex-language result)',
                  'surrounding whitespace (excluded by the statement)', 'the process exit status of zerv check (run_check_command itself is executed)']
    ck.assumptions = ['regex crate modelled by a leftmost-first backtracking matcher over the HIR produced by the locked regex-syntax; validated against native on test literals',
                      'expected normal form is computed from the captures of my own Appendix B pattern (ASCII case folding) on the same symbolic input',
                      'python models of str::split/replace/parse/to_lowercase, Vec, Option (listed in models_used)']
    deadline = time.time() + (900 if ck.tier == 'quick' else 7200)
    ex = engine.explore('c09', 'path', fams, jobs=ck.jobs, deadline=deadline)
    cands = ck.absorb('from_str accepts iff Appendix B; printed = normal form; idempotent; equal to original', ex, bounds=dict(N=N, families=len(fams)),
                      expect_tags=['accepted', 'rejected', 'roundtrip_checked'])
    if ex.tags.get('reglan_unknown'):
        ck.notes.add('z3 RegLan cross-check returned unknown on %d path(s)' % ex.tags['reglan_unknown'])
    seen = set()
    for v in cands:
        s = ''.join(chr(c) for c in v['input'])
        if (v['clause'], s) in seen:
            continue
        seen.add((v['clause'], s))
        bad, r = concrete_verdict(s)
        ck.validated += 1
        desc = '%s: input=%r native=%s' % (v['clause'], s, {k: r.get(k) for k in ('ok', 'printed', 'panic', 'err')})
        if v['clause'] in bad:
            ck.confirmed(classify(v['clause'], s, r), desc, dict(input=s, clause=v['clause']))
        elif bad:
            ck.confirmed(classify(bad[0], s, r), desc, dict(input=s, clause=bad[0]))
        else:
            ck.not_reproduced(v['clause'], desc, dict(input=s))
    ck.finish()


def replay(path):
    native.build()
    data = json.load(open(path))
    worst = 0
    for e in data['examples']:
        bad, r = concrete_verdict(e['replay']['input'])
        print('replay %r -> %s violated=%s' % (e['replay']['input'], {k: r.get(k) for k in ('ok', 'printed', 'panic')}, bad))
        worst = max(worst, 1 if bad else 0)
    native.driver().close()
    sys.exit(worst)


if __name__ == '__main__':
    if '--replay' in sys.argv:
        replay(sys.argv[sys.argv.index('--replay') + 1])
    main()
