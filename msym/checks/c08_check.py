"""C08 check driver: relang (unbounded regular-language inclusion) + msym (bounded, whole from_str/to_string)."""
import json
import os
import re
import sys
import time

HERE = os.path.dirname(os.path.abspath(__file__))
sys.path.insert(0, os.path.dirname(HERE))
sys.path.insert(0, os.path.join(os.path.dirname(HERE), 'harness'))

import engine
import native
import checklib
import relang
import c08
from values import *      # noqa
import chars as C


def native_parse(s):
    r = native.driver().call(op='semver_parse', input=native.cps(s))
    if r.get('ok'):
        r['printed'] = native.uncps(r['printed'])
    return r


def concrete_verdict(s):
    """(violated clauses, native result) for a concrete input against the real code"""
    r = native_parse(s)
    bad = []
    if 'panic' in r:
        return ['panic'], r
    ing = relang.SEMVER_PY.fullmatch(s) is not None
    if bool(r.get('ok')) != ing:
        bad.append('accept_iff_grammar')
    if r.get('ok'):
        exp = s[1:] if s.startswith('v') else s
        if r['printed'] != exp:
            bad.append('lossless_print')
    return bad, r


def classify(clause, s, r):
    if clause == 'panic':
        return 'panic'
    nums = [int(x) for x in re.findall(r'[0-9]+', s) if x.isascii()]
    big = any(n >= 2**64 for n in nums)
    if clause == 'accept_iff_grammar':
        if r.get('ok'):
            return 'accepts_non_ascii' if not s.isascii() else 'accepts_outside_grammar'
        m = relang.SEMVER_PY.fullmatch(s)
        if m and any(int(g) >= 2**64 for g in m.groups()[:3]):
            return 'core_number_ge_2pow64_rejected'
        return 'rejects_valid'
    if clause == 'lossless_print':
        return 'numeric_identifier_ge_2pow64_altered' if big else 'print_differs'
    return clause


def msym_concrete(I, s):
    w = engine.World([])
    I.world = w
    I.depth = 0
    try:
        r = I.call('<SemVer as FromStr>::from_str', [mkstr(s)])
        if r.variant != 0:
            return {'ok': False}
        p = I.call('<SemVer as ToString>::to_string', [ValPtr(r.fields[0])])
        return {'ok': True, 'printed': ''.join(chr(c) for c in p.chars)}
    except Panic as e:
        return {'panic': str(e)}


def test_literals():
    src = open(os.path.join(engine.REPO, 'src/version/semver/parser.rs')).read()
    k = src.find('#[cfg(test)]')
    lits = set(re.findall(r'"((?:[^"\\]|\\.)*)"', src[k:])) if k >= 0 else set()
    lits |= {'', 'v', '1', '1.2', '1.2.3', 'v1.2.3-rc.1+b.7', '01.2.3', '1.2.3-01', '1.2.3-0a', '1.2.3+00', '1.2.3-', '1.2.3+',
             '1.2.3-a..b', '1.2.3\n', ' 1.2.3', '1.2.3-99999999999999999999', '18446744073709551616.0.0', '1.0.0-x-y.--', '1.2.3-é', '1.2.3-1٣'}
    return sorted(x for x in lits if len(x) <= 40 and '\\' not in x)


def main():
    ck = checklib.Check('C08', 'The SemVer parser accepts exactly SemVer 2.0.0 and loses nothing')
    engine.dump_mir()
    native.build()
    I = engine.make_interp()
    rx = relang.regex_of_static(I, 'SEMVER_REGEX')
    ck.load_alphabet([rx.pattern, c08.SPEC_PATTERN], char_ops=['alnum', 'lower', 'ws', 'width'])
    # ---------------- relang: unbounded language inclusion
    t0 = time.time()
    impl = relang.hir_to_re(rx.hir)
    spec = relang.semver_spec()
    rl = []
    w1 = relang.difference_witness(spec, impl)
    rl.append(dict(query='L(SemVer 2.0.0 spec) \\ L(SEMVER_REGEX)', result='empty' if w1 is None else repr(w1)))
    if w1 == 'unknown':
        ck.fail_inconclusive('relang: solver unknown on spec \\ impl')
    elif w1 is not None:
        bad, r = concrete_verdict(w1)
        (ck.confirmed if 'accept_iff_grammar' in bad else ck.not_reproduced)(classify('accept_iff_grammar', w1, r), 'relang: %r is valid SemVer but the regex rejects it; native: %r' % (w1, r), dict(input=w1))
    # impl \ spec, restricted to what from_str can accept: the three core groups go through parse::<u64>() (ASCII digits only)
    def ascii_core(h, inside=False):
        h = dict(h)
        if h['k'] == 'cap' and h.get('name') in ('major', 'minor', 'patch'):
            h['sub'] = ascii_core(h['sub'], True)
        elif h['k'] == 'cap' or h['k'] == 'rep':
            h['sub'] = ascii_core(h['sub'], inside)
        elif h['k'] in ('concat', 'alt'):
            h['subs'] = [ascii_core(s, inside) for s in h['subs']]
        elif h['k'] == 'class' and inside:
            h['ranges'] = [[a, min(b, 127)] for a, b in h['ranges'] if a < 128]
        return h
    impl_fs = relang.hir_to_re(ascii_core(rx.hir))
    w2 = relang.difference_witness(impl_fs, spec)
    rl.append(dict(query='L(SEMVER_REGEX with u64-parsed groups restricted to ASCII digits) \\ L(spec)', result='empty' if w2 is None else repr(w2)))
    if w2 == 'unknown':
        ck.fail_inconclusive('relang: solver unknown on impl \\ spec')
    elif w2 is not None:
        bad, r = concrete_verdict(w2)
        ck.validated += 1
        if 'accept_iff_grammar' in bad:
            ck.confirmed(classify('accept_iff_grammar', w2, r), 'relang (unbounded): %r accepted by from_str but not SemVer 2.0.0; printed %r' % (w2, r.get('printed')), dict(input=w2))
        else:
            ck.not_reproduced('accept_iff_grammar', 'relang witness %r: native %r' % (w2, r), dict(input=w2))
    ck.extra['relang'] = dict(queries=rl, solver_s=round(time.time() - t0, 2), pattern_source='MIR constant of SEMVER_REGEX::{closure#0}, lowered by regex-syntax (locked version) in the native helper',
                              bound='none (regular-language inclusion, any string length; code points <= U+2FFFF)')
    ck.obligations.append(dict(name='relang: spec subset of impl / impl minus spec', paths=2, queries=2, result=rl))
    # ---------------- differential validation
    for s in test_literals():
        if not all(ord(ch) < 128 or ord(ch) in C.R for ch in s):
            continue
        a = msym_concrete(I, s)
        b = native_parse(s)
        ck.validated += 1
        if a.get('ok') != b.get('ok') or a.get('printed') != b.get('printed') or ('panic' in a) != ('panic' in b):
            ck.validation_mismatch.append(dict(input=s, msym=a, native={k: b.get(k) for k in ('ok', 'printed', 'panic')}))
    # ---------------- msym exploration
    fams, N = c08.families(ck.tier)
    for f in fams:
        if f['name'] in ('any0', 'any1', 'any2', 'any3', 'any4', 'pre_free', 'build_free'):
            f['reglan_check'] = True
    ck.bounds = dict(free_strings='every string of length 0..%d over ASCII + %d non-ASCII class representatives' % (N, len(C.R)),
                     grammar_alphabet_strings='length %d..%d over {digits, a, A, z, -, ., +, v, non-ASCII representatives}' % (N + 1, N + (1 if ck.tier == 'quick' else 2)),
                     structured='numeric fields of 1..21(22) symbolic digits in major / patch / pre-release / second pre-release / build position; free pre-release and build tails',
                     relang='unbounded length')
    ck.outside = ['free strings longer than the bound (covered only through the unbounded regex-language result)',
                  'the process exit status of zerv check (run_check_command itself is executed: same verdict and normal form)', 'code points above U+2FFFF in the RegLan queries']
    ck.assumptions = ['regex crate modelled by a leftmost-first backtracking matcher over the HIR produced by the locked regex-syntax; validated against native on test literals',
                      'per-path grammar oracle = the same matcher on my own ASCII SemVer pattern; cross-checked with z3 RegLan on the small families',
                      'relang impl\\spec query restricts major/minor/patch classes to ASCII digits (what parse::<u64> accepts); its witness is replayed natively']
    deadline = time.time() + (900 if ck.tier == 'quick' else 7200)
    ex = engine.explore('c08', 'path', fams, jobs=ck.jobs, deadline=deadline)
    cands = ck.absorb('from_str accepts iff grammar; to_string reproduces the input', ex, bounds=dict(N=N, families=len(fams)),
                      expect_tags=['accepted', 'rejected', 'reglan_agrees'])
    if ex.tags.get('reglan_unknown'):
        ck.notes.add('z3 RegLan cross-check returned unknown on %d path(s)' % ex.tags['reglan_unknown'])
    seen = set()
    for v in cands:
        s = ''.join(chr(c) for c in v['input'])
        if (v['clause'], s) in seen:
            continue
        seen.add((v['clause'], s))
        bad, r = concrete_verdict(s)
        ck.validated += 1
        desc = '%s: input=%r native=%s' % (v['clause'], s, {k: r.get(k) for k in ('ok', 'printed', 'panic', 'err')})
        if v['clause'] in bad:
            ck.confirmed(classify(v['clause'], s, r), desc, dict(input=s, clause=v['clause']))
        elif bad:
            ck.confirmed(classify(bad[0], s, r), desc, dict(input=s, clause=bad[0]))
        else:
            ck.not_reproduced(v['clause'], desc, dict(input=s))
    ck.finish()


def replay(path):
    native.build()
    data = json.load(open(path))
    worst = 0
    for e in data['examples']:
        bad, r = concrete_verdict(e['replay']['input'])
        print('replay %r -> %s violated=%s' % (e['replay']['input'], {k: r.get(k) for k in ('ok', 'printed', 'panic')}, bad))
        worst = max(worst, 1 if bad else 0)
    native.driver().close()
    sys.exit(worst)


if __name__ == '__main__':
    if '--replay' in sys.argv:
        replay(sys.argv[sys.argv.index('--replay') + 1])
    main()
