"""C13 check driver (decided part: in-process panic freedom of library kernels reachable from the CLI)."""
import json
import os
import sys
import time

HERE = os.path.dirname(os.path.abspath(__file__))
sys.path.insert(0, os.path.dirname(HERE))
sys.path.insert(0, os.path.join(os.path.dirname(HERE), 'harness'))

import engine
import native
import checklib
import c13
import c05
import c06

U = native.uncps


def confirm(v):
    d = native.driver()
    site = v['site']
    if site == 'derive_short_hash':
        val = ''.join(chr(c) for c in v['value'])
        r = d.call(op='render', schema=c06.schema_json(([('var', 'Major')], [], [('var', 'BumpedCommitHashShort')])), vars={'major': 1, 'bumped_commit_hash': native.cps(val)}, fmt='semver')
        return 'panic' in r, 'bumped_commit_hash=%r -> %s' % (val, r.get('panic', 'no panic'))
    if site.endswith('_function'):
        val = ''.join(chr(c) for c in v['value'])
        fn = site[:-9]
        ex = v.get('extra', {})
        if fn == 'format_timestamp':
            t = '{{ format_timestamp(value=bumped_timestamp, format=bumped_branch) }}'
            r = d.call(op='template', template=native.cps(t), vars={'bumped_timestamp': ex.get('ts', 0), 'bumped_branch': native.cps(val)}, **{'as': 'string'})
            return 'panic' in r, 'format_timestamp(value=%d, format=%r) -> %s' % (ex.get('ts', 0), val, r.get('panic', r.get('err', 'no panic')))
        if fn == 'sanitize':
            t = '{{ sanitize(value=bumped_branch, max_length=%d%s) }}' % (ex.get('max_length', 0), '' if not v.get('sep') else ', separator="%s"' % v['sep'])
        else:
            t = '{{ %s(value=bumped_branch, length=%d) }}' % (fn, ex.get('length', 0))
        r = d.call(op='template', template=native.cps(t), vars={'bumped_branch': native.cps(val)}, **{'as': 'string'})
        if 'panic' not in r and fn in ('hash', 'hash_int'):
            # SipHash is uninterpreted in the symbolic run: look for a real value whose hash has the property the
            # solver asked for (4096 candidates; a property rarer than that stays unconfirmed -> exit 2)
            for k in range(4096):
                val2 = '%s%d' % (val, k)
                r2 = d.call(op='template', template=native.cps(t), vars={'bumped_branch': native.cps(val2)}, **{'as': 'string'})
                if 'panic' in r2:
                    return True, '%s with value=%r -> %s' % (t, val2, r2['panic'])
        return 'panic' in r, '%s with value=%r -> %s' % (t, val, r.get('panic', 'no panic'))
    if site == 'resolve_timestamp':
        pat = ''.join(chr(c) for c in v['value'])
        ts = v.get('extra', {}).get('ts', 0)
        r = d.call(op='resolve_ts', pattern=native.cps(pat), ts=ts)
        if 'panic' not in r:
            # through a schema component as the CLI reaches it
            r = d.call(op='render', schema=[[{'var': 'Major'}], [], [{'ts': native.cps(pat)}]], vars={'major': 1, 'bumped_timestamp': ts}, fmt='semver')
        return 'panic' in r, 'resolve_timestamp(%r, %d) -> %s' % (pat, ts, r.get('panic', 'no panic'))
    if site == 'get_custom_value':
        key = ''.join(chr(c) for c in v['value'])
        r = d.call(op='custom_value', key=native.cps(key))
        return 'panic' in r, 'get_custom_value(%r) -> %s' % (key, r.get('panic', r.get('value')))
    if site == 'Zerv::from(SemVer)':
        pre = [({'u': 1} if k == 'N' else {'s': native.cps(k)}) for k in v['shape']]
        r = d.call(op='semver_convert', v=dict(major=1, minor=0, patch=0, pre=pre, build=None))
        txt = '1.0.0-' + '.'.join('1' if k == 'N' else k for k in v['shape'])
        return 'panic' in r, 'Zerv::from(SemVer %s) -> %s' % (txt, r.get('panic', 'no panic'))
    if site.startswith('bump_') and site != 'bump_uint_literal':
        lv = site[5:]
        r = d.call(op='bump', schema=c06.schema_json(c05.SCHEMAS['std']), vars=v['start'], overrides={}, bumps={lv: v['amount']}, ov_label=None, bp_label=None,
                   ov_core=[], bp_core=[], ov_extra_core=[], bp_extra_core=[], ov_build=[], bp_build=[])
        return 'panic' in r, '--bump-%s %d on %s -> %s' % (lv, v['amount'], v['start'], r.get('panic', r.get('vars')))
    if site == 'bump_uint_literal':
        sch = [[{'var': 'Major'}, {'uint': v['literal']}], [], []]
        r = d.call(op='bump', schema=sch, vars={'major': 1}, overrides={}, bumps={}, ov_label=None, bp_label=None, ov_core=[], bp_core=['1=4294967295'], ov_extra_core=[], bp_extra_core=[], ov_build=[], bp_build=[])
        return 'panic' in r, '--bump-core 1=4294967295 on uint(%d) -> %s' % (v['literal'], r.get('panic', r.get('schema', '')[:80]))
    if site == 'git_fault':
        return confirm_git_fault(v)
    if site == 'run_git_command':
        desc2 = dict(commits=[(1, []), (0, [1])], head=0, branch='main', side={}, tags={'v1.2.3': (1, False)}, dates={0: 1_600_001_000, 1: 1_600_000_000}, dirty=None)
        for idx in range(0, 14):
            rc, out, err = run_zerv_with_fault(desc2, 'semver', idx, answer=(v['stdout'], v['stderr'], 0 if v['success'] else 1))
            why = clean_process_result(rc, out, err)
            if why:
                return True, 'git call #%d answering stdout=%r stderr=%r status %d: %s' % (idx, bytes(v['stdout']), bytes(v['stderr']), 0 if v['success'] else 1, why if why != 'panic' else err.strip()[:200])
        return False, 'run_git_command panic on stdout=%r does not reproduce with the real binary (%s)' % (bytes(v['stdout']), v['detail'])
    if site == 'stdout_write':
        if 'world' not in v:
            return False, 'a library kernel printed to standard output (%s); no process-level replay for this kernel' % v.get('text')
        return confirm_stdout(v)
    if site == 'branch_rules':
        import c04
        from c04_check import py_rules
        b = v['branch']
        bs = None if b is None else ''.join(chr(c) for c in b)
        r = d.call(op='branch_rules', rules=None if c04.RULESETS[v['rules']] is None else [list(x) for x in py_rules(v['rules'])],
                   branch=None if bs is None else native.cps(bs), label=v.get('label'), mode=v.get('mode'), num=v.get('num'))
        return 'panic' in r, 'flow branch rules (%s) on branch %r -> %s' % (v['rules'], bs, r.get('panic', 'no panic'))
    return False, 'unknown site'


GIT_WRAPPER = '''#!/bin/bash
# git wrapper for fault replay: the call whose index (in issue order) equals .git/verif_fault fails like a dying git
if [ -f .git/verif_fault ]; then
  n=$(cat .git/verif_count 2>/dev/null || echo 0); echo $((n+1)) > .git/verif_count
  if [ "$n" = "$(cat .git/verif_fault)" ]; then
    if [ -f .git/verif_out ]; then cat .git/verif_out; cat .git/verif_err >&2; exit $(cat .git/verif_rc); fi
    echo "fatal: injected failure" >&2; exit 128
  fi
fi
exec %s "$@"
'''
_FD = [None]


def fault_driver():
    import shutil
    if _FD[0] is None:
        wdir = os.path.join(os.path.dirname(os.path.dirname(HERE)), 'build', 'gitwrap')
        os.makedirs(wdir, exist_ok=True)
        with open(os.path.join(wdir, 'git'), 'w') as f:
            f.write(GIT_WRAPPER % shutil.which('git'))
        os.chmod(os.path.join(wdir, 'git'), 0o755)
        _FD[0] = native.Driver(env={'PATH': wdir + ':' + os.environ.get('PATH', '')})
    return _FD[0]


def run_with_fault(desc, fmt, idx):
    import gitlib
    d, hs = gitlib.build_repo(desc)
    try:
        with open(os.path.join(d, '.git', 'verif_fault'), 'w') as f:
            f.write(str(idx))
        return fault_driver().call(op='git_vcs', path=d, fmt=fmt)
    finally:
        gitlib.remove(d)


def run_zerv_with_fault(desc, fmt, idx, extra=(), answer=None):
    """the real zerv binary on a real repository with the git call #idx failing -> (exit status, stdout, stderr)"""
    import gitlib
    import subprocess
    zb = native.zerv_bin()
    fault_driver()          # creates the wrapper
    wdir = os.path.join(os.path.dirname(os.path.dirname(HERE)), 'build', 'gitwrap')
    d, hs = gitlib.build_repo(desc)
    try:
        if idx is not None:
            with open(os.path.join(d, '.git', 'verif_fault'), 'w') as f:
                f.write(str(idx))
            if answer is not None:      # (stdout bytes, stderr bytes, exit status) the chosen git call answers with
                for nm, data in (('verif_out', bytes(answer[0])), ('verif_err', bytes(answer[1])), ('verif_rc', str(answer[2]).encode())):
                    with open(os.path.join(d, '.git', nm), 'wb') as f:
                        f.write(data)
        p = subprocess.run([zb, 'version', '-C', d, '--input-format', fmt] + list(extra), env=dict(gitlib.ENV, PATH=wdir + ':' + os.environ.get('PATH', '')),
                           stdin=subprocess.DEVNULL, capture_output=True, text=True, timeout=60)
        return p.returncode, p.stdout, p.stderr
    finally:
        gitlib.remove(d)


def clean_process_result(rc, out, err):
    """the statement: status 0 and exactly one result line on stdout, or non-zero, a diagnostic on stderr, nothing on stdout; no panic"""
    if 'panicked at' in err or rc == 101:
        return 'panic'
    if rc == 0:
        return None if (out.endswith('\n') and out.count('\n') == 1 and out.strip()) else 'status 0 but stdout is not exactly one result line: %r' % out[:200]
    if out:
        return 'status %d with output on stdout: %r' % (rc, out[:200])
    if not err.strip():
        return 'status %d without a diagnostic on stderr' % rc
    return None


def confirm_stdout(v):
    import gitlib
    for ann in (False, True):
        desc = gitlib.desc_of_world(v['world'], annotated=ann)
        for idx in [v['fail_at']] + [i for i in range(0, v.get('calls', 0) + 3) if i != v['fail_at']]:
            rc, out, err = run_zerv_with_fault(desc, v['fmt'], idx)
            why = clean_process_result(rc, out, err)
            if why:
                return True, 'zerv version on tags=%s with git call #%d failing: %s' % (v['world']['tags'], idx, why)
    return False, 'stdout write at git call #%d on tags=%s does not reproduce with the real binary (%s)' % (v['fail_at'], v['world']['tags'], v['detail'])


def confirm_git_fault(v):
    import gitlib
    # the native run issues the same git calls in the same order; to be robust against a differing count the
    # neighbouring indices are tried as well
    for ann in (False, True):
        desc = gitlib.desc_of_world(v['world'], annotated=ann)
        for idx in [v['fail_at']] + [i for i in range(0, v.get('calls', 0) + 3) if i != v['fail_at']]:
            r = run_with_fault(desc, v['fmt'], idx)
            if 'panic' in r:
                return True, 'git call #%d (%s) failing on tags=%s fmt=%s -> %s' % (idx, ' '.join((v.get('failed') or [0, ['?']])[1][:3]), v['world']['tags'], v['fmt'], r['panic'])
    return False, 'git fault at call #%d on tags=%s: no panic natively (%s)' % (v['fail_at'], v['world']['tags'], v['detail'])


def validate_fault_replay(ck):
    """the replay mechanism itself (git wrapper) is exercised on every run: a real repository with an injected failure of
    call #0 must come back as an error, and without a reachable index as success"""
    desc = dict(commits=[(0, [])], head=0, branch='main', side={}, tags={'v1.0.0': (0, False)}, dates={0: 1_600_000_000}, dirty=None)
    r0 = run_with_fault(desc, 'semver', 0)
    r9 = run_with_fault(desc, 'semver', 99)
    ck.validated += 2
    if r0.get('ok') or 'panic' in r0 or not r9.get('ok'):
        ck.fail_inconclusive('git fault wrapper does not behave as expected: %r / %r' % (r0, r9))
    # process level (differential): the real binary on a real two-commit repository, each git call failing in turn
    desc2 = dict(commits=[(1, []), (0, [1])], head=0, branch='main', side={}, tags={'v1.2.3': (1, True)}, dates={0: 1_600_001_000, 1: 1_600_000_000}, dirty=None)
    for idx in [None] + list(range(0, 14)):
        rc, out, err = run_zerv_with_fault(desc2, 'semver', idx)
        ck.validated += 1
        why = clean_process_result(rc, out, err)
        if why:
            ck.confirmed('process:' + ('panic' if why == 'panic' else 'stdout'), 'zerv version on a real repository (tag v1.2.3 + 1 commit) with git call #%s failing: %s' % (idx, why),
                         dict(site='stdout_write', world=dict(commits=2, shape='lin2', order=[0, 1], tags={'v1.2.3': 1}, annotated=['v1.2.3'], branch='main', status=''), fmt='semver', fail_at=idx or 0, calls=14, detail=why))


def classify(v):
    site = v['site']
    if site == 'Zerv::from(SemVer)':
        # role: which secondary label is repeated / misplaced
        sh = v['shape']
        rep = sorted({k for k in sh if k in ('epoch', 'post', 'dev') and sh.count(k) > 1})
        return 'panic:from_semver:' + ('repeated_' + '+'.join(rep) if rep else 'other')
    if site.startswith('bump_'):
        return 'panic:bump_overflow:' + site[5:]
    if site == 'stdout_write':
        return 'stdout_write:' + str(v.get('stage', 'kernel'))
    if site == 'run_git_command':
        return 'panic:run_git_command'
    return 'panic:' + site


def main():
    ck = checklib.Check('C13', 'zerv fails cleanly: it never panics and never prints a result on failure')
    ck.setup(char_ops=['alnum', 'lower', 'ws', 'width'])
    quick = ck.tier == 'quick'
    N = 9 if quick else 10
    fn_args = []
    for fn in ('prefix_function', 'hash_function', 'hash_int_function'):
        for n in ((0, 1, 2, 3) if quick else (0, 1, 2, 3, 4)):
            fn_args.append((fn, n, None))
    for sep in (None, '-'):
        for n in ((1, 2, 3) if quick else (1, 2, 3, 4)):
            fn_args.append(('sanitize_function', n, sep))
    for n in ((0, 1, 2, 3) if quick else (0, 1, 2, 3, 4)):
        fn_args.append(('format_timestamp_function', n, None))
    shapes = c13.from_semver_shapes(ck.tier)
    ck.bounds = dict(derive_short_hash='commit hashes of 0..%d chars over ASCII + non-ASCII representatives' % N,
                     template_functions='prefix/hash/hash_int with values of 0..3(4) chars and any length 0..40; sanitize with max_length 0..6; format_timestamp with EVERY format string of 0..3(4) chars (symbolic) and any second 1970-2199',
                     from_semver='%d pre-release identifier lists of length <= %d over {epoch, post, dev, alpha, rc, x, number}' % (len(shapes), 3 if quick else 4),
                     resolve_timestamp='EVERY pattern string of 0..3(4) chars, and of 0..2(3) chars behind a leading % (also %Y+1..2, %-+1), any second 1970-2199', custom_values='dotted keys of up to 4 (5) chars over {a,b,c,s,n,.,0,1,2,9,x} into a nested JSON object with an array, an object, a string and null', run_git_command='exit status symbolic; stdout / stderr bytes from menus of 7 x 6 answers incl. invalid UTF-8, padding, empty', branch_rules='default GitFlow rules and a short rule set on branch names with all-digit segments of 1..20 (21) digits and free names of 0..3 (5) chars', git_fault='get_vcs_data + vcs_data_to_zerv_vars against the C02 git stub (chains of 1..3 commits and a diamond, 3-4 tag menus with every placement symbolic), the git call with a solver-chosen index 0..40 fails', bump_overflow='each by-name bump with any u32 amount on start values up to 2^64-1; index bump of a uint literal up to 2^64-1')
    ck.outside = ['argument-vector parsing (clap), stdout/stderr separation and the exit status of the process', 'more than one failing git sub-command per run, git printing malformed output with a zero status', 'RON/JSON parsing of stdin (library code)',
                  'panic paths inside the other properties\' executions are reported by those checks']
    ck.assumptions = ['chrono strftime item validity mirrors StrftimeItems::parse_next_item of the locked chrono 0.4.43 (read from the registry source)', 'python std models']
    cands = []
    dl = lambda s: time.time() + s
    ex = engine.explore('c13', 'path_short_hash', list(range(0, N + 1)), jobs=ck.jobs, deadline=dl(300))
    cands += ck.absorb('derive_short_hash never panics', ex, expect_tags=['returned'])
    ex = engine.explore('c13', 'path_fn', fn_args, jobs=ck.jobs, deadline=dl(600))
    cands += ck.absorb('template functions never panic', ex, expect_tags=['returned'])
    ts_args = [('', n) for n in ((0, 1, 2, 3) if quick else (0, 1, 2, 3, 4))] + [('%', n) for n in ((0, 1, 2) if quick else (0, 1, 2, 3))] + [('%Y', 1), ('%Y', 2), ('%-', 1)]
    ex = engine.explore('c13', 'path_resolve_ts', ts_args, jobs=ck.jobs, deadline=dl(600))
    cands += ck.absorb('resolve_timestamp never panics, whatever the pattern text of a ts(…) component', ex, expect_tags=['ok', 'err'])
    ex = engine.explore('c13', 'path_from_semver', shapes, jobs=ck.jobs, deadline=dl(600))
    cands += ck.absorb('Zerv::from(SemVer) never panics on parser-producible records', ex, expect_tags=['returned'])
    ex = engine.explore('c13', 'path_bump_overflow', list(c05.NUMLEVELS), jobs=ck.jobs, deadline=dl(300))
    cands += ck.absorb('bump additions never overflow', ex, expect_tags=['returned'])
    ex = engine.explore('c13', 'path_custom_value', list(range(0, 5 if quick else 6)), jobs=ck.jobs, deadline=dl(300))
    cands += ck.absorb('get_custom_value never panics on nested JSON', ex, expect_tags=['returned'])
    ex = engine.explore('c13', 'path_uint_literal_overflow', [0], jobs=ck.jobs, deadline=dl(120))
    cands += ck.absorb('uint literal bump never overflows', ex)
    bargs = c13.branch_rule_args(ck.tier)
    ex = engine.explore('c13', 'path_branch_rules', bargs, jobs=ck.jobs, deadline=dl(600))
    cands += ck.absorb('branch-rule resolution never panics (digit segments of 1..20 digits, free names)', ex, bounds=dict(configs=len(bargs)), expect_tags=['returned', 'applied'])
    rg = [(i, j) for i in range(len(c13.GIT_STDOUT)) for j in range(len(c13.GIT_STDERR))]
    ex = engine.explore('c13', 'path_run_git', rg, jobs=ck.jobs, deadline=dl(300))
    cands += ck.absorb('GitVcs::run_git_command (the process boundary itself, std::process::Command stubbed): Ok or Err for any exit status and any output bytes of the menu, never a panic', ex,
                       bounds=dict(configs=len(rg)), expect_tags=['returned_ok', 'returned_err'])
    gcases = c13.git_fault_cases(ck.tier)
    ex = engine.explore('c13', 'path_git_fault', gcases, jobs=ck.jobs, deadline=dl(600 if quick else 3000))
    cands += ck.absorb('any single git sub-command failing: extraction returns Ok or Err, never panics', ex, bounds=dict(configs=len(gcases)),
                       expect_tags=['no_fault_reached', 'returned_ok', 'returned_err', 'vars_returned', 'fault:rev-parse HEAD', 'fault:status --porcelain', 'fault:rev-list --count'])
    validate_fault_replay(ck)
    seen = set()
    for v in cands:
        key = json.dumps(v, sort_keys=True, default=str)
        if key in seen:
            continue
        seen.add(key)
        ok, desc = confirm(v)
        ck.validated += 1
        (ck.confirmed if ok else ck.not_reproduced)(classify(v), ('panic: ' if v.get('clause') == 'panic' else '') + desc, v)
    ck.finish()


def replay(path):
    native.build()
    data = json.load(open(path))
    worst = 0
    for e in data['examples']:
        ok, desc = confirm(e['replay'])
        print('replay:', desc, '-> panics' if ok else '-> no panic')
        worst = max(worst, int(ok))
    native.driver().close()
    sys.exit(worst)


if __name__ == '__main__':
    if '--replay' in sys.argv:
        replay(sys.argv[sys.argv.index('--replay') + 1])
    main()
