"""C14 check driver (partial claim): environment independence as 2-safety — two executions under independent symbolic
process environments (time zone, environment variables, hasher keys; shared clock) must give the same output."""
import json
import os
import sys
import time

HERE = os.path.dirname(os.path.abspath(__file__))
sys.path.insert(0, os.path.dirname(HERE))
sys.path.insert(0, os.path.join(os.path.dirname(HERE), 'harness'))

import engine
import native
import checklib
import c14
import c17
import c06
import c06_schemas
import flowlib

_DRV = {}


def drv(env):
    key = json.dumps(env, sort_keys=True)
    if key not in _DRV:
        _DRV[key] = native.Driver(env=env)
    return _DRV[key]


def envs_of(v):
    """the two process environments of a counterexample: TZ from the whole-hour offsets, variables as given"""
    out = []
    for ep in (1, 2):
        e = {}
        h = v.get('env', {}).get('tz_hours@%d' % ep)
        e['TZ'] = 'UTC' if h in (None, 0) else 'Etc/GMT%+d' % (-h)
        for k, val in v.get('env', {}).items():
            if k.startswith('$') and k.endswith('@%d' % ep) and val is not None:
                e[k[1:-2]] = val
        out.append(e)
    if out[0] == out[1]:
        out[1] = dict(out[1], TZ='Etc/GMT-14')
    return out


def request_of(v):
    if v['what'] == 'resolve_timestamp':
        return dict(op='resolve_timestamp', pattern=native.cps(v['pattern']), ts=v['ts'])
    if v['what'].endswith('_function'):
        fn = v['what'][:-9]
        i = v['input']
        if fn == 'format_timestamp':
            t = '{{ format_timestamp(value=bumped_timestamp%s) }}' % ('' if i['format'] is None else ', format="%s"' % i['format'])
            return dict(op='template', template=native.cps(t), vars={'bumped_timestamp': i['ts']}, **{'as': 'string'})
        t = '{{ %s(value=bumped_branch%s) }}' % (fn, '' if i['length'] is None else ', length=%d' % i['length'])
        return dict(op='template', template=native.cps(t), vars={'bumped_branch': i['value']}, **{'as': 'string'})
    if v['what'] == 'render':
        return dict(op='render', schema=v['schema'], vars=v['vars'], fmt=v['fmt'])
    return None


def run_from_cwd(repo, cwd_kind, start):
    """the real zerv binary with -C <start> from a given kind of current directory -> (status, stdout, stderr)"""
    import subprocess, tempfile, shutil
    zb = native.zerv_bin()
    base = tempfile.mkdtemp(prefix='c14cwd_', dir=os.path.join(native.BUILD))
    try:
        if cwd_kind is None:          # a removed directory: getcwd fails in the child
            d = os.path.join(base, 'gone')
            os.mkdir(d)
            cmd = 'cd %s && rmdir %s && exec %s version -C %s' % (d, d, zb, start)
        else:
            d = {'/x': os.path.join(base, 'x'), '/': '/'}.get(cwd_kind) or os.path.join(repo, 's')
            os.makedirs(d, exist_ok=True)
            cmd = 'cd %s && exec %s version -C %s' % (d, zb, start)
        p = subprocess.run(['bash', '-c', cmd], capture_output=True, text=True, timeout=60, stdin=subprocess.DEVNULL)
        return p.returncode, p.stdout, p.stderr.strip().splitlines()[-1:] if p.stderr else []
    finally:
        shutil.rmtree(base, ignore_errors=True)


def real_repo():
    """a small real repository (one tagged commit, sub-directories s/t) under build/"""
    import subprocess, tempfile
    r = tempfile.mkdtemp(prefix='c14repo_', dir=native.BUILD)
    sh = lambda *a: subprocess.run(a, cwd=r, check=True, capture_output=True, env=dict(os.environ, GIT_AUTHOR_NAME='a', GIT_AUTHOR_EMAIL='a@b', GIT_COMMITTER_NAME='a', GIT_COMMITTER_EMAIL='a@b', GIT_CONFIG_GLOBAL='/dev/null'))
    sh('git', 'init', '-q', '-b', 'main')
    os.makedirs(os.path.join(r, 's', 't'))
    open(os.path.join(r, 's', 't', 'f'), 'w').write('x')
    sh('git', 'add', '.')
    sh('git', 'commit', '-q', '-m', 'c')
    sh('git', 'tag', 'v1.2.3')
    return r


def confirm_root(v):
    """the real find_vcs_root_with_limit on a real directory tree, called from the two current directories of the
    counterexample (one of them possibly a removed directory) inside the native driver"""
    d = native.driver()
    outs = []
    for k, c in enumerate(v['cwd']):
        c = '/x' if c == 'not read' else c
        outs.append(d.call(op='find_root', root=v['root'], start=v['start'], depth=v['depth'], cwd=c, nonce=k))
    return outs[0] != outs[1], 'find_vcs_root_with_limit(%s, %s) with .git at %s from current directory %s -> %r ; from %s -> %r' % (v['start'], v['depth'], v['root'], v['cwd'][0], outs[0], v['cwd'][1], outs[1])


def root_validation(ck):
    """differential: (a) the path / file-system model against the real std on a real tree — every configuration of the
    menu from two current directories; (b) the real binary gives the same answer for -C <repository root> from every
    kind of current directory"""
    import shutil
    import models_path as MP
    d = native.driver()
    for (start, depth, root) in c14.root_args(ck.tier):
        for cwd in ('/r/s', None) if start.startswith('/') else ('/r/s', '/x'):
            r = d.call(op='find_root', root=root, start=start, depth=depth, cwd=cwd, nonce=7)
            # the model's answer, computed with the same helper functions the MIR run uses
            MP.FS[0] = {'/', '/r', '/r/s', '/r/s/t', '/x', '/x/y'} | ({root + '/.git'} if root else set())
            cur = start if start.startswith('/') else (cwd + '/' + start)
            exp, k = None, 0
            while True:
                if MP.resolve(cur + '/.git') in MP.FS[0]:
                    exp = cur
                    break
                if depth is not None and k >= depth:
                    break
                cs = MP.comps(cur)
                if not cs or cs == ['/']:
                    break
                cur, k = MP.unparse(cs[:-1]), k + 1
            ck.validated += 1
            got = r.get('root') if r.get('ok') else None
            if got != exp:
                ck.validation_mismatch.append(dict(what='find_root', start=start, depth=depth, root=root, cwd=cwd, model=exp, native=r))
    repo = real_repo()
    try:
        outs = [run_from_cwd(repo, k, repo) for k in ('/r/s', '/x', '/', None)]
        ck.validated += len(outs)
        if outs[0][0] != 0 or outs[0][1].strip() != '1.2.3':
            ck.fail_inconclusive('process-level -C run does not work in this sandbox: %r' % (outs[0],))
        elif any(o != outs[0] for o in outs):
            ck.confirmed('env_dependent:vcs_root', '`zerv version -C <abs>` differs between current directories: %r' % (outs,), dict(clause='env_dependent', what='vcs_root', start='/r', depth=0, root='/r', cwd=['/r/s', None]))
    finally:
        shutil.rmtree(repo, ignore_errors=True)


def confirm(v):
    if v['what'] == 'vcs_root':
        return confirm_root(v)
    e1, e2 = envs_of(v)
    if v['what'] == 'flow':
        # the flow op needs argv/vars built by flowlib; run it in both environments
        outs = []
        for e in (e1, e2):
            old = native._D[0]
            native._D[0] = drv(e)
            try:
                r = flowlib.run_native(v['arg'], v['case'], v.get('fmt', 'semver'))
            finally:
                native._D[0] = old
            outs.append(r.get('out', r.get('err', r.get('panic'))))
        # the clock is not shared between two real runs: compare with the dev timestamp masked
        import re
        mask = lambda s: re.sub(r'dev\.?\d+', 'dev', s or '')
        return mask(outs[0]) != mask(outs[1]), 'flow %s under %s -> %r ; under %s -> %r' % (v['case'], e1, outs[0], e2, outs[1])
    if v['what'] == 'git':
        return confirm_git(v)
    req = request_of(v)
    if req is None:
        return False, 'no replay for %s' % v['what']
    r1, r2 = drv(e1).call(**req), drv(e2).call(**req)
    show = lambda r: native.uncps(r['out']) if isinstance(r.get('out'), list) else {k: r.get(k) for k in ('out', 'err', 'panic')}
    if show(r1) == show(r2) and any(k.startswith('hashorder') or k.startswith('random_state') for k in v.get('env', {})):
        # per-process hasher keys cannot be set from outside: try a few more fresh processes
        for n in range(8):
            e3 = dict(e2, VERIF_NONCE=str(n))
            r2 = drv(e3).call(**req)
            e2 = e3
            if show(r1) != show(r2):
                break
    desc = '%s %s under %s -> %r ; under %s -> %r' % (v['what'], {k: v[k] for k in ('pattern', 'ts', 'input', 'schema_text', 'vars') if k in v}, e1, show(r1), e2, show(r2))
    return show(r1) != show(r2), desc


def confirm_git(v):
    """the real extraction on a real repository built from the counterexample, in several fresh processes (per-process
    hasher keys cannot be set from outside) and under the two environments"""
    import gitlib
    e1, e2 = envs_of(v)
    for ann in (False, True):
        desc = gitlib.desc_of_world(v['world'], annotated=ann)
        d, hs = gitlib.build_repo(desc)
        try:
            outs = []
            for n in range(12):
                e = dict(e1 if n % 2 == 0 else e2, VERIF_NONCE=str(n))
                r = drv(e).call(op='git_vcs', path=d, fmt=v['fmt'])
                outs.append(json.dumps({k: r.get(k) for k in ('ok', 'data', 'vars', 'vars_err', 'err', 'panic')}, sort_keys=True))
                if outs[-1] != outs[0]:
                    return True, 'git extraction on tags=%s fmt=%s differs between processes: %s  vs  %s' % (v['world']['tags'], v['fmt'], outs[0][:300], outs[-1][:300])
        finally:
            gitlib.remove(d)
    return False, 'git extraction on tags=%s: identical in 12 processes (%s)' % (v['world']['tags'], v['detail'])


def main():
    ck = checklib.Check('C14', 'Output is deterministic and independent of the environment')
    engine.dump_mir()
    native.build()
    I = engine.make_interp()
    import relang
    pats = [relang.regex_of_static(I, 'SEMVER_REGEX').pattern, relang.regex_of_static(I, 'PEP440_REGEX').pattern]
    ck.load_alphabet(pats, char_ops=['alnum', 'lower', 'ws', 'width'])
    quick = ck.tier == 'quick'
    pats_ts = list(c17.PATTERNS)
    fargs = c14.fn_args(ck.tier)
    flows = c14.flow_args(ck.tier)
    rend = [dict(sp, fmt=f) for sp in (c06_schemas.presets(ck.tier) + c06_schemas.custom(ck.tier)) if 'ts' in json.dumps(c06.schema_json(sp['schema'])) for f in ('semver', 'pep440')]
    ck.bounds = dict(environment='per execution: local time zone = any whole-hour UTC offset -12..+14, any environment variable absent or one symbolic character, hasher keys of every RandomState any u64; the wall clock is shared between the two executions',
                     timestamps='any second 1970-2199 (minus 14 h at both ends)', patterns=pats_ts, functions=[list(a) for a in fargs],
                     flow_configurations=len(flows), calendar_schemas=len(rend), repository_discovery='start paths /r/s/t, /r, /x/y, /, /r/s/.., s, .., . x depth limits none/0/1/3 x repository root /r, /r/s or none; current directory per execution any of /r/s, /x, /r/s/t, / or unreadable (removed directory)')
    ck.outside = ['separate OS processes, locales, the git source (its facts are C02\'s subject)', 'current directory: decided only for repository discovery (GitVcs::new_with_limit / find_vcs_root_with_limit / is_available on a modelled directory tree); relative -C paths depend on it by definition', 'std hash containers with more than 4 entries iterated under the harness (unsupported)',
                  'environment reads other than chrono Local / std::env::var / RandomState (any other is unsupported -> exit 2, never a pass)', 'the dev timestamp itself (documented wall-clock dependence)']
    ck.assumptions = ['models_env: environment reads answer epoch-private solver variables', 'python std / chrono / Tera-subset models (models_used)']
    cands = []
    ex = engine.explore('c14', 'path_ts', pats_ts, jobs=ck.jobs, deadline=time.time() + 600)
    cands += ck.absorb('resolve_timestamp: same text under any two time zones / environments', ex, bounds=dict(patterns=len(pats_ts)), expect_tags=['two_runs', 'same_output'])
    ex = engine.explore('c14', 'path_fn', fargs, jobs=ck.jobs, deadline=time.time() + 600)
    cands += ck.absorb('hash / hash_int / format_timestamp: same text in every process', ex, bounds=dict(configs=len(fargs)), expect_tags=['two_runs', 'same_output'])
    ex = engine.explore('c14', 'path_render', rend, jobs=ck.jobs, deadline=time.time() + 900)
    cands += ck.absorb('rendering of schemas with timestamp components: same text in every process', ex, bounds=dict(configs=len(rend)), expect_tags=['two_runs', 'same_output'])
    ex = engine.explore('c14', 'path_flow', flows, jobs=ck.jobs, deadline=time.time() + (900 if quick else 3600))
    cands += ck.absorb('flow pipeline twice on the same inputs and clock: same output', ex, bounds=dict(configs=len(flows)), expect_tags=['two_runs', 'same_output'])
    gargs = c14.git_args(ck.tier)
    ex = engine.explore('c14', 'path_git', gargs, jobs=ck.jobs, deadline=time.time() + (600 if quick else 2400))
    cands += ck.absorb('git extraction (zerv\'s side, git stubbed) twice on the same repository: same facts in every process', ex, bounds=dict(configs=len(gargs)), expect_tags=['two_runs', 'same_output'])
    rargs = c14.root_args(ck.tier)
    ex = engine.explore('c14', 'path_root', rargs, jobs=ck.jobs, deadline=time.time() + 600)
    cands += ck.absorb('repository discovery from an absolute -C path: same outcome from every current directory (incl. an unreadable one)', ex, bounds=dict(configs=len(rargs)), expect_tags=['two_runs', 'same_output', 'found', 'not_found', 'relative_start'])
    root_validation(ck)
    seen = set()
    for v in cands:
        key = json.dumps(v, sort_keys=True, default=str)
        if key in seen:
            continue
        seen.add(key)
        if v['clause'] == 'panic':
            ck.fail_inconclusive('panic under the two-environment harness: %s' % v['detail'])
            continue
        ok, desc = confirm(v)
        ck.validated += 1
        (ck.confirmed if ok else ck.not_reproduced)('%s:%s' % (v['clause'], v['what']), desc, v)
    # native sanity of the replay mechanism itself: the same requests in two differently configured processes agree
    for pat in ('YYYY', 'compact_datetime', 'WW'):
        for ts in (0, 1709629623, 4102444799):
            a = drv({'TZ': 'UTC'}).call(op='resolve_timestamp', pattern=native.cps(pat), ts=ts)
            b = drv({'TZ': 'Etc/GMT-14', 'ZERV_X': '1', 'LANG': 'tr_TR.UTF-8'}).call(op='resolve_timestamp', pattern=native.cps(pat), ts=ts)
            ck.validated += 1
            if a != b:
                ck.confirmed('env_dependent:native', 'resolve_timestamp(%s, %d): %r vs %r in two real processes' % (pat, ts, a, b), dict(what='resolve_timestamp', pattern=pat, ts=ts, env={'tz_hours@2': 14}, clause='env_dependent'))
    for d in _DRV.values():
        d.close()
    ck.finish()


def replay(path):
    native.build()
    data = json.load(open(path))
    worst = 0
    for e in data['examples']:
        ok, desc = confirm(e['replay'])
        print('replay:', desc, '-> violated' if ok else '-> holds')
        worst = max(worst, int(ok))
    sys.exit(worst)


if __name__ == '__main__':
    if '--replay' in sys.argv:
        replay(sys.argv[sys.argv.index('--replay') + 1])
    main()
