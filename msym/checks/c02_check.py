"""C02 check driver (partial claim): zerv's side of the git extraction against a nondeterministic git stub; replay and
contract validation on real repositories built with the git binary of the sandbox."""
import json
import os
import random
import sys
import time

HERE = os.path.dirname(os.path.abspath(__file__))
sys.path.insert(0, os.path.dirname(HERE))
sys.path.insert(0, os.path.join(os.path.dirname(HERE), 'harness'))

import engine
import native
import checklib
import c02
import gitlib
import flowlib


def validate_git_contract(ck, n):
    """the assumptions the stub makes about git, checked on random real repositories (merges, annotated tags, side branches)"""
    rng = random.Random(1000 + ck.seed)
    menu = sorted({t for tags, _f in c02.MENUS.values() for t in tags})
    bad = []
    kinds = [k for k, _t, _d in c02.STATUS_MENU]
    for it in range(n + len(kinds)):
        desc = gitlib.random_desc(rng, menu)
        if it < len(kinds):
            desc['dirty'] = kinds[it]          # every work-tree state of the stub's status menu, each run
        d, hs = gitlib.build_repo(desc)
        try:
            inv = {h: c for c, h in hs.items()}
            par = dict(desc['commits'])
            order = [inv[h] for h in gitlib.git(d, 'rev-list', '--topo-order', 'HEAD').split()]
            anc = gitlib.ancestors(desc, desc['head'])
            if set(order) != anc:
                bad.append(('rev-list set', desc))
            pos = {c: i for i, c in enumerate(order)}
            if any(pos[p] < pos[c] for c in order for p in par[c]):
                bad.append(('topo order shows a parent before its child', desc))
            tagged = {inv[h] for h in gitlib.git(d, 'log', '--tags', '--no-walk', '--format=%H').split()}
            if tagged != {cid for cid, _a in desc['tags'].values()}:
                bad.append(('log --tags --no-walk', desc))
            for c in set(order) | tagged:
                names = set(gitlib.git(d, 'tag', '--points-at', hs[c]).split())
                if names != {t for t, (cid, _a) in desc['tags'].items() if cid == c}:
                    bad.append(('tag --points-at', desc))
            for t, (cid, _a) in desc['tags'].items():
                cnt = int(gitlib.git(d, 'rev-list', '--count', t + '..HEAD'))
                if cnt != len(anc - gitlib.ancestors(desc, cid)):
                    bad.append(('rev-list --count', desc))
                if gitlib.git(d, 'rev-list', '-n', '1', t) != hs[cid]:
                    bad.append(('rev-list -n 1', desc))
            if (gitlib.git(d, 'branch', '--show-current') or None) != desc.get('branch'):
                bad.append(('branch --show-current', desc))
            if bool(gitlib.git(d, 'status', '--porcelain')) != (desc.get('dirty') not in (None, 'clean', 'ignored_only')):
                bad.append(('status --porcelain', desc))
            want = {n: t for n, t, _ in c02.STATUS_MENU}.get(desc.get('dirty') or 'clean')
            if want is not None and gitlib.git(d, 'status', '--porcelain') != want.strip():
                bad.append(('status --porcelain text of the stub menu', desc))
        finally:
            gitlib.remove(d)
        ck.validated += 1
    return bad


def confirm(v):
    descs = [gitlib.desc_of_world(v['world'], annotated=a) for a in (False, True)]
    out = []
    for desc in descs:
        r, hs, j = gitlib.run_real(desc, v['fmt'])
        out.append((j, r))
        if not j['ok']:
            return True, '%s: tags=%s commits=%d fmt=%s -> real repository: %s (reported %s)' % (
                v['clause'], v['world']['tags'], v['world']['commits'], v['fmt'], '; '.join(j['why']), (r.get('data') or {}).get('tag_version'))
    return False, '%s: tags=%s fmt=%s does not reproduce on a real repository (%s)' % (v['clause'], v['world']['tags'], v['fmt'], v['detail'])


def main():
    ck = checklib.Check('C02', 'Git state extraction is faithful to the repository history')
    engine.dump_mir()
    native.build()
    I = engine.make_interp()
    import relang
    pats = [relang.regex_of_static(I, 'SEMVER_REGEX').pattern, relang.regex_of_static(I, 'PEP440_REGEX').pattern]
    ck.load_alphabet(pats, char_ops=['alnum', 'lower', 'ws', 'width'])
    quick = ck.tier == 'quick'
    cases = c02.cases(ck.tier)
    ck.bounds = dict(history='summary of a history: chains of 1..%d commits, a diamond merge and a merged two-commit side branch, listed in any order the issued rev-list flavour may print by contract (solver variables), plus one tagged commit unreachable from HEAD' % (3 if quick else 5),
                     tags='%d menus of 3-4 concrete tag names (valid / invalid / both-format spellings, numeric vs lexicographic order, pre-releases), every placement of every tag (absent / on each commit / on the unreachable commit) symbolic' % len(c02.MENUS),
                     formats=['semver', 'pep440', 'auto'], facts='distance = the count the shape implies (one family: any u32), commit times 10 digits, branch absent / main / f/<any><any>, status text 0-2 symbolic chars',
                     configurations=len(cases))
    ck.outside = ['the git binary itself and the object database: `GitVcs::run_git_command` is replaced by a stub answering each sub-command from the symbolic summary according to git\'s documented contract (validated on random real repositories each run)',
                  'that the first validly tagged commit in topological order is a nearest one follows from the topo-order contract (argued in DESIGN, validated on real repositories with merges)',
                  'git failures / shallow clones / repository discovery (-C, find_vcs_root)', 'tag names outside the menus, more than 4 (thorough 5) tags, more than 3 (thorough 5) commits in the order']
    ck.assumptions = ['git sub-command contracts as coded in harness/c02.py (GitWorld.git)', 'tracing macros disabled (no effect on results)', 'python std models (models_used)']
    t0 = time.time()
    bad = validate_git_contract(ck, 12 if quick else 150)
    for what, desc in bad[:3]:
        ck.fail_inconclusive('git contract assumption not confirmed on a real repository: %s %r' % (what, desc))
    # the real extraction on random real histories (merges, annotated tags, detached HEAD, dirty kinds) against the statement's oracle
    rng = random.Random(77 + ck.seed)
    menu = sorted({t for tags, _f in c02.MENUS.values() for t in tags})
    real_bad = []
    for i in range(12 if quick else 240):
        desc = gitlib.random_desc(rng, menu)
        fmt = ('semver', 'pep440', 'auto')[i % 3]
        r, hs, j = gitlib.run_real(desc, fmt)
        ck.validated += 1
        if not j['ok']:
            real_bad.append((desc, fmt, j['why'], (r.get('data') or {}).get('tag_version')))
    ck.extra['real_repositories'] = dict(contract_checks=len(bad), wall_s=round(time.time() - t0, 1), disagreements=[dict(desc=d, fmt=f, why=w, reported=t) for d, f, w, t in real_bad[:5]])
    ex = engine.explore('c02', 'path', cases, jobs=ck.jobs, deadline=time.time() + (600 if quick else 3600))
    cands = ck.absorb('get_vcs_data + vcs_data_to_zerv_vars against the git stub: base tag, pass-through facts, no version without a tag', ex,
                      bounds=dict(configs=len(cases)), expect_tags=['extracted', 'base_tag_ok', 'no_tag', 'facts_exact', 'vars_exact', 'no_tags_reported'])
    seen = set()
    for v in cands:
        key = json.dumps(v, sort_keys=True, default=str)
        if key in seen:
            continue
        seen.add(key)
        ok, desc = confirm(v)
        ck.validated += 1
        (ck.confirmed if ok else ck.not_reproduced)('%s:%s' % (v['clause'], v['fmt']), desc, v)
    # a disagreement on a real repository that the symbolic run did not explain is reported as inconclusive (it is a test result, not a solver verdict)
    if real_bad and not ck.violations:
        d, f, wh, t = real_bad[0]
        ck.fail_inconclusive('real repository disagrees with the statement but no symbolic counterexample covers it: %s fmt=%s %s' % (d, f, wh))
    ck.finish()


def replay(path):
    native.build()
    data = json.load(open(path))
    worst = 0
    for e in data['examples']:
        ok, desc = confirm(e['replay'])
        print('replay:', desc, '-> violated' if ok else '-> holds')
        worst = max(worst, int(ok))
    native.driver().close()
    sys.exit(worst)


if __name__ == '__main__':
    if '--replay' in sys.argv:
        replay(sys.argv[sys.argv.index('--replay') + 1])
    main()
