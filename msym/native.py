"""Client for the native driver (real zerv code, path dependency on /repo)."""
import json
import os
import subprocess
import sys
import time

HERE = os.path.dirname(os.path.abspath(__file__))
VERIF = os.path.dirname(HERE)
BUILD = os.environ.get('VERIF_BUILD') or os.path.join(VERIF, 'build')     # VERIF_BUILD: a private scratch dir for development runs
REPO = os.environ.get('VERIF_REPO', '/repo')
BIN = os.path.join(BUILD, 'native-target', 'debug', 'zerv-native-driver')


def build():
    """(re)build the driver against /repo's current working tree (cargo decides what is stale)"""
    t0 = time.time()
    env = dict(os.environ, CARGO_NET_OFFLINE='true', RUSTUP_TOOLCHAIN='1.93')
    src = os.path.join(VERIF, 'native')
    # keep the lock file in sync with the repository's
    lock_src = os.path.join(REPO, 'Cargo.lock')
    lock_dst = os.path.join(src, 'Cargo.lock')
    if not os.path.exists(lock_dst):
        open(lock_dst, 'w').write(open(lock_src).read())
    p = subprocess.run(['cargo', 'build', '--offline', '--target-dir', os.path.join(BUILD, 'native-target')],
                       cwd=src, env=env, stdout=subprocess.PIPE, stderr=subprocess.STDOUT, text=True)
    if p.returncode != 0:
        sys.stderr.write(p.stdout[-6000:])
        sys.stderr.write('\n[native] build of the native driver failed\n')
        raise SystemExit(2)
    sys.stderr.write('[native] driver build %.1fs\n' % (time.time() - t0))
    return BIN


_ZB = [None]


def zerv_bin():
    """the real `zerv` binary built from /repo's working tree (for process-level replays: stdout / exit status)"""
    tdir = os.path.join(BUILD, 'zerv-target')
    if _ZB[0]:
        return _ZB[0]
    t0 = time.time()
    env = dict(os.environ, CARGO_NET_OFFLINE='true', RUSTUP_TOOLCHAIN='1.93')
    p = subprocess.run(['cargo', 'build', '--offline', '--bin', 'zerv', '--manifest-path', os.path.join(REPO, 'Cargo.toml'), '--target-dir', tdir],
                       env=env, stdout=subprocess.PIPE, stderr=subprocess.STDOUT, text=True)
    if p.returncode != 0:
        sys.stderr.write(p.stdout[-3000:])
        raise SystemExit(2)
    sys.stderr.write('[native] zerv binary build %.1fs\n' % (time.time() - t0))
    _ZB[0] = os.path.join(tdir, 'debug', 'zerv')
    return _ZB[0]


class Driver:
    def __init__(self, env=None):
        self.p = None
        self.calls = 0
        self.env = env        # extra process environment (C14 replays run the same request in differently configured processes)

    def start(self):
        if self.p is None:
            self.p = subprocess.Popen([BIN], stdin=subprocess.PIPE, stdout=subprocess.PIPE, text=True, bufsize=1,
                                      env=None if self.env is None else dict(os.environ, **self.env))

    def call(self, **req):
        self.start()
        self.calls += 1
        self.p.stdin.write(json.dumps(req) + '\n')
        self.p.stdin.flush()
        line = self.p.stdout.readline()
        if not line:
            self.p = None
            return {'crash': True}
        return json.loads(line)

    def close(self):
        if self.p is not None:
            try:
                self.p.stdin.close()
                self.p.wait(timeout=5)
            except Exception:
                self.p.kill()
            self.p = None


_D = [None]


def driver():
    if _D[0] is None:
        _D[0] = Driver()
    return _D[0]


def cps(s):
    return [ord(c) for c in s]


def uncps(a):
    return ''.join(chr(c) for c in a)
