"""Process environment as nondeterministic input (C14): time zone, environment variables, per-process hasher keys.

A harness that wants to compare two executions standing for two *processes* bumps ENV[0] between them: every
environment read below answers with a solver variable that is private to the current epoch, so the two executions may see
different time zones / variables / hash keys.  The wall clock is shared when SHARED_CLOCK is set (the documented
exception of the property — the dev timestamp — is thereby factored out)."""
import z3

from values import *     # noqa
from models import model, chars_of, REG
import models_chrono as MC
import chars as C

ENV = [0]
SHARED_CLOCK = [False]


def env_sym(I, name, lo, hi):
    w = I.world
    d = w.__dict__.setdefault('_env', {})
    k = (ENV[0], name)
    if k not in d:
        d[k] = w.fresh_int('env%d_%s' % (ENV[0], name), lo, hi)
    return d[k]


def local_offset(I):
    """UTC offset of the process' local time zone in seconds: any whole hour between -12:00 and +14:00 (the Etc/GMT*
    zones, so that a counterexample can be replayed by setting TZ)"""
    h = env_sym(I, 'tz_hours', -12, 14)
    return h * 3600


def is_local(dt):
    return isinstance(dt, Opaque) and dt.kind == 'DateTimeLocal'


def to_local(I, dt):
    dt = peel(dt)
    ts = dt.state[0] if is_local(dt) else dt.state
    return Opaque('DateTimeLocal', (ts, local_offset(I)))


def utc_ts(dt):
    dt = peel(dt)
    return dt.state[0] if is_local(dt) else dt.state


def wall_ts(dt):
    """the instant whose UTC calendar fields are this value's displayed fields"""
    dt = peel(dt)
    return dt.state[0] + dt.state[1] if is_local(dt) else dt.state


_utc_now = REG['Utc::now']


@model('Utc::now')
def _now(I, ci):
    if SHARED_CLOCK[0]:
        w = I.world
        d = w.__dict__.setdefault('_env', {})
        if 'clock' not in d:
            d['clock'] = _utc_now(I, ci)
        return d['clock']
    return _utc_now(I, ci)


@model('Local::now')
def _local_now(I, ci):
    return to_local(I, _now(I, ci))


_with_tz = REG['DateTime::with_timezone']


@model('DateTime::with_timezone')
def _with_timezone(I, ci, dt, *a):
    # the target zone is a zero-sized value: it is named in the instantiation
    if '<Local>' in ci.text or '<chrono::Local>' in ci.text:
        return to_local(I, dt)
    return Opaque('DateTime', utc_ts(dt))


@model('DateTime::naive_utc', 'DateTime::to_utc')
def _naive_utc(I, ci, dt):
    return Opaque('DateTime', utc_ts(dt))


@model('DateTime::naive_local')
def _naive_local(I, ci, dt):
    return Opaque('DateTime', wall_ts(dt))


@model('DateTime::timestamp')
def _timestamp(I, ci, dt):
    return utc_ts(dt)


_format = REG['DateTime::format']


@model('DateTime::format', 'NaiveDateTime::format')
def _fmt(I, ci, dt, fmt):
    dt = peel(dt)
    if is_local(dt):
        dt = Opaque('DateTime', wall_ts(dt))
    return _format(I, ci, dt, fmt)


@model('<TimeZone>::timestamp_opt')
def _timestamp_opt(I, ci, tz, secs, nsecs):
    r = REG['DateTime::from_timestamp'](I, ci, secs, nsecs)
    if r.variant == 0:
        return Opaque('LocalResult', None)
    dt = r.fields[0]
    return Opaque('LocalResult', to_local(I, dt) if ci.selfty == 'Local' else dt)


@model('LocalResult::single', 'LocalResult::earliest', 'LocalResult::latest')
def _lr_single(I, ci, r):
    r = peel(r)
    return none() if r.state is None else some(r.state)


@model('LocalResult::unwrap')
def _lr_unwrap(I, ci, r):
    r = peel(r)
    if r.state is None:
        raise Panic('No such local time')
    return r.state


_from_prev = REG['<From>::from']


@model('<From>::from')
def _dt_from(I, ci, v):
    pv = peel(v)
    if isinstance(pv, Opaque) and pv.kind in ('DateTime', 'DateTimeLocal') and ci.selfty == 'DateTime':
        return to_local(I, pv) if 'Local' in (ci.selfty_full or '') else Opaque('DateTime', utc_ts(pv))
    return _from_prev(I, ci, v)


# ------------------------------------------------------------------ environment variables
@model('env::var', 'var')
def _env_var(I, ci, key):
    w = I.world
    name = ''.join(chr(c) if isinstance(c, int) else '?' for c in chars_of(key))
    d = w.__dict__.setdefault('_env', {})
    k = (ENV[0], 'var', name)
    if k not in d:
        present = w.fresh_int('env%d_has_%s' % (ENV[0], name), 0, 1)
        c = z3.Int('env%d_val_%s' % (ENV[0], name))
        w.assume(z3.And(C.domain(c), c >= 33, c <= 126))        # a value that can be set in a real process environment
        d[k] = (present, c)
    present, c = d[k]
    w.notes.append('environment variable %s read' % name)
    if w.branch(present == 1):
        return ok(StringObj([c]))
    return err(Adt('VarError', 0, []))


# ------------------------------------------------------------------ per-process hasher keys
@model('RandomState::new', '<RandomState as Default>::default')
def _random_state(I, ci):
    w = I.world
    n = w.__dict__.setdefault('_rs_count', [0])
    n[0] += 1
    return Opaque('Hasher', [('i', w.fresh_int('random_state_keys_%d_%d' % (ENV[0], n[0]), 0, 2**64 - 1))])


@model('<BuildHasher>::build_hasher')
def _build_hasher(I, ci, bh):
    b = peel(bh)
    return Opaque('Hasher', list(b.state or []))


@model('<BuildHasher>::hash_one')
def _hash_one(I, ci, bh, v):
    h = _build_hasher(I, ci, bh)
    REG['<Hash>::hash'](I, ci, v, ValPtr(h))
    return REG['<Hasher>::finish'](I, ci, ValPtr(h))


# ------------------------------------------------------------------ iteration order of std hash containers
CUR = [None]       # the interpreter of the running two-environment harness (set by harness/c14.two_envs)


def _hash_order(m):
    """std HashMap / HashSet iterate in an order that depends on the per-process keys: any permutation, private to the
    epoch (forks over the permutations; more than 4 entries are not enumerated)"""
    if ENV[0] == 0 or CUR[0] is None:
        return None
    I = CUR[0]
    w = I.world
    n = len(m.entries)
    if n > 4:
        raise Unsupported('iteration over a std hash container with %d entries under the two-environment harness' % n)
    cnt = w.__dict__.setdefault('_ho_count', [0])
    cnt[0] += 1
    ps = [w.fresh_int('hashorder_%d_%d_%d' % (ENV[0], cnt[0], j), 0, n - 1) for j in range(n)]
    w.assume(z3.Distinct(*ps))
    w.notes.append('iteration over a std hash container: order treated as environment-dependent')
    perm = []
    for j in range(n):
        for i in range(n):
            if i not in perm and w.branch(ps[j] == i):
                perm.append(i)
                break
        else:
            raise Infeasible()
    return perm


import models_iter as _MI
_MI.ORDER_HOOK[0] = _hash_order
