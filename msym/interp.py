"""Forking symbolic interpreter over the MIR AST of mirparse.

Execution is deterministic given a decision prefix (World).  Branches on symbolic conditions ask the
solver; when both sides are feasible the untaken side is recorded as a longer prefix for later replay.
"""
import re
import time
import z3

from values import *          # noqa
import mirparse
from mirparse import split_top, strip_generics

SOLVER_TIMEOUT_MS = 60000
FORKER = [None]
OVERRIDES = {}

RANGES = {'u8': (0, 2**8 - 1), 'u16': (0, 2**16 - 1), 'u32': (0, 2**32 - 1), 'u64': (0, 2**64 - 1),
          'usize': (0, 2**64 - 1), 'u128': (0, 2**128 - 1), 'i8': (-2**7, 2**7 - 1), 'i16': (-2**15, 2**15 - 1),
          'i32': (-2**31, 2**31 - 1), 'i64': (-2**63, 2**63 - 1), 'isize': (-2**63, 2**63 - 1),
          'i128': (-2**127, 2**127 - 1), 'char': (0, 0x10FFFF), 'bool': (0, 1)}


class Stats:
    def __init__(self):
        self.queries = 0
        self.solver_s = 0.0
        self.branches = 0
        self.funcs = {}
        self.models = {}
        self.steps = 0


class World:
    """one path: decision prefix + incremental solver + fresh-variable counter"""

    def __init__(self, prefix=(), stats=None):
        self.prefix = list(prefix)
        self.pos = 0
        self.solver = z3.Solver()
        self.solver.set('timeout', SOLVER_TIMEOUT_MS)
        self.alts = []
        self.model = None
        self.nfresh = 0
        self.stats = stats or Stats()
        self.statics = {}
        self.notes = []
        self.decisions = 0
        self._qcache = {}
        self._keep = []
        self.stdout = []      # chars written by print!/println! on this path (process standard output)
        self.stderr = []
        self.bounds = {}      # z3 ast id of a plain variable -> (lo, hi) asserted at creation / by restrict()

    # -- variables
    def fresh_int(self, tag, lo=None, hi=None):
        self.nfresh += 1
        v = z3.Int('%s!%d' % (tag, self.nfresh))
        if lo is not None:
            self.assume(v >= lo)
        if hi is not None:
            self.assume(v <= hi)
        self.bounds[v.get_id()] = (lo if lo is not None else -(10**40), hi)
        self._keep.append(v)
        return v

    def restrict(self, v, lo, hi):
        """assume lo <= v <= hi for a plain variable and remember it as a syntactic bound"""
        self.assume(z3.And(v >= lo, v <= hi))
        olo, ohi = self.bounds.get(v.get_id(), (lo, hi))
        self.bounds[v.get_id()] = (max(lo, olo), hi if ohi is None else min(hi, ohi))
        self._qcache.clear()

    def fresh_bool(self, tag):
        self.nfresh += 1
        return z3.Bool('%s!%d' % (tag, self.nfresh))

    # -- solver
    def _check(self, *extra):
        t0 = time.time()
        self.stats.queries += 1
        r = self.solver.check(*extra)
        self.stats.solver_s += time.time() - t0
        if r == z3.unknown:
            raise Unsupported('solver unknown: ' + self.solver.reason_unknown())
        return r

    def assume(self, c):
        if c is True:
            return
        if c is False:
            raise Infeasible()
        self.solver.add(c)
        if self.model is not None:
            if not z3.is_true(self.model.eval(c, model_completion=True)):
                self.model = None

    def get_model(self):
        if self.model is None:
            if self._check() != z3.sat:
                raise Infeasible()
            self.model = self.solver.model()
        return self.model

    def feasible(self, c):
        """is path ∧ c satisfiable? (no fork)"""
        if c is True:
            return True
        if c is False:
            return False
        m = self.get_model()
        if z3.is_true(m.eval(c, model_completion=True)):
            return True
        self.solver.push()
        self.solver.add(c)
        r = self._check()
        self.solver.pop()
        return r == z3.sat

    def find(self, c):
        """model of path ∧ c or None"""
        self.solver.push()
        self.solver.add(c)
        r = self._check()
        m = self.solver.model() if r == z3.sat else None
        self.solver.pop()
        return m

    def branch(self, cond):
        """concrete truth value of cond on this path, forking when both are possible."""
        if cond is True or cond is False:
            return cond
        if not isinstance(cond, z3.BoolRef):
            return bool(cond)
        if z3.is_true(cond):
            return True
        if z3.is_false(cond):
            return False
        q = self.quick_bool(cond)
        if q is not None:
            return q
        self.stats.branches += 1
        if self.pos < len(self.prefix):
            d = self.prefix[self.pos]
            self.pos += 1
            if d >= 2:           # only one side was feasible when first explored: implied, nothing to add
                return d == 2
            self.decisions += 1
            c = cond if d else z3.Not(cond)
            self.solver.add(c)
            if self.model is not None and not z3.is_true(self.model.eval(c, model_completion=True)):
                self.model = None
            return bool(d)
        m = self.get_model()
        mv = z3.is_true(m.eval(cond, model_completion=True))
        other = z3.Not(cond) if mv else cond
        self.solver.push()
        self.solver.add(other)
        r = self._check()
        self.solver.pop()
        if r == z3.sat:
            fk = FORKER[0].try_fork() if FORKER[0] is not None else None
            if fk is True:
                # forked child: continue on the other side from here (state is a copy of the parent's)
                self.alts = []
                self.stats.__init__()
                self.prefix.append(0 if mv else 1)
                self.decisions += 1
                self.solver.add(other)
                self.model = None
                self.pos += 1
                return not mv
            if fk is None:
                self.alts.append(self.prefix + [0 if mv else 1])
            self.prefix.append(1 if mv else 0)
            self.decisions += 1
            self.solver.add(cond if mv else z3.Not(cond))
        else:
            self.prefix.append(2 if mv else 3)
        self.pos += 1
        return mv

    # -- interval pre-evaluation from the syntactic bounds of variables (sound, deterministic, no solver)
    def quick_int(self, e):
        """(lo, hi) with None for unbounded"""
        k = e.decl().kind()
        if k == z3.Z3_OP_ANUM:
            v = e.as_long()
            return v, v
        cache = self._qcache
        i = e.get_id()
        r = cache.get(i)
        if r is not None:
            return r[1]
        r = (None, None)
        if k == z3.Z3_OP_UNINTERPRETED and e.num_args() == 0:
            b = self.bounds.get(i)
            if b is not None:
                r = (b[0] if b[0] > -(10**39) else None, b[1])
        elif k == z3.Z3_OP_ADD:
            lo, hi = 0, 0
            for a in e.children():
                l, h = self.quick_int(a)
                lo = None if lo is None or l is None else lo + l
                hi = None if hi is None or h is None else hi + h
            r = (lo, hi)
        elif k == z3.Z3_OP_SUB and e.num_args() == 2:
            (al, ah), (bl, bh) = self.quick_int(e.arg(0)), self.quick_int(e.arg(1))
            r = (None if al is None or bh is None else al - bh, None if ah is None or bl is None else ah - bl)
        elif k == z3.Z3_OP_UMINUS:
            l, h = self.quick_int(e.arg(0))
            r = (None if h is None else -h, None if l is None else -l)
        elif k == z3.Z3_OP_MUL and e.num_args() == 2:
            (al, ah), (bl, bh) = self.quick_int(e.arg(0)), self.quick_int(e.arg(1))
            if None not in (al, ah, bl, bh):
                ps = [al * bl, al * bh, ah * bl, ah * bh]
                r = (min(ps), max(ps))
        elif k == z3.Z3_OP_ITE:
            c = self.quick_bool(e.arg(0))
            if c is True:
                r = self.quick_int(e.arg(1))
            elif c is False:
                r = self.quick_int(e.arg(2))
            else:
                (al, ah), (bl, bh) = self.quick_int(e.arg(1)), self.quick_int(e.arg(2))
                r = (None if al is None or bl is None else min(al, bl), None if ah is None or bh is None else max(ah, bh))
        cache[i] = (e, r)       # keep the AST alive: z3 re-uses ids of freed terms
        return r

    def quick_bool(self, e):
        k = e.decl().kind()
        if k == z3.Z3_OP_TRUE:
            return True
        if k == z3.Z3_OP_FALSE:
            return False
        if k in (z3.Z3_OP_LE, z3.Z3_OP_LT, z3.Z3_OP_GE, z3.Z3_OP_GT, z3.Z3_OP_EQ, z3.Z3_OP_DISTINCT) and e.num_args() == 2:
            a, b = e.arg(0), e.arg(1)
            if not z3.is_int(a):
                if k == z3.Z3_OP_EQ and z3.is_bool(a):
                    x, y = self.quick_bool(a), self.quick_bool(b)
                    if x is not None and y is not None:
                        return x == y
                return None
            (al, ah), (bl, bh) = self.quick_int(a), self.quick_int(b)
            if k in (z3.Z3_OP_GE, z3.Z3_OP_GT):
                (al, ah), (bl, bh) = (bl, bh), (al, ah)
                k = z3.Z3_OP_LE if k == z3.Z3_OP_GE else z3.Z3_OP_LT
            if k == z3.Z3_OP_LE:
                if ah is not None and bl is not None and ah <= bl:
                    return True
                if al is not None and bh is not None and al > bh:
                    return False
                return None
            if k == z3.Z3_OP_LT:
                if ah is not None and bl is not None and ah < bl:
                    return True
                if al is not None and bh is not None and al >= bh:
                    return False
                return None
            disjoint = (ah is not None and bl is not None and ah < bl) or (al is not None and bh is not None and al > bh)
            same = al is not None and al == ah == bl == bh
            if k == z3.Z3_OP_EQ:
                return False if disjoint else (True if same else None)
            return True if disjoint else (False if same else None)
        if k == z3.Z3_OP_NOT:
            r = self.quick_bool(e.arg(0))
            return None if r is None else (not r)
        if k == z3.Z3_OP_AND:
            allt = True
            for a in e.children():
                r = self.quick_bool(a)
                if r is False:
                    return False
                if r is None:
                    allt = False
            return True if allt else None
        if k == z3.Z3_OP_OR:
            allf = True
            for a in e.children():
                r = self.quick_bool(a)
                if r is True:
                    return True
                if r is None:
                    allf = False
            return False if allf else None
        return None

    def _forced(self, cond):
        raise Unsupported('forced decision replay')

    def concretize_int(self, v, choices=None, what='value'):
        """fork over the possible concrete values of v (used for lengths / small enums)."""
        if isinstance(v, int):
            return v
        v = z3.simplify(v)
        if z3.is_int_value(v):
            return v.as_long()
        if choices is None:
            # enumerate through the solver, bounded
            for _ in range(64):
                m = self.get_model()
                k = m.eval(v, model_completion=True).as_long()
                if self.branch(v == k):
                    return k
            raise Unsupported('too many values for ' + what)
        for k in choices:
            if self.branch(v == k):
                return k
        raise Infeasible()


# ---------------------------------------------------------------------------------------------
class CalleeInfo:
    __slots__ = ('text', 'kind', 'selfty', 'selfty_full', 'trait', 'trait_full', 'method', 'path', 'generics', 'key')


_callee_cache = {}


def last_seg(p):
    """last path segment of a type, generics stripped: `std::vec::Vec<T>` -> `Vec`; `&'a str` -> `&str`"""
    p = p.strip()
    refs = ''
    while p.startswith('&') or p.startswith('*'):
        if p.startswith('&'):
            refs += '&'
            p = p[1:].strip()
            p = re.sub(r"^'\w+\s+", '', p)
            if p.startswith('mut '):
                p = p[4:]
        else:
            p = re.sub(r'^\*(const|mut) ', '', p)
    if p.startswith('['):
        return refs + 'slice'
    if p.startswith('('):
        return refs + 'tuple'
    if p.startswith('{closure@'):
        return refs + 'closure'
    if p.startswith('dyn '):
        return refs + 'dyn'
    flat = strip_generics(p)
    segs = [s for s in flat.split('::') if s]
    return refs + (segs[-1] if segs else flat)


def parse_callee(text):
    ci = _callee_cache.get(text)
    if ci is not None:
        return ci
    ci = CalleeInfo()
    ci.text = text
    ci.generics = None
    ci.trait = ci.trait_full = None
    ci.selfty = ci.selfty_full = None
    t = text
    if t.startswith('<'):
        # <T as Trait>::method::<G>   or   <T>::method
        e = match_angle(t, 0)
        inner = t[1:e]
        rest = t[e + 1:]
        k = mirparse.top_find(inner, ' as ', angle=True)
        if k >= 0:
            ci.selfty_full = inner[:k].strip()
            ci.trait_full = inner[k + 4:].strip()
            ci.trait = last_seg(ci.trait_full)
        else:
            ci.selfty_full = inner.strip()
        ci.selfty = last_seg(ci.selfty_full)
        segs = split_path(rest.lstrip(':'))
        ci.method = segs[0] if segs else ''
        ci.path = segs
        ci.kind = 'qualified'
    else:
        segs = split_path(t)
        ci.path = segs
        # drop generic-only segments  `::<T>`
        names = [s for s in segs if not s.startswith('<') or s.startswith('<impl')]
        ci.method = names[-1]
        ci.kind = 'path'
        if len(names) >= 2:
            ty = names[-2]
            m = re.match(r'<impl (.*)>$', ty)
            if m:
                body = m.group(1)
                k = mirparse.top_find(body, ' for ', angle=True)
                if k >= 0:
                    ci.trait_full = body[:k].strip()
                    ci.trait = last_seg(ci.trait_full)
                    ci.selfty_full = body[k + 5:].strip()
                else:
                    ci.selfty_full = body.strip()
                ci.selfty = last_seg(ci.selfty_full)
            else:
                ci.selfty = strip_generics(ty)
                ci.selfty_full = ty
    ci.method = strip_generics(ci.method)
    if ci.trait:
        ci.key = '<%s>::%s' % (ci.trait, ci.method)
    elif ci.selfty:
        ci.key = '%s::%s' % (ci.selfty, ci.method)
    else:
        ci.key = ci.method
    _callee_cache[text] = ci
    return ci


def subst_generics(text, env):
    for k, v in env.items():
        text = re.sub(r'(?<![\w:])%s(?![\w])' % re.escape(k), v, text)
    return text


def type_generic_args(ci):
    """generic arguments written on the self type of a call: `Template::<u32>::render` / `<Template<u32> as Tr>::m`"""
    if ci.kind == 'qualified':
        return [a.strip() for a in generic_args(ci.selfty_full)]
    segs = ci.path
    for k, sg in enumerate(segs):
        if strip_generics(sg) == ci.selfty and k + 1 < len(segs) and segs[k + 1].startswith('<') and not segs[k + 1].startswith('<impl'):
            return [a.strip() for a in split_top(segs[k + 1][1:-1])]
        if sg.startswith(ci.selfty + '<'):
            return [a.strip() for a in generic_args(sg)]
    return []


def match_angle(s, i):
    d = 0
    k = i
    while k < len(s):
        ch = s[k]
        if ch == '<':
            d += 1
        elif ch == '>' and s[k - 1] not in '-=':
            d -= 1
            if d == 0:
                return k
        k += 1
    raise mirparse.ParseError('angle ' + s)


def split_path(t):
    """split a path at top-level `::`"""
    out = []
    d = 0
    cur = []
    i = 0
    n = len(t)
    while i < n:
        ch = t[i]
        if ch in '<([{':
            d += 1
        elif ch in ')]}' or (ch == '>' and t[i - 1] not in '-='):
            d -= 1
        if d == 0 and t.startswith('::', i):
            out.append(''.join(cur))
            cur = []
            i += 2
            continue
        cur.append(ch)
        i += 1
    out.append(''.join(cur))
    return [x for x in out if x]


def generic_args(text):
    """top-level generic args of a type text `Foo<A, B>` -> ['A','B']"""
    k = text.find('<')
    if k < 0:
        return []
    e = match_angle(text, k)
    return split_top(text[k + 1:e])


# ---------------------------------------------------------------------------------------------
class Interp:
    def __init__(self, program, models):
        self.prog = program          # Program (resolve.py)
        self.funcs = program.funcs
        self.models = models         # object with lookup(ci) -> python fn or None
        self.world = None
        self.depth = 0
        self.const_cache = {}
        self.trace = False
        self.max_steps = 5_000_000
        self.genv = [None]         # stack of {generic param name -> concrete type text} for generic impl bodies

    # ------------------------------------------------------------------ places
    def place_ptr(self, frame, p):
        k = p[0]
        if k == 'local':
            return LocalPtr(frame, p[1])
        if k == 'deref':
            v = self.place_ptr(frame, p[1]).load()
            return deref_ptr(v)
        if k == 'field':
            base = self.place_ptr(frame, p[1])
            return FieldPtr(base, p[2])
        if k == 'downcast':
            return self.place_ptr(frame, p[1])
        if k == 'index':
            base = self.place_ptr(frame, p[1])
            i = frame[p[2]]
            if not isinstance(i, int):
                i = self.world.concretize_int(i, what='index')
            return ElemPtr(base, i)
        if k == 'cindex':
            base = self.place_ptr(frame, p[1])
            if p[3]:
                o = base.load()
                n = len(o.items) if isinstance(o, VecObj) else len(o)
                return ElemPtr(base, n - p[2])
            return ElemPtr(base, p[2])
        raise Unsupported('place kind ' + k)

    def load_place(self, frame, p):
        if p[0] == 'local':
            return frame[p[1]]
        return self.place_ptr(frame, p).load()

    # ------------------------------------------------------------------ operands
    def operand(self, frame, o):
        k = o[0]
        if k == 'move':
            return self.load_place(frame, o[1])
        if k == 'copy':
            v = self.load_place(frame, o[1])
            if isinstance(v, Adt) and v.fields and v.name not in ('Box', 'Unique', 'NonNull'):
                return deep_copy(v)
            return v
        if k == 'const':
            return self.const(o[1])
        if k == 'fnitem':
            return FnItem(o[1])
        raise Unsupported('operand ' + k)

    _int_re = re.compile(r'(-?\d+)_(u8|u16|u32|u64|u128|usize|i8|i16|i32|i64|i128|isize)$')

    def const(self, c):
        hit = self.const_cache.get(c)
        if hit is not None:
            return hit[0]
        v, cacheable = self._const(c)
        if cacheable:
            self.const_cache[c] = (v,)
        return v

    def _const(self, c):
        if c == 'true':
            return True, True
        if c == 'false':
            return False, True
        if c == '()':
            return UNIT, True
        m = self._int_re.match(c)
        if m:
            return int(m.group(1)), True
        if c.startswith('"'):
            return Str([ord(ch) for ch in unescape(c[1:-1])]), True
        if c.startswith("'"):
            return ord(unescape(c[1:-1])), True
        if c.startswith('b"'):
            return Bytes(unescape_bytes(c[2:-1])), True
        if c.startswith('ZeroSized: '):
            t = c[len('ZeroSized: '):]
            if t.startswith('{closure@'):
                return Closure(t, []), False
            return FnItem(t), True
        m = re.match(r'\{(alloc\d+)(?:<imm>)?: (.*)\}$', c)
        if m:
            st = self.prog.statics.get(m.group(1))
            if st is None:
                raise Unsupported('anonymous alloc const ' + c)
            return self.static_ref(st), False
        if 'promoted[' in c:
            fn = self.prog.resolve_promoted(c)
            if fn is None:
                raise Unsupported('promoted ' + c)
            return self.run(fn, []), False
        m = re.match(r'(?:core::num::<impl )?(u8|u16|u32|u64|u128|usize|i8|i16|i32|i64|i128|isize)>?::(MIN|MAX)$', c)
        if m:
            return RANGES[m.group(1)][0 if m.group(2) == 'MIN' else 1], True
        if c.startswith('PhantomData') or c == 'std::alloc::Global':
            return Adt(c.split('::')[0], 0, []), True
        if c.endswith('SizedTypeProperties>::SIZE') or c.endswith('SizedTypeProperties>::ALIGN'):
            return 8, True
        if c.endswith('SizedTypeProperties>::IS_ZST'):
            return False, True
        # unit-like enum variant / struct constant:  Path::Variant
        ty, var = mirparse.split_variant(c) if re.match(r'[\w:<>, ]+$', c) else (None, None)
        # named constant with a body in the dump
        fn = self.prog.resolve_const(c)
        if fn is not None:
            return self.run(fn, []), False
        if var is not None:
            idx = self.prog.variant_index(ty, var)
            if idx is not None:
                return Adt(ty, idx, []), False
        mv = self.models.const(self, c)
        if mv is not None:
            return mv, False
        raise Unsupported('const ' + c)

    def static_ref(self, name):
        w = self.world
        cell = w.statics.get(name)
        if cell is None:
            fn = self.prog.resolve_static(name)
            if fn is None:
                raise Unsupported('static ' + name)
            cell = Cell(self.run(fn, []))
            w.statics[name] = cell
        return CellPtr(cell)

    # ------------------------------------------------------------------ rvalues
    def rvalue(self, frame, rv, lty):
        k = rv[0]
        if k == 'use':
            return self.operand(frame, rv[1])
        if k == 'ref' or k == 'rawptr':
            p = rv[1]
            # &(*x) where x is a fat value: keep the fat value
            if p[0] == 'deref':
                inner = self.load_place(frame, p[1])
                if isinstance(inner, (Str, Slice, Bytes)):
                    return inner
                if isinstance(inner, Ptr):
                    return inner
                return deref_ptr(inner)
            return self.place_ptr(frame, p)
        if k == 'discr':
            v = self.load_place(frame, rv[1])
            if isinstance(v, Adt):
                return v.variant
            if isinstance(v, Opaque) and v.kind == 'symenum':
                return v.state
            raise Unsupported('discriminant of %r' % (v,))
        if k == 'binop':
            a = self.operand(frame, rv[2])
            b = self.operand(frame, rv[3])
            return self.binop(rv[1], a, b, lty)
        if k == 'unop':
            a = self.operand(frame, rv[2])
            op = rv[1]
            if op == 'Not':
                if isinstance(a, bool):
                    return not a
                if isinstance(a, z3.BoolRef):
                    return z3.Not(a)
                if isinstance(a, int):
                    lo, hi = RANGES[lty]
                    return hi - a if lo == 0 else ~a
                raise Unsupported('Not on symbolic int')
            if op == 'Neg':
                return -a
            if op == 'PtrMetadata':
                v = peel(a) if not isinstance(a, (Str, Slice, Bytes)) else a
                return seq_len(v)
        if k == 'len':
            return seq_len(self.load_place(frame, rv[1]))
        if k == 'cast':
            v = self.operand(frame, rv[1])
            kind = rv[3]
            if kind == 'IntToInt':
                return self.int_cast(v, rv[2])
            if kind.startswith('PointerCoercion') or kind in ('Transmute', 'PtrToPtr', 'PointerExposeProvenance',
                                                                'PointerWithExposedProvenance', 'FnPtrToPtr'):
                return v
            raise Unsupported('cast ' + kind)
        if k == 'tuple':
            return Adt('tuple', 0, [self.operand(frame, x) for x in rv[1]])
        if k == 'array':
            return VecObj([self.operand(frame, x) for x in rv[1]])
        if k == 'repeat':
            v = self.operand(frame, rv[1])
            n = self.const(rv[2]) if not rv[2].isdigit() else int(rv[2])
            return VecObj([deep_copy(v) for _ in range(n)])
        if k == 'adt':
            ty, var, names, ops = rv[1], rv[2], rv[3], rv[4]
            vals = [self.operand(frame, x) for x in ops]
            if var is None:
                if ty.startswith('__') and not vals:
                    # serde derive: `__Field::__fieldN` / `__Field::__ignore` (field-identifier enum, not in the sources)
                    m = re.match(r'__field(\d+)$', ty)
                    if m:
                        return Adt('__Field', int(m.group(1)), [])
                    if ty == '__ignore':
                        import models_serde
                        return Adt('__Field', models_serde.ignore_index(self, lty), [])
                if names is not None:
                    self.prog.note_fields(ty, names)
                elif ty not in self.prog.fields:
                    bv = self.prog.bare_variant(ty)
                    if bv is not None:
                        return Adt(bv[0], bv[1], vals)
                return Adt(ty, 0, vals)
            idx = self.prog.variant_index(ty, var)
            if idx is None:
                raise Unsupported('unknown enum variant %s::%s' % (ty, var))
            return Adt(ty, idx, vals)
        if k == 'closure':
            return Closure(rv[1], [self.operand(frame, x) for x in rv[2]])
        raise Unsupported('rvalue ' + k)

    def int_cast(self, v, ty):
        if isinstance(v, bool):
            return int(v)
        if isinstance(v, z3.BoolRef):
            return z3.If(v, 1, 0)
        rng = RANGES.get(ty)
        if rng is None:
            raise Unsupported('cast to ' + ty)
        lo, hi = rng
        if isinstance(v, int):
            w = hi - lo + 1
            return (v - lo) % w + lo
        if self.world.branch(z3.And(v >= lo, v <= hi)):
            return v
        w = hi - lo + 1
        return (v - lo) % w + lo

    def binop(self, op, a, b, lty):
        if op in ('Eq', 'Ne'):
            r = eq_scalar(a, b)
            if op == 'Ne':
                r = (not r) if isinstance(r, bool) else z3.Not(r)
            return r
        if op == 'Lt':
            return a < b
        if op == 'Le':
            return a <= b
        if op == 'Gt':
            return a > b
        if op == 'Ge':
            return a >= b
        if op.endswith('WithOverflow'):
            m = re.match(r'\((\w+), bool\)', lty or '')
            lo, hi = RANGES[m.group(1)]
            r = {'Add': a + b, 'Sub': a - b, 'Mul': a * b}[op[:3]]
            if isinstance(r, int):
                ov = not (lo <= r <= hi)
                w = hi - lo + 1
                return Adt('tuple', 0, [(r - lo) % w + lo, ov])
            return Adt('tuple', 0, [r, z3.Or(r < lo, r > hi)])
        if op in ('Add', 'Sub', 'Mul', 'AddUnchecked', 'SubUnchecked', 'MulUnchecked'):
            r = {'Add': lambda: a + b, 'Sub': lambda: a - b, 'Mul': lambda: a * b}[op[:3]]()
            rng = RANGES.get(lty)
            if rng and isinstance(r, int):
                lo, hi = rng
                w = hi - lo + 1
                return (r - lo) % w + lo
            if rng:
                lo, hi = rng
                if not self.world.branch(z3.And(r >= lo, r <= hi)):
                    raise Unsupported('wrapping symbolic arithmetic')
            return r
        if op in ('Div', 'Rem'):
            if isinstance(a, int) and isinstance(b, int):
                q = abs(a) // abs(b)
                if (a < 0) != (b < 0):
                    q = -q
                return q if op == 'Div' else a - q * b
            # non-negative operands only
            if op == 'Div':
                return a / b
            return a % b
        if op in ('BitAnd', 'BitOr', 'BitXor'):
            if isinstance(a, bool) and isinstance(b, bool):
                return {'BitAnd': a and b, 'BitOr': a or b, 'BitXor': a != b}[op]
            if isinstance(a, (bool, z3.BoolRef)) and isinstance(b, (bool, z3.BoolRef)):
                return {'BitAnd': z3.And, 'BitOr': z3.Or, 'BitXor': z3.Xor}[op](a, b)
            if isinstance(a, int) and isinstance(b, int):
                return {'BitAnd': a & b, 'BitOr': a | b, 'BitXor': a ^ b}[op]
            raise Unsupported('bit op on symbolic ints')
        if op in ('Shl', 'Shr', 'ShlUnchecked', 'ShrUnchecked'):
            if isinstance(a, int) and isinstance(b, int):
                if op.startswith('Shl'):
                    lo, hi = RANGES[lty]
                    return ((a << b) - lo) % (hi - lo + 1) + lo
                return a >> b
            raise Unsupported('shift on symbolic ints')
        if op == 'Cmp':
            return ordering(z3.If(a < b, -1, z3.If(a == b, 0, 1))) if (is_sym(a) or is_sym(b)) else ordering(
                (a > b) - (a < b))
        raise Unsupported('binop ' + op)

    # ------------------------------------------------------------------ calls
    def call(self, callee, args):
        """callee: text of the callee path"""
        if callee.startswith(('move ', 'copy ')):
            raise Unsupported('indirect call text')
        env = self.genv[-1]
        if env:
            callee = subst_generics(callee, env)
        ci = parse_callee(callee)
        if ci.trait is None and ci.key in OVERRIDES:
            # functions of the crate whose body only forwards to a library without MIR (documented model boundary)
            return OVERRIDES[ci.key](self, ci, *args)
        fn = self.prog.resolve(ci)
        if fn is not None:
            names = self.prog.impl_generic_names(fn.name)
            sub = None
            if names:
                targs = type_generic_args(ci)
                if targs and len(targs) == len(names) and not all(a == n for a, n in zip(targs, names)):
                    sub = dict(zip(names, targs))
                elif env:
                    sub = {n: env[n] for n in names if n in env} or None
            # method-level type parameters written with a turbofish at the call site
            last = ci.path[-1] if ci.path else ''
            if last.startswith('<') and not last.startswith('<impl'):
                mnames = self.prog.method_generic_names(ci.method)
                margs = [a.strip() for a in split_top(last[1:-1])]
                if mnames and len(mnames) == len(margs) and not all(a == n for a, n in zip(margs, mnames)):
                    sub = dict(sub or {})
                    sub.update(zip(mnames, margs))
            self.genv.append(sub)
            try:
                return self.run(fn, args)
            finally:
                self.genv.pop()
        model = self.models.lookup(self, ci, args)
        if model is not None:
            st = self.world.stats.models
            st[ci.key] = st.get(ci.key, 0) + 1
            return model(self, ci, *args)
        ctor = self.prog.ctor(ci)
        if ctor is not None:
            return Adt(ctor[0], ctor[1], list(args))
        raise Unsupported('call ' + callee)

    def call_value(self, f, args):
        """call a closure / fn item / python callable value with a python list of args"""
        f = peel(f)
        if isinstance(f, Closure):
            fn = self.prog.closure_fn(f.span)
            if fn is None:
                raise Unsupported('closure body ' + f.span)
            selfarg = f
            if fn.params[0][1].startswith('&'):
                selfarg = ValPtr(f)
            return self.run(fn, [selfarg] + list(args))
        if isinstance(f, FnItem):
            return self.call(f.name, list(args))
        if isinstance(f, PyFn):
            return f.fn(*args)
        raise Unsupported('call of %r' % (f,))

    def run(self, fn, args):
        w = self.world
        st = w.stats
        st.funcs[fn.name] = st.funcs.get(fn.name, 0) + 1
        if fn.name in mirparse.AMBIGUOUS:
            raise Unsupported('two different bodies are printed under the name ' + fn.name)
        blocks = fn.parsed()
        nloc = max(fn.locals) + 1 if fn.locals else 1
        frame = [None] * nloc
        for (n, _), a in zip(fn.params, args):
            frame[n] = a
        if len(args) != len(fn.params):
            raise Unsupported('arity mismatch calling %s: %d vs %d' % (fn.name, len(args), len(fn.params)))
        bb = 0
        self.depth += 1
        if self.depth > 200:
            raise Unsupported('recursion depth')
        try:
            while True:
                stmts, t = blocks[bb]
                for s in stmts:
                    if s[0] == 'assign':
                        v = self.rvalue(frame, s[2], s[3])
                        lp = s[1]
                        if lp[0] == 'local':
                            frame[lp[1]] = v
                        else:
                            self.place_ptr(frame, lp).store(v)
                    elif s[0] == 'setdiscr':
                        self.place_ptr(frame, s[1]).load().variant = s[2]
                st.steps += len(stmts) + 1
                if st.steps > self.max_steps:
                    raise Unsupported('step budget exceeded')
                if FORKER[0] is not None and FORKER[0].deadline and (st.steps & 0x3ff) < len(stmts) + 1 and time.time() > FORKER[0].deadline:
                    raise Unsupported('deadline reached inside a path')
                k = t[0]
                if k == 'goto':
                    bb = t[1]
                elif k == 'call':
                    callee = t[2]
                    argv = [self.operand(frame, a) for a in t[3]]
                    if callee.startswith(('move ', 'copy ')):
                        f = self.operand(frame, mirparse.parse_operand(callee))
                        r = self.call_value(f, argv)
                    else:
                        r = self.call(callee, argv)
                    if t[4] is None:
                        raise Panic('diverging call returned: ' + callee)
                    if t[1] is not None:
                        lp = t[1]
                        if lp[0] == 'local':
                            frame[lp[1]] = r
                        else:
                            self.place_ptr(frame, lp).store(r)
                    bb = t[4]
                elif k == 'switch':
                    v = self.operand(frame, t[1])
                    bb = self.switch(v, t[2], t[3])
                elif k == 'return':
                    return frame[0]
                elif k == 'drop':
                    bb = t[2]
                elif k == 'assert':
                    v = self.operand(frame, t[2])
                    c = (not v if isinstance(v, bool) else z3.Not(v)) if t[1] else v
                    if w.branch(c):
                        bb = t[4]
                    else:
                        raise Panic('assert: ' + t[3] + ' in ' + fn.name)
                elif k == 'unreachable':
                    raise Unsupported('reached `unreachable` in ' + fn.name)
                else:
                    raise Unsupported('terminator ' + k)
        finally:
            self.depth -= 1

    def switch(self, v, targets, other):
        w = self.world
        if isinstance(v, bool):
            v = int(v)
        if isinstance(v, int):
            for k, d in targets:
                if v == k or (v < 0 and k == v + 256):
                    return d
            if other is None:
                raise Unsupported('switch fallthrough')
            return other
        if isinstance(v, z3.BoolRef):
            for k, d in targets:
                if w.branch(v if k == 1 else z3.Not(v)):
                    return d
            return other
        for k, d in targets:
            if w.branch(v == k):
                return d
        return other


def seq_len(v):
    if isinstance(v, (Str, StringObj)):
        # byte length of the UTF-8 encoding: needs concrete widths
        n = 0
        for c in v.chars:
            n += utf8_width(c)
        return n
    if isinstance(v, VecObj):
        return len(v.items)
    if isinstance(v, Slice):
        return len(v)
    if isinstance(v, Bytes):
        return len(v.data)
    raise Unsupported('len of %r' % (v,))


# widths of symbolic chars are resolved through a hook installed by the char model (alphabet-aware)
WIDTH_HOOK = [None]


def utf8_width(c):
    if isinstance(c, int):
        return 1 if c < 0x80 else 2 if c < 0x800 else 3 if c < 0x10000 else 4
    return WIDTH_HOOK[0](c)


def eq_scalar(a, b):
    if isinstance(a, bool) and isinstance(b, z3.BoolRef):
        return b if a else z3.Not(b)
    if isinstance(b, bool) and isinstance(a, z3.BoolRef):
        return a if b else z3.Not(a)
    if isinstance(a, Adt) and isinstance(b, Adt):
        return a.variant == b.variant
    return a == b


def unescape(x):
    if '\\' not in x:
        return x
    out = []
    i = 0
    while i < len(x):
        ch = x[i]
        if ch != '\\':
            out.append(ch)
            i += 1
            continue
        n = x[i + 1]
        if n == 'n':
            out.append('\n')
        elif n == 't':
            out.append('\t')
        elif n == 'r':
            out.append('\r')
        elif n == '0':
            out.append('\0')
        elif n == 'u':
            e = x.index('}', i)
            out.append(chr(int(x[i + 3:e], 16)))
            i = e + 1
            continue
        elif n == 'x':
            out.append(chr(int(x[i + 2:i + 4], 16)))
            i += 4
            continue
        else:
            out.append(n)
        i += 2
    return ''.join(out)


def unescape_bytes(x):
    out = bytearray()
    i = 0
    while i < len(x):
        ch = x[i]
        if ch != '\\':
            out += ch.encode('utf-8')
            i += 1
            continue
        n = x[i + 1]
        if n == 'x':
            out.append(int(x[i + 2:i + 4], 16))
            i += 4
            continue
        out += {'n': b'\n', 't': b'\t', 'r': b'\r', '0': b'\0'}.get(n, n.encode())
        i += 2
    return bytes(out)
