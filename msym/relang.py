"""relang — the parser regexes as SMT regular languages (z3 RegLan), unbounded in string length.

The pattern text is read from the MIR constants of the LazyLock initialiser closures, lowered to HIR by the
native helper using the regex-syntax version the repo locks, and translated structurally to z3 `re.*` terms.
"""
import re as pyre
import z3

MAXCP = 0x2FFFF    # z3's character sort


def sv(cps):
    return z3.StringVal(''.join(chr(c) for c in cps))


def ch(cp):
    return z3.StringVal(chr(cp))


def hir_to_re(h, strip_anchors=True):
    """HIR JSON (from the native `hir` op) -> z3 regex for *full match* of an anchored pattern"""
    k = h['k']
    if k == 'concat':
        subs = list(h['subs'])
        if strip_anchors:
            if subs and subs[0]['k'] == 'look' and subs[0]['look'] == 'start':
                subs = subs[1:]
            else:
                raise ValueError('pattern is not anchored at the start')
            if subs and subs[-1]['k'] == 'look' and subs[-1]['look'] == 'end':
                subs = subs[:-1]
            else:
                raise ValueError('pattern is not anchored at the end')
        parts = [hir_to_re(s, False) for s in subs]
        if not parts:
            return z3.Re(z3.StringVal(''))
        return z3.Concat(*parts) if len(parts) > 1 else parts[0]
    if strip_anchors:
        raise ValueError('top-level of pattern is not a concatenation with anchors')
    if k == 'empty':
        return z3.Re(z3.StringVal(''))
    if k == 'lit':
        return z3.Re(sv(h['cps']))
    if k == 'class':
        rs = []
        for a, b in h['ranges']:
            if a > MAXCP:
                continue
            b = min(b, MAXCP)
            rs.append(z3.Range(ch(a), ch(b)))
        if not rs:
            return z3.Empty(z3.ReSort(z3.StringSort()))
        return z3.Union(*rs) if len(rs) > 1 else rs[0]
    if k == 'look':
        raise ValueError('look-around inside the pattern')
    if k == 'rep':
        sub = hir_to_re(h['sub'], False)
        mn, mx = h['min'], h['max']
        if mn == 0 and mx is None:
            return z3.Star(sub)
        if mn == 1 and mx is None:
            return z3.Plus(sub)
        if mn == 0 and mx == 1:
            return z3.Option(sub)
        if mx is None:
            return z3.Concat(z3.Loop(sub, mn, mn), z3.Star(sub))
        return z3.Loop(sub, mn, mx)
    if k == 'cap':
        return hir_to_re(h['sub'], False)
    if k == 'alt':
        return z3.Union(*[hir_to_re(s, False) for s in h['subs']])
    raise ValueError('hir node ' + k)


# ------------------------------------------------------------------ specification languages (ASCII only)
def R(a, b):
    return z3.Range(z3.StringVal(a), z3.StringVal(b))


def L(s):
    return z3.Re(z3.StringVal(s))


def U(*xs):
    return z3.Union(*xs) if len(xs) > 1 else xs[0]


def CC(*xs):
    return z3.Concat(*xs) if len(xs) > 1 else xs[0]


def semver_spec():
    """SemVer 2.0.0 BNF (https://semver.org/#backusnaur-form-grammar-for-valid-semver-versions), optional leading v"""
    digit = R('0', '9')
    posdigit = R('1', '9')
    letter = U(R('a', 'z'), R('A', 'Z'))
    nondigit = U(letter, L('-'))
    identchar = U(digit, nondigit)
    numeric = U(L('0'), CC(posdigit, z3.Star(digit)))
    # alphanumeric identifier: contains at least one non-digit
    alnum_ident = CC(z3.Star(identchar), nondigit, z3.Star(identchar))
    pre_ident = U(alnum_ident, numeric)
    build_ident = z3.Plus(identchar)
    pre = CC(pre_ident, z3.Star(CC(L('.'), pre_ident)))
    build = CC(build_ident, z3.Star(CC(L('.'), build_ident)))
    core = CC(numeric, L('.'), numeric, L('.'), numeric)
    return CC(z3.Option(L('v')), core, z3.Option(CC(L('-'), pre)), z3.Option(CC(L('+'), build)))


SEMVER_PY = pyre.compile(
    r'v?(0|[1-9][0-9]*)\.(0|[1-9][0-9]*)\.(0|[1-9][0-9]*)'
    r'(?:-((?:0|[1-9][0-9]*|[0-9]*[a-zA-Z-][0-9a-zA-Z-]*)(?:\.(?:0|[1-9][0-9]*|[0-9]*[a-zA-Z-][0-9a-zA-Z-]*))*))?'
    r'(?:\+([0-9a-zA-Z-]+(?:\.[0-9a-zA-Z-]+)*))?', pyre.ASCII)


def ci(word):
    """ASCII case-insensitive literal"""
    return CC(*[U(L(c.lower()), L(c.upper())) if c.isalpha() else L(c) for c in word])


def pep440_spec():
    """PEP 440 Appendix B regular expression (ASCII, case-insensitive), without the surrounding \\s*"""
    digits = z3.Plus(R('0', '9'))
    sep = z3.Option(U(L('-'), L('_'), L('.')))
    epoch = z3.Option(CC(digits, L('!')))
    release = CC(digits, z3.Star(CC(L('.'), digits)))
    pre_l = U(*[ci(w) for w in ('alpha', 'a', 'beta', 'b', 'preview', 'pre', 'c', 'rc')])
    pre = z3.Option(CC(sep, pre_l, sep, z3.Option(digits)))
    post = z3.Option(U(CC(L('-'), digits), CC(sep, U(ci('post'), ci('rev'), ci('r')), sep, z3.Option(digits))))
    dev = z3.Option(CC(sep, ci('dev'), sep, z3.Option(digits)))
    lchar = U(R('a', 'z'), R('A', 'Z'), R('0', '9'))
    local = z3.Option(CC(L('+'), z3.Plus(lchar), z3.Star(CC(U(L('-'), L('_'), L('.')), z3.Plus(lchar)))))
    return CC(z3.Option(U(L('v'), L('V'))), epoch, release, pre, post, dev, local)


PEP440_PY = pyre.compile(r'''
    v?
    (?:
        (?:(?P<epoch>[0-9]+)!)?
        (?P<release>[0-9]+(?:\.[0-9]+)*)
        (?P<pre>[-_\.]?(?P<pre_l>alpha|a|beta|b|preview|pre|c|rc)[-_\.]?(?P<pre_n>[0-9]+)?)?
        (?P<post>(?:-(?P<post_n1>[0-9]+))|(?:[-_\.]?(?P<post_l>post|rev|r)[-_\.]?(?P<post_n2>[0-9]+)?))?
        (?P<dev>[-_\.]?(?P<dev_l>dev)[-_\.]?(?P<dev_n>[0-9]+)?)?
    )
    (?:\+(?P<local>[a-z0-9]+(?:[-_\.][a-z0-9]+)*))?
''', pyre.VERBOSE | pyre.IGNORECASE | pyre.ASCII)


def pep440_normal_form():
    """[N!]N(.N)*[{a|b|rc}N][.postN][.devN][+seg(.seg)*] with integers without leading zeros, lower case"""
    num = U(L('0'), CC(R('1', '9'), z3.Star(R('0', '9'))))
    seg = U(num, CC(z3.Star(U(R('a', 'z'), R('0', '9'))), R('a', 'z'), z3.Star(U(R('a', 'z'), R('0', '9')))))
    return CC(z3.Option(CC(CC(R('1', '9'), z3.Star(R('0', '9'))), L('!'))), num, z3.Star(CC(L('.'), num)),
              z3.Option(CC(U(L('a'), L('b'), L('rc')), num)), z3.Option(CC(L('.post'), num)),
              z3.Option(CC(L('.dev'), num)), z3.Option(CC(L('+'), seg, z3.Star(CC(L('.'), seg)))))


# ------------------------------------------------------------------ queries
def difference_witness(ra, rb, timeout_ms=60000, extra=None):
    """a string in L(ra) \\ L(rb), or None when the difference is empty; 'unknown' on solver failure"""
    s = z3.String('s')
    sol = z3.Solver()
    sol.set('timeout', timeout_ms)
    sol.add(z3.InRe(s, ra), z3.Not(z3.InRe(s, rb)))
    if extra is not None:
        sol.add(extra(s))
    r = sol.check()
    if r == z3.unsat:
        return None
    if r == z3.unknown:
        return 'unknown'
    v = sol.model()[s]
    return z3_string_value(v)


def z3_string_value(v):
    txt = v.as_string()
    # z3 escapes non-printable / non-ASCII as \u{XXXX}
    def rep(m):
        return chr(int(m.group(1), 16))
    return pyre.sub(r'\\u\{([0-9a-fA-F]+)\}', rep, txt)


def regex_of_static(I, static_name):
    """force the LazyLock<Regex> static `static_name` in the interpreter and return its RegexObj (pattern + HIR)"""
    import engine
    from values import peel
    from models_std import force_lazy
    w = engine.World([])
    I.world = w
    I.depth = 0
    p = I.static_ref(static_name)
    lz = p.load()
    return peel(force_lazy(I, lz)).state
