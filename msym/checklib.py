"""Shared scaffolding of the per-property checks: tiers, evidence, known findings, replay, exit codes.

exit 0  property held on everything explored (listed known findings are printed as KNOWN-FINDING lines)
exit 1  a violation not listed in known_findings.json was found AND reproduced natively (VIOLATION line)
exit 2  inconclusive: unsupported construct, solver unknown, validation mismatch, non-reproducing model, timeout
"""
import argparse
import json
import os
import random
import sys
import time

import engine
import native
import chars as C

VERIF = engine.VERIF
EVID = os.environ.get('VERIF_EVIDENCE_DIR') or os.path.join(VERIF, 'evidence')   # seeded runs (tools/run_seed.sh) write elsewhere
REPLAYS = os.path.join(VERIF, 'build', 'replays')
KNOWN = os.path.join(VERIF, 'known_findings.json')


def load_known(pid):
    if not os.path.exists(KNOWN):
        return {}, {}
    data = json.load(open(KNOWN))
    known = {}
    fixed = {}
    for e in data.get('findings', []):
        if e['property'] != pid:
            continue
        (known if e['status'] == 'known' else fixed)[e['key']] = e
    return known, fixed


class Check:
    def __init__(self, pid, title, argv=None):
        ap = argparse.ArgumentParser()
        ap.add_argument('--tier', default=os.environ.get('VERIF_TIER', 'quick'))
        ap.add_argument('--replay')
        ap.add_argument('--jobs', type=int, default=0)
        a = ap.parse_args(argv)
        self.pid = pid
        self.title = title
        self.tier = a.tier if a.tier in ('quick', 'thorough') else 'quick'
        self.replay_path = a.replay
        self.jobs = a.jobs or None
        self.seed = int(os.environ.get('VERIF_SEED', '0') or 0)
        self.rng = random.Random(self.seed)
        self.t0 = time.time()
        self.known, self.fixed = load_known(pid)
        self.obligations = []         # per-obligation dicts
        self.violations = {}          # cls -> list of confirmed violation dicts
        self.unconfirmed = []
        self.inconclusive = []        # reasons
        self.validated = 0
        self.validation_mismatch = []
        self.totals = dict(paths=0, decisions=0, queries=0, solver_s=0.0, branches=0, steps=0)
        self.funcs = {}
        self.models = {}
        self.samples = []
        self.bounds = {}
        self.outside = []
        self.assumptions = []
        self.tags = {}
        self.notes = set()
        self.extra = {}

    # ------------------------------------------------------------------ setup
    def setup(self, patterns=None, need_native=True, char_ops=None):
        engine.dump_mir()
        engine.program()
        if need_native:
            native.build()
            self.load_alphabet(patterns or [], char_ops)

    def load_alphabet(self, patterns, char_ops=None):
        req = dict(op='alphabet', patterns=patterns)
        if char_ops is not None:
            req['ops'] = list(char_ops)
            C.DECLARED = set(char_ops)
        r = native.driver().call(**req)
        if 'alphabet' not in r:
            self.fail_inconclusive('native alphabet computation failed: %r' % (r,))
            self.finish()
        path = os.path.join(VERIF, 'build', 'alphabet.json')
        json.dump(r['alphabet'], open(path, 'w'))
        C.load_alphabet(path)
        self.extra['alphabet'] = {'non_ascii_representatives': len(r['alphabet']),
                                  'classes_found_by_scanning_all_code_points': r['classes'],
                                  'char_operations_distinguished': sorted(char_ops) if char_ops else 'all',
                                  'sample': ''.join(chr(e['cp']) for e in r['alphabet'][:24])}

    # ------------------------------------------------------------------ accounting
    def absorb(self, name, ex, bounds=None, expect_tags=()):
        """fold an engine.Exploration into the evidence; returns its candidate violations"""
        ob = dict(name=name, paths=ex.paths, status=dict(ex.status), queries=ex.queries,
                  solver_s=round(ex.solver_s, 3), wall_s=round(ex.wall, 2), tags=dict(ex.tags), bounds=bounds or {})
        self.obligations.append(ob)
        t = self.totals
        t['paths'] += ex.paths
        t['decisions'] += ex.decisions
        t['queries'] += ex.queries
        t['solver_s'] += ex.solver_s
        t['branches'] += ex.branches
        t['steps'] += ex.steps
        for k, v in ex.funcs.items():
            self.funcs[k] = self.funcs.get(k, 0) + v
        for k, v in ex.models.items():
            self.models[k] = self.models.get(k, 0) + v
        for s in ex.samples:
            if len(self.samples) < 16:
                self.samples.append({'obligation': name, 'case': s})
        for k, v in ex.tags.items():
            self.tags[name + ':' + k] = v
        self.notes |= ex.notes
        if ex.unsupported:
            for k, v in list(ex.unsupported.items())[:5]:
                self.inconclusive.append('%s: unsupported on %d path(s): %s' % (name, v, k))
        if ex.incomplete:
            self.inconclusive.append('%s: exploration stopped before the work-list was empty (time/path cap)' % name)
        if ex.paths == 0:
            self.inconclusive.append('%s: no path explored (vacuous)' % name)
        for tg in expect_tags:
            if not any(k == tg or k.startswith(tg) for k in ex.tags):
                self.inconclusive.append('%s: reachability witness missing for outcome class %r (vacuity guard)' % (name, tg))
        return ex.violations

    def fail_inconclusive(self, why):
        self.inconclusive.append(why)

    def confirmed(self, cls, desc, replay):
        """a violation reproduced against the natively compiled real code"""
        self.violations.setdefault(cls, []).append(dict(cls=cls, desc=desc, replay=replay))

    def not_reproduced(self, cls, desc, replay):
        self.unconfirmed.append(dict(cls=cls, desc=desc, replay=replay))

    # ------------------------------------------------------------------ finish
    def finish(self):
        os.makedirs(EVID, exist_ok=True)
        os.makedirs(REPLAYS, exist_ok=True)
        wall = time.time() - self.t0
        new = {k: v for k, v in self.violations.items() if k not in self.known}
        listed = {k: v for k, v in self.violations.items() if k in self.known}
        lines = []
        for k, v in sorted(listed.items()):
            lines.append('KNOWN-FINDING: property=%s %s [%s] e.g. %s' % (self.pid, self.known[k].get('desc', ''), k, v[0]['desc']))
        vio_lines = []
        for i, (k, v) in enumerate(sorted(new.items())):
            path = os.path.join(REPLAYS, '%s-%s-%d.json' % (self.pid, self.tier, i))
            json.dump(dict(property=self.pid, cls=k, examples=v[:5]), open(path, 'w'), indent=1, default=str)
            vio_lines.append('VIOLATION property=%s replay=%s' % (self.pid, path))
            lines.append('  class %s (%d example(s)): %s' % (k, len(v), v[0]['desc']))
        status = 0
        if self.unconfirmed:
            self.inconclusive.append('%d solver counterexample(s) did not reproduce natively (engine/model error), e.g. %s'
                                     % (len(self.unconfirmed), self.unconfirmed[0]['desc']))
        if self.validation_mismatch:
            self.inconclusive.append('differential validation mismatch (msym vs native), e.g. %s' % (self.validation_mismatch[0],))
        if new:
            status = 1
        elif self.inconclusive:
            status = 2
        ev = dict(
            property_id=self.pid, tier=self.tier, seed=self.seed, level='model_checking',
            coverage=dict(
                states=max(self.totals['paths'], 0), transitions=max(self.totals['decisions'], 0),
                traces_validated_against_impl=self.validated,
                samples=self.samples or [{'note': 'no path produced a sample'}],
                exhaustive=not self.inconclusive,
                explanation='states = symbolic paths explored (each covers every input satisfying its path condition); '
                            'transitions = two-sided symbolic branch decisions; every verdict is an SMT query over the '
                            'path condition of the MIR of /repo as compiled on this run',
                obligations=len(self.obligations), discharged=sum(1 for o in self.obligations if not o.get('failed')),
                obligation_details=self.obligations,
                solver=dict(name='z3 ' + engine.z3.get_version_string(), queries=self.totals['queries'],
                            solver_s=round(self.totals['solver_s'], 2), branches=self.totals['branches']),
                mir_statements_executed=self.totals['steps'],
                functions_encoded=sorted(self.funcs, key=lambda k: -self.funcs[k])[:80],
                functions_encoded_count=len(self.funcs),
                models_used=dict(sorted(self.models.items(), key=lambda kv: -kv[1])[:80]),
                bounds=self.bounds, outside_bounds=self.outside, reachability=self.tags,
                known_findings_seen=sorted(listed), new_violation_classes=sorted(new),
                inconclusive=self.inconclusive, notes=sorted(self.notes), **self.extra),
            assumptions=self.assumptions, wall_s=round(wall, 2),
            violations=sum(len(v) for v in new.values()))
        if ev['coverage']['states'] < 1:
            ev['coverage']['states'] = 1
        if ev['coverage']['transitions'] < 1:
            ev['coverage']['transitions'] = 1
        json.dump(ev, open(os.path.join(EVID, self.pid + '.json'), 'w'), indent=1, default=str)
        for ln in lines:
            print(ln)
        for ln in vio_lines:
            print(ln)
        if status == 2:
            for r in self.inconclusive[:10]:
                print('INCONCLUSIVE: ' + r)
        print('[%s %s] paths=%d queries=%d solver=%.1fs wall=%.1fs known=%d new=%d status=%d' % (
            self.pid, self.tier, self.totals['paths'], self.totals['queries'], self.totals['solver_s'], wall,
            len(listed), len(new), status))
        native.driver().close()
        sys.stdout.flush()
        sys.exit(status)
