"""Models of str / String / char."""
import z3

from values import *     # noqa
from models import model, fallback, chars_of, conj, disj, neg, seq_eq_cond, is_stringlike
import chars as C
import interp as _interp


def W(I):
    return I.world


_interp.WIDTH_HOOK[0] = None  # installed by engine.make_interp


# ------------------------------------------------------------------ construction / conversion
@model('<str>::to_string', '<str>::to_owned', 'str::to_string', 'str::to_owned', 'String::from_str',
       'str::into_string')
def _to_string(I, ci, s):
    return StringObj(chars_of(s))


@model('String::new')
def _string_new(I, ci):
    return StringObj()


@model('String::with_capacity')
def _string_cap(I, ci, n):
    return StringObj()


@model('String::as_str', 'String::as_mut_str', 'str::as_str')
def _as_str(I, ci, s):
    return Str(chars_of(s))


@model('String::len', 'str::len')
def _len(I, ci, s):
    t = 0
    for c in chars_of(s):
        t = t + C.width_expr(c)
    return t


@model('String::is_empty', 'str::is_empty')
def _is_empty(I, ci, s):
    return len(chars_of(s)) == 0


@model('String::push')
def _push(I, ci, s, c):
    peel(s).chars.append(c)
    return UNIT


@model('String::push_str')
def _push_str(I, ci, s, t):
    peel(s).chars.extend(chars_of(t))
    return UNIT


@model('String::clear')
def _clear(I, ci, s):
    del peel(s).chars[:]
    return UNIT


@model('String::insert')
def _insert(I, ci, s, idx, c):
    o = peel(s)
    k = byte_to_char_index(I, o.chars, idx)
    o.chars.insert(k, c)
    return UNIT


@model('String::insert_str')
def _insert_str(I, ci, s, idx, t):
    o = peel(s)
    k = byte_to_char_index(I, o.chars, idx)
    o.chars[k:k] = chars_of(t)
    return UNIT


@model('String::pop')
def _pop(I, ci, s):
    o = peel(s)
    if not o.chars:
        return none()
    return some(o.chars.pop())


@model('String::into_boxed_str', 'String::into_bytes')
def _into_boxed(I, ci, s):
    return s


def byte_to_char_index(I, cs, n, what='byte index'):
    """translate a byte offset to a char offset; panics when inside a char / out of range"""
    w = W(I)
    pos = 0
    for k, c in enumerate(cs):
        if w.branch(zb(pos == n)):
            return k
        if w.branch(zb(pos > n)):
            raise Panic('%s is not a char boundary' % what)
        pos = pos + C.width_expr(c)
    if w.branch(zb(pos == n)):
        return len(cs)
    raise Panic('%s is not a char boundary / out of range' % what)


def zb(c):
    return c


@model('String::truncate')
def _truncate(I, ci, s, n):
    o = peel(s)
    w = W(I)
    total = 0
    for c in o.chars:
        total = total + C.width_expr(c)
    if w.branch(n >= total):
        return UNIT
    try:
        k = byte_to_char_index(I, o.chars, n, 'String::truncate new_len')
    except Panic:
        raise Panic('String::truncate: new_len does not lie on a char boundary')
    del o.chars[k:]
    return UNIT


# ------------------------------------------------------------------ case
@model('str::to_lowercase')
def _to_lowercase(I, ci, s):
    out = []
    cs = chars_of(s)
    for i, c in enumerate(cs):
        if isinstance(c, int) and c == 0x3A3:
            raise Unsupported('final sigma rule')
        out.extend(C.to_lower(W(I), c))
    return StringObj(out)


@model('str::to_uppercase')
def _to_uppercase(I, ci, s):
    out = []
    for c in chars_of(s):
        out.extend(C.to_upper(W(I), c))
    return StringObj(out)


@model('str::to_ascii_lowercase')
def _to_ascii_lowercase(I, ci, s):
    return StringObj([C.ascii_lower(c) for c in chars_of(s)])


@model('str::to_ascii_uppercase')
def _to_ascii_uppercase(I, ci, s):
    return StringObj([C.ascii_upper(c) for c in chars_of(s)])


@model('str::eq_ignore_ascii_case')
def _eq_ignore_case(I, ci, a, b):
    return seq_eq_cond([C.ascii_lower(c) for c in chars_of(a)], [C.ascii_lower(c) for c in chars_of(b)])


@model('char::to_ascii_lowercase')
def _c_ascii_lower(I, ci, c):
    return C.ascii_lower(load_ref(c))


@model('char::to_ascii_uppercase')
def _c_ascii_upper(I, ci, c):
    return C.ascii_upper(load_ref(c))


# ------------------------------------------------------------------ char predicates
def _cp(fn):
    def m(I, ci, c):
        return fn(load_ref(c))
    return m


for _k, _f in [('char::is_alphanumeric', C.p_alphanumeric), ('char::is_alphabetic', C.p_alphabetic),
               ('char::is_numeric', C.p_numeric), ('char::is_whitespace', C.p_whitespace),
               ('char::is_ascii_digit', C.p_ascii_digit), ('char::is_ascii_alphanumeric', C.p_ascii_alnum),
               ('char::is_ascii_alphabetic', C.p_ascii_alpha), ('char::is_ascii_uppercase', C.p_ascii_upper),
               ('char::is_ascii_lowercase', C.p_ascii_lower), ('char::is_ascii', C.p_ascii),
               ('char::is_ascii_whitespace', C.p_ascii_whitespace)]:
    model(_k)(_cp(_f))


# u8 methods: the ASCII predicates / case maps act on byte values exactly as on chars below 128 and leave the rest alone
for _k, _f in [('u8::is_ascii_digit', C.p_ascii_digit), ('u8::is_ascii_alphanumeric', C.p_ascii_alnum),
               ('u8::is_ascii_alphabetic', C.p_ascii_alpha), ('u8::is_ascii_uppercase', C.p_ascii_upper),
               ('u8::is_ascii_lowercase', C.p_ascii_lower), ('u8::is_ascii', C.p_ascii),
               ('u8::is_ascii_whitespace', C.p_ascii_whitespace)]:
    model(_k)(_cp(_f))


@model('u8::to_ascii_lowercase')
def _b_ascii_lower(I, ci, c):
    return C.ascii_lower(load_ref(c))


@model('u8::to_ascii_uppercase')
def _b_ascii_upper(I, ci, c):
    return C.ascii_upper(load_ref(c))


@model('u8::eq_ignore_ascii_case')
def _b_eq_ignore(I, ci, a, b):
    return C.ascii_lower(load_ref(a)) == C.ascii_lower(load_ref(b))


@model('char::is_digit')
def _is_digit(I, ci, c, radix):
    if radix != 10:
        raise Unsupported('is_digit radix')
    return C.p_ascii_digit(load_ref(c))


@model('char::to_digit')
def _to_digit(I, ci, c, radix):
    if radix != 10:
        raise Unsupported('to_digit radix')
    c = load_ref(c)
    if W(I).branch(C.p_ascii_digit(c)):
        return some(c - 48)
    return none()


@model('char::len_utf8')
def _len_utf8(I, ci, c):
    return C.width(W(I), c)


@model('<char>::to_string', 'char::to_string')
def _char_to_string(I, ci, c):
    return StringObj([load_ref(c)])


@model('String::from')
def _string_from(I, ci, v):
    pv = peel(v)
    if isinstance(pv, (int, z3.ExprRef)):
        return StringObj([pv])
    return StringObj(chars_of(v))


# ------------------------------------------------------------------ patterns
class Pat:
    """a str Pattern: fixed char list, or a per-char predicate"""

    def __init__(self, I, p):
        p0 = p
        p = peel(p)
        self.I = I
        self.seq = None
        self.pred = None
        if isinstance(p, (Str, StringObj)):
            self.seq = list(p.chars)
        elif isinstance(p, (int, z3.ArithRef)):
            self.seq = [p]
        elif isinstance(p, (Closure, FnItem, PyFn)):
            self.pred = lambda c: I.call_value(p, [c])
        elif isinstance(p, (VecObj, Slice)):
            alts = p.items if isinstance(p, VecObj) else p.items()
            self.pred = lambda c: disj([c == a for a in alts])
        else:
            raise Unsupported('pattern %r' % (p0,))

    def match_at(self, cs, i):
        """(condition, length) for a match starting at char index i (condition may be symbolic)"""
        if self.seq is not None:
            n = len(self.seq)
            if i + n > len(cs):
                return False, n
            return conj([cs[i + k] == self.seq[k] if not (isinstance(cs[i + k], int) and isinstance(self.seq[k], int))
                         else cs[i + k] == self.seq[k] for k in range(n)]), n
        if i >= len(cs):
            return False, 1
        return self.pred(cs[i]), 1


def find_first(I, cs, pat, start=0):
    """leftmost match at or after start: returns (index, length) or None; forks"""
    w = W(I)
    if pat.seq is not None and len(pat.seq) == 0:
        return start, 0
    for i in range(start, len(cs)):
        c, n = pat.match_at(cs, i)
        if w.branch(c):
            return i, n
    return None


def find_last(I, cs, pat, end=None):
    w = W(I)
    end = len(cs) if end is None else end
    if pat.seq is not None and len(pat.seq) == 0:
        return end, 0
    n = len(pat.seq) if pat.seq is not None else 1
    for i in range(end - n, -1, -1):
        c, n2 = pat.match_at(cs, i)
        if w.branch(c):
            return i, n2
    return None


@model('str::trim_start_matches')
def _trim_start_matches(I, ci, s, p):
    cs = chars_of(s)
    pat = Pat(I, p)
    i = 0
    while True:
        c, n = pat.match_at(cs, i)
        if n == 0 or not W(I).branch(c):
            break
        i += n
    return Str(cs[i:])


@model('str::trim_end_matches')
def _trim_end_matches(I, ci, s, p):
    cs = chars_of(s)
    pat = Pat(I, p)
    n = len(pat.seq) if pat.seq is not None else 1
    e = len(cs)
    while n > 0 and e - n >= 0:
        c, _ = pat.match_at(cs[:e], e - n)
        if not W(I).branch(c):
            break
        e -= n
    return Str(cs[:e])


@model('str::trim_matches')
def _trim_matches(I, ci, s, p):
    return _trim_end_matches(I, ci, _trim_start_matches(I, ci, s, p), p)


def _trim_pred(I, cs, pred, start=True, end=True):
    w = W(I)
    i = 0
    e = len(cs)
    if start:
        while i < e and w.branch(pred(cs[i])):
            i += 1
    if end:
        while e > i and w.branch(pred(cs[e - 1])):
            e -= 1
    return Str(cs[i:e])


@model('str::trim')
def _trim(I, ci, s):
    return _trim_pred(I, chars_of(s), C.p_whitespace)


@model('str::trim_start')
def _trim_start(I, ci, s):
    return _trim_pred(I, chars_of(s), C.p_whitespace, end=False)


@model('str::trim_end')
def _trim_end(I, ci, s):
    return _trim_pred(I, chars_of(s), C.p_whitespace, start=False)


@model('str::starts_with')
def _starts_with(I, ci, s, p):
    c, n = Pat(I, p).match_at(chars_of(s), 0)
    return c


@model('str::ends_with')
def _ends_with(I, ci, s, p):
    cs = chars_of(s)
    pat = Pat(I, p)
    n = len(pat.seq) if pat.seq is not None else 1
    if n > len(cs):
        return False
    c, _ = pat.match_at(cs, len(cs) - n)
    return c


@model('str::strip_prefix')
def _strip_prefix(I, ci, s, p):
    cs = chars_of(s)
    c, n = Pat(I, p).match_at(cs, 0)
    if W(I).branch(c):
        return some(Str(cs[n:]))
    return none()


@model('str::strip_suffix')
def _strip_suffix(I, ci, s, p):
    cs = chars_of(s)
    pat = Pat(I, p)
    n = len(pat.seq) if pat.seq is not None else 1
    if n > len(cs):
        return none()
    c, _ = pat.match_at(cs, len(cs) - n)
    if W(I).branch(c):
        return some(Str(cs[:len(cs) - n]))
    return none()


@model('str::contains')
def _contains(I, ci, s, p):
    cs = chars_of(s)
    pat = Pat(I, p)
    if pat.seq is not None and len(pat.seq) == 0:
        return True
    n = len(pat.seq) if pat.seq is not None else 1
    return disj([pat.match_at(cs, i)[0] for i in range(0, len(cs) - n + 1)])


def char_to_byte(I, cs, k):
    t = 0
    for c in cs[:k]:
        t = t + C.width_expr(c)
    return t


@model('str::find')
def _find(I, ci, s, p):
    cs = chars_of(s)
    r = find_first(I, cs, Pat(I, p))
    if r is None:
        return none()
    return some(char_to_byte(I, cs, r[0]))


@model('str::rfind')
def _rfind(I, ci, s, p):
    cs = chars_of(s)
    r = find_last(I, cs, Pat(I, p))
    if r is None:
        return none()
    return some(char_to_byte(I, cs, r[0]))


@model('str::split_once')
def _split_once(I, ci, s, p):
    cs = chars_of(s)
    r = find_first(I, cs, Pat(I, p))
    if r is None:
        return none()
    return some(Tuple(Str(cs[:r[0]]), Str(cs[r[0] + r[1]:])))


@model('str::rsplit_once')
def _rsplit_once(I, ci, s, p):
    cs = chars_of(s)
    r = find_last(I, cs, Pat(I, p))
    if r is None:
        return none()
    return some(Tuple(Str(cs[:r[0]]), Str(cs[r[0] + r[1]:])))


def split_all(I, cs, pat, limit=None):
    """eager split into list of char lists (std::str::Split semantics)"""
    out = []
    start = 0
    pos = 0
    while True:
        if limit is not None and len(out) == limit - 1:
            break
        if pat.seq is not None and len(pat.seq) == 0:
            raise Unsupported('split on empty pattern')
        r = find_first(I, cs, pat, pos)
        if r is None:
            break
        out.append(cs[start:r[0]])
        start = pos = r[0] + r[1]
    out.append(cs[start:])
    return out


@model('str::replace')
def _replace(I, ci, s, p, to):
    cs = chars_of(s)
    parts = split_all(I, cs, Pat(I, p))
    t = chars_of(to)
    out = []
    for k, part in enumerate(parts):
        if k:
            out.extend(t)
        out.extend(part)
    return StringObj(out)


@model('str::replacen')
def _replacen(I, ci, s, p, to, n):
    cs = chars_of(s)
    parts = split_all(I, cs, Pat(I, p), limit=n + 1)
    t = chars_of(to)
    out = []
    for k, part in enumerate(parts):
        if k:
            out.extend(t)
        out.extend(part)
    return StringObj(out)


@model('str::repeat')
def _repeat(I, ci, s, n):
    n = W(I).concretize_int(n, what='repeat count')
    return StringObj(chars_of(s) * n)


@model('str::is_char_boundary')
def _is_char_boundary(I, ci, s, n):
    cs = chars_of(s)
    pos = 0
    conds = []
    for c in cs:
        conds.append(pos == n)
        pos = pos + C.width_expr(c)
    conds.append(pos == n)
    from models import disj
    return disj(conds)


def slice_bytes(I, cs, a, b):
    """&s[a..b] with byte offsets; None means open end"""
    i = 0 if a is None else byte_to_char_index(I, cs, a, 'str slice start')
    j = len(cs) if b is None else byte_to_char_index(I, cs, b, 'str slice end')
    if i > j:
        raise Panic('str slice start > end')
    return cs[i:j]


def range_bounds(r):
    r = peel(r)
    if not isinstance(r, Adt):
        raise Unsupported('range %r' % (r,))
    if r.name == 'Range':
        return r.fields[0], r.fields[1]
    if r.name == 'RangeTo':
        return None, r.fields[0]
    if r.name == 'RangeFrom':
        return r.fields[0], None
    if r.name == 'RangeFull':
        return None, None
    if r.name == 'RangeInclusive':
        return r.fields[0], r.fields[1] + 1
    if r.name == 'RangeToInclusive':
        return None, r.fields[0] + 1
    raise Unsupported('range %r' % (r,))


@model('str::get')
def _str_get(I, ci, s, r):
    cs = chars_of(s)
    a, b = range_bounds(r)
    try:
        return some(Str(slice_bytes(I, cs, a, b)))
    except Panic:
        return none()


@model('str::as_bytes', 'String::as_bytes')
def _as_bytes(I, ci, s):
    cs = chars_of(s)
    out = []
    for c in cs:
        if W(I).branch(C.p_ascii(c)):
            out.append(c)
        else:
            c = C.concretize_nonascii(W(I), c) if not isinstance(c, int) else c
            out.extend(chr(c).encode('utf-8'))
    return Slice(out)


@model('str::chars')
def _chars(I, ci, s):
    from models_iter import ListIter
    return ListIter(chars_of(s), kind='Chars')


@model('str::char_indices')
def _char_indices(I, ci, s):
    from models_iter import ListIter
    cs = chars_of(s)
    out = []
    pos = 0
    for c in cs:
        out.append(Tuple(pos, c))
        pos = pos + C.width_expr(c)
    return ListIter(out, kind='CharIndices')


@model('str::bytes')
def _bytes(I, ci, s):
    from models_iter import ListIter
    return ListIter(_as_bytes(I, ci, s).items(), kind='Bytes')


@model('str::split', 'str::split_terminator')
def _split(I, ci, s, p):
    from models_iter import LazySplit
    return LazySplit(I, chars_of(s), Pat(I, p))


@model('str::splitn')
def _splitn(I, ci, s, n, p):
    from models_iter import ListIter
    return ListIter([Str(x) for x in split_all(I, chars_of(s), Pat(I, p), limit=n)], kind='SplitN')


@model('str::rsplit')
def _rsplit(I, ci, s, p):
    from models_iter import ListIter
    return ListIter([Str(x) for x in reversed(split_all(I, chars_of(s), Pat(I, p)))], kind='RSplit')


@model('str::split_whitespace')
def _split_ws(I, ci, s):
    from models_iter import ListIter
    cs = chars_of(s)
    out = []
    cur = []
    for c in cs:
        if W(I).branch(C.p_whitespace(c)):
            if cur:
                out.append(Str(cur))
            cur = []
        else:
            cur.append(c)
    if cur:
        out.append(Str(cur))
    return ListIter(out, kind='SplitWhitespace')


@model('str::lines')
def _lines(I, ci, s):
    from models_iter import ListIter
    parts = split_all(I, chars_of(s), Pat(I, 10))
    if parts and not parts[-1]:
        parts.pop()
    out = []
    for p in parts:
        if p and W(I).branch(p[-1] == 13):
            p = p[:-1]
        out.append(Str(p))
    return ListIter(out, kind='Lines')


# ------------------------------------------------------------------ comparison
def str_cmp(I, a, b):
    """lexicographic by code point (= byte order of UTF-8) -> Ordering with possibly symbolic variant"""
    n = min(len(a), len(b))
    tail = (len(a) > len(b)) - (len(a) < len(b))
    sym = any(not isinstance(x, int) for x in a[:n] + b[:n])
    if not sym:
        for x, y in zip(a, b):
            if x != y:
                return ordering(-1 if x < y else 1)
        return ordering(tail)
    e = tail
    for x, y in reversed(list(zip(a[:n], b[:n]))):
        e = z3.If(x < y, -1, z3.If(x > y, 1, e))
    return ordering(e)


@model('str::cmp', '<str>::cmp', '<String>::cmp')
def _str_cmp(I, ci, a, b):
    return str_cmp(I, chars_of(a), chars_of(b))


@model('<str>::partial_cmp', '<String>::partial_cmp')
def _str_partial_cmp(I, ci, a, b):
    return some(str_cmp(I, chars_of(a), chars_of(b)))
