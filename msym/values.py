"""Runtime values of the symbolic MIR interpreter."""
import z3


class Panic(Exception):
    """the executed Rust code panics on this path (message = panic payload as far as known)."""


class Unsupported(Exception):
    """the path reached something the engine has no semantics for: the run is inconclusive."""


class Infeasible(Exception):
    """path condition became unsatisfiable (pruned)."""


class PathAbort(Exception):
    """harness-requested end of path (e.g. assume(False))."""


def is_sym(x):
    return isinstance(x, z3.ExprRef)


class Adt:
    """struct / enum / tuple value.  variant is the discriminant (int, or a z3 Int for field-less enums)."""
    __slots__ = ('name', 'variant', 'fields')

    def __init__(self, name, variant, fields):
        self.name = name
        self.variant = variant
        self.fields = fields

    def __repr__(self):
        return '%s#%s%r' % (self.name, self.variant, self.fields)


def Tuple(*xs):
    return Adt('tuple', 0, list(xs))


UNIT = Adt('tuple', 0, [])


def none():
    return Adt('Option', 0, [])


def some(x):
    return Adt('Option', 1, [x])


def ok(x):
    return Adt('Result', 0, [x])


def err(x):
    return Adt('Result', 1, [x])


def ordering(v):
    return Adt('Ordering', v, [])


class StringObj:
    """an owned std::string::String: list of chars (int code point or z3 Int)."""
    __slots__ = ('chars',)

    def __init__(self, chars=()):
        self.chars = list(chars)

    def __repr__(self):
        return 'String(%s)' % show_chars(self.chars)


class Str:
    """a &str value (immutable)."""
    __slots__ = ('chars',)

    def __init__(self, chars=()):
        self.chars = tuple(chars)

    def __repr__(self):
        return 'str(%s)' % show_chars(self.chars)


def show_chars(cs):
    out = []
    for c in cs:
        if isinstance(c, int):
            out.append(chr(c))
        else:
            out.append('<%s>' % c)
    return repr(''.join(out))


def mkstr(s):
    return Str([ord(c) for c in s])


def mkstring(s):
    return StringObj([ord(c) for c in s])


class VecObj:
    """Vec<T> / array / boxed slice storage."""
    __slots__ = ('items',)

    def __init__(self, items=()):
        self.items = list(items)

    def __repr__(self):
        return 'Vec%r' % (self.items,)


class Slice:
    """&[T] view of a backing python list"""
    __slots__ = ('back', 'lo', 'hi')

    def __init__(self, back, lo=0, hi=None):
        self.back = back
        self.lo = lo
        self.hi = len(back) if hi is None else hi

    def items(self):
        return self.back[self.lo:self.hi]

    def __len__(self):
        return self.hi - self.lo

    def __repr__(self):
        return 'slice%r' % (self.items(),)


class Bytes:
    """b"..." literal (used by format templates)."""
    __slots__ = ('data',)

    def __init__(self, data):
        self.data = data


class Closure:
    __slots__ = ('span', 'fields')

    def __init__(self, span, fields):
        self.span = span
        self.fields = fields

    def __repr__(self):
        return 'closure@%s' % self.span


class FnItem:
    __slots__ = ('name',)

    def __init__(self, name):
        self.name = name

    def __repr__(self):
        return 'fn(%s)' % self.name


class PyFn:
    """a python callable standing for a Rust closure/fn (used by models and harnesses)."""
    __slots__ = ('fn',)

    def __init__(self, fn):
        self.fn = fn


# ------------------------------------------------------------------ pointers
class Ptr:
    __slots__ = ()


class Cell:
    __slots__ = ('v',)

    def __init__(self, v=None):
        self.v = v


class CellPtr(Ptr):
    __slots__ = ('cell',)

    def __init__(self, cell):
        self.cell = cell

    def load(self):
        return self.cell.v

    def store(self, v):
        self.cell.v = v

    def __repr__(self):
        return '&%r' % (self.cell.v,)


class LocalPtr(Ptr):
    __slots__ = ('frame', 'n')

    def __init__(self, frame, n):
        self.frame = frame
        self.n = n

    def load(self):
        return self.frame[self.n]

    def store(self, v):
        self.frame[self.n] = v

    def __repr__(self):
        return '&_%d' % self.n


class FieldPtr(Ptr):
    __slots__ = ('base', 'idx')

    def __init__(self, base, idx):
        self.base = base
        self.idx = idx

    def load(self):
        o = self.base.load()
        try:
            return o.fields[self.idx]
        except AttributeError:
            raise Unsupported('field %d of %r' % (self.idx, o))

    def store(self, v):
        self.base.load().fields[self.idx] = v

    def __repr__(self):
        return '&(%r).%d' % (self.base, self.idx)


class ElemPtr(Ptr):
    __slots__ = ('base', 'idx')

    def __init__(self, base, idx):
        self.base = base
        self.idx = idx

    def _seq(self):
        o = self.base.load()
        if isinstance(o, VecObj):
            return o.items, 0
        if isinstance(o, Slice):
            return o.back, o.lo
        raise Unsupported('index into %r' % (o,))

    def load(self):
        l, off = self._seq()
        return l[off + self.idx]

    def store(self, v):
        l, off = self._seq()
        l[off + self.idx] = v


class ValPtr(Ptr):
    """pointer to an immutable temporary (fat pointers deref to themselves)."""
    __slots__ = ('v',)

    def __init__(self, v):
        self.v = v

    def load(self):
        return self.v

    def store(self, v):
        self.v = v


def deref_ptr(p):
    """value of pointer-ish type -> Ptr to the pointee"""
    while isinstance(p, Adt) and p.name in ('Box', 'Unique', 'NonNull', 'Rc', 'Arc'):
        p = p.fields[0]
    if isinstance(p, Ptr):
        return p
    return ValPtr(p)


def load_ref(v):
    """strip one level of reference if v is a pointer"""
    if isinstance(v, Ptr):
        return v.load()
    if isinstance(v, Adt) and v.name in ('Box', 'Unique', 'NonNull'):
        return deref_ptr(v).load()
    return v


def peel(v):
    """strip all reference levels"""
    while True:
        if isinstance(v, Ptr):
            v = v.load()
        elif isinstance(v, Adt) and v.name in ('Box', 'Unique', 'NonNull'):
            v = deref_ptr(v).load()
        else:
            return v


def box(v):
    return Adt('Box', 0, [CellPtr(Cell(v))])


def deep_copy(v):
    """Clone / Copy semantics for owned data (pointers are copied as pointers)."""
    if isinstance(v, Adt):
        if v.name == 'Box':
            return box(deep_copy(deref_ptr(v).load()))
        return Adt(v.name, v.variant, [deep_copy(f) for f in v.fields])
    if isinstance(v, StringObj):
        return StringObj(v.chars)
    if isinstance(v, VecObj):
        return VecObj([deep_copy(x) for x in v.items])
    if isinstance(v, MapObj):
        return MapObj([(deep_copy(k), deep_copy(x)) for k, x in v.entries], v.kind)
    return v


class MapObj:
    """IndexMap / HashMap / HashSet / BTreeMap: ordered association list (keys compared structurally)."""
    __slots__ = ('entries', 'kind')

    def __init__(self, entries=(), kind='IndexMap'):
        self.entries = list(entries)
        self.kind = kind

    def __repr__(self):
        return '%s%r' % (self.kind, self.entries)


class LazyObj:
    __slots__ = ('init', 'value')

    def __init__(self, init):
        self.init = init
        self.value = None


class Opaque:
    """a foreign object with python-side state (regex, iterator models, formatter ...)"""
    __slots__ = ('kind', 'state')

    def __init__(self, kind, state=None):
        self.kind = kind
        self.state = state

    def __repr__(self):
        return '<%s>' % self.kind
