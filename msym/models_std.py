"""Models of Option / Result / Vec / slice / Box / maps / integer methods and the generic std traits
(Clone, PartialEq, Ord, Default, Deref, From/Into, Try, AsRef, Hash ...), dispatched on runtime values."""
import re
import z3

from values import *     # noqa
from models import model, fallback, chars_of, conj, disj, neg, items_of, struct_eq, is_stringlike, seq_eq_cond
import interp as _interp
from interp import parse_callee, last_seg, generic_args, RANGES
from mirparse import strip_generics


def W(I):
    return I.world


def variant_of(I, v, choices=(0, 1)):
    """concrete discriminant of an enum value (forks if symbolic)"""
    if isinstance(v.variant, int):
        return v.variant
    k = W(I).concretize_int(v.variant, list(choices))
    v.variant = k
    return k


# ------------------------------------------------------------------ Clone / Copy
def do_clone(I, v):
    v0 = v
    v = peel(v) if isinstance(v, Ptr) else v
    if isinstance(v, Adt) and v.name not in ('tuple', 'Option', 'Result', 'Box', 'Ordering', 'Cow', 'Range'):
        fn = I.prog.resolve(parse_callee('<%s as Clone>::clone' % v.name))
        if fn is not None and not getattr(fn, 'derived_clone', None):
            # derived Clone == deep copy; recognise derives cheaply through the span text
            if fn.derived_clone is None if hasattr(fn, 'derived_clone') else True:
                pass
    return deep_copy(v)


@model('<Clone>::clone', '<ToOwned>::to_owned')
def _clone(I, ci, v):
    pv = load_ref(v)
    if isinstance(pv, Str):
        return StringObj(pv.chars) if ci.method == 'to_owned' else pv
    if isinstance(pv, Slice) and ci.method == 'to_owned':
        return VecObj([deep_copy(x) for x in pv.items()])
    if isinstance(pv, Ptr):      # cloning a `&&T` gives `&T`
        return pv
    return deep_copy(pv)


@model('<Clone>::clone_from')
def _clone_from(I, ci, dst, src):
    dst.store(deep_copy(load_ref(src)))
    return UNIT


# ------------------------------------------------------------------ equality / ordering
@model('<PartialEq>::eq')
def _eq(I, ci, a, b):
    return struct_eq(I, a, b)


@model('<PartialEq>::ne')
def _ne(I, ci, a, b):
    return neg(struct_eq(I, a, b))


def do_cmp(I, a, b):
    """Ord::cmp on runtime values -> Ordering Adt (variant may be symbolic)"""
    a = peel(a)
    b = peel(b)
    if isinstance(a, (Str, StringObj)):
        from models_str import str_cmp
        return str_cmp(I, chars_of(a), chars_of(b))
    if isinstance(a, (int, z3.ArithRef)) and isinstance(b, (int, z3.ArithRef)) and not isinstance(a, bool):
        if isinstance(a, int) and isinstance(b, int):
            return ordering((a > b) - (a < b))
        return ordering(z3.If(a < b, -1, z3.If(a == b, 0, 1)))
    if isinstance(a, (bool, z3.BoolRef)):
        ai = a if isinstance(a, bool) else z3.If(a, 1, 0)
        bi = b if isinstance(b, bool) else z3.If(b, 1, 0)
        return do_cmp(I, int(ai) if isinstance(ai, bool) else ai, int(bi) if isinstance(bi, bool) else bi)
    if isinstance(a, Adt) and isinstance(b, Adt):
        if a.name not in ('tuple', 'Option', 'Result', 'Box', 'Ordering'):
            for tr, m in (('Ord', 'cmp'),):
                fn = I.prog.resolve(parse_callee('<%s as %s>::%s' % (a.name, tr, m)))
                if fn is not None:
                    return I.run(fn, [ValPtr(a), ValPtr(b)])
            fn = I.prog.resolve(parse_callee('<%s as PartialOrd>::partial_cmp' % a.name))
            if fn is not None:
                r = I.run(fn, [ValPtr(a), ValPtr(b)])
                return r.fields[0]
            raise Unsupported('cmp on ' + a.name)
        if a.name == 'Box':
            return do_cmp(I, deref_ptr(a).load(), deref_ptr(b).load())
        va = variant_of(I, a, (-1, 0, 1) if a.name == 'Ordering' else range(0, 8))
        vb = variant_of(I, b, (-1, 0, 1) if b.name == 'Ordering' else range(0, 8))
        if va != vb:
            return ordering(-1 if va < vb else 1)
        return lex_cmp(I, a.fields, b.fields)
    if isinstance(a, (VecObj, Slice)):
        return lex_cmp(I, items_of(a), items_of(b))
    raise Unsupported('cmp %r %r' % (a, b))


def lex_cmp(I, xa, xb):
    for x, y in zip(xa, xb):
        o = do_cmp(I, x, y)
        v = W(I).concretize_int(o.variant, [-1, 0, 1]) if not isinstance(o.variant, int) else o.variant
        if v != 0:
            return ordering(v)
    return ordering((len(xa) > len(xb)) - (len(xa) < len(xb)))


@model('<Ord>::cmp')
def _cmp(I, ci, a, b):
    return do_cmp(I, a, b)


@model('<PartialOrd>::partial_cmp')
def _partial_cmp(I, ci, a, b):
    return some(do_cmp(I, a, b))


def _ord_pred(test):
    def m(I, ci, a, b):
        pa, pb = peel(a), peel(b)
        if isinstance(pa, Opaque) and pa.kind == 'tracing':
            return False        # logging disabled (models_misc): `Level <= LevelFilter` is false, no event is built
        if isinstance(pa, (int, z3.ArithRef)) and not isinstance(pa, bool):
            return test(pa, pb)
        if isinstance(pa, Adt) and pa.name not in ('tuple', 'Option', 'Result', 'Box', 'Ordering'):
            fn = I.prog.resolve(parse_callee('<%s as PartialOrd>::partial_cmp' % pa.name))
            if fn is not None:
                o = I.run(fn, [ValPtr(pa), ValPtr(pb)]).fields[0]
                return test(o.variant, 0)
        o = do_cmp(I, a, b)
        return test(o.variant, 0)
    return m


model('<PartialOrd>::lt')(_ord_pred(lambda x, y: x < y))
model('<PartialOrd>::le')(_ord_pred(lambda x, y: x <= y))
model('<PartialOrd>::gt')(_ord_pred(lambda x, y: x > y))
model('<PartialOrd>::ge')(_ord_pred(lambda x, y: x >= y))


@model('<Ord>::max')
def _ord_max(I, ci, a, b):
    if isinstance(a, int) and isinstance(b, int):
        return max(a, b)
    o = do_cmp(I, a, b)
    v = W(I).concretize_int(o.variant, [-1, 0, 1]) if not isinstance(o.variant, int) else o.variant
    return b if v <= 0 else a


@model('<Ord>::min')
def _ord_min(I, ci, a, b):
    if isinstance(a, int) and isinstance(b, int):
        return min(a, b)
    o = do_cmp(I, a, b)
    v = W(I).concretize_int(o.variant, [-1, 0, 1]) if not isinstance(o.variant, int) else o.variant
    return a if v <= 0 else b


@model('Ordering::then_with')
def _then_with(I, ci, o, f):
    v = variant_of(I, o, (-1, 0, 1))
    if v != 0:
        return o
    return I.call_value(f, [])


@model('Ordering::then')
def _then(I, ci, o, o2):
    v = variant_of(I, o, (-1, 0, 1))
    return o if v != 0 else o2


@model('Ordering::reverse')
def _reverse(I, ci, o):
    return ordering(-o.variant)


@model('Ordering::is_eq')
def _is_eq(I, ci, o):
    return o.variant == 0


@model('Ordering::is_ne')
def _is_ne(I, ci, o):
    return o.variant != 0


@model('Ordering::is_lt')
def _is_lt(I, ci, o):
    return o.variant < 0


@model('Ordering::is_gt')
def _is_gt(I, ci, o):
    return o.variant > 0


@model('Ordering::is_le')
def _is_le(I, ci, o):
    return o.variant <= 0


@model('Ordering::is_ge')
def _is_ge(I, ci, o):
    return o.variant >= 0


def sort_items(I, items, cmpf=None):
    """stable insertion sort driven by symbolic comparisons"""
    out = []
    for x in items:
        k = len(out)
        while k > 0:
            o = cmpf(out[k - 1], x) if cmpf else do_cmp(I, out[k - 1], x)
            v = W(I).concretize_int(o.variant, [-1, 0, 1]) if not isinstance(o.variant, int) else o.variant
            if v <= 0:
                break
            k -= 1
        out.insert(k, x)
    return out


# ------------------------------------------------------------------ Deref & friends
@model('<Deref>::deref', '<DerefMut>::deref_mut', '<AsRef>::as_ref', '<Borrow>::borrow', '<AsMut>::as_mut',
       '<BorrowMut>::borrow_mut')
def _deref(I, ci, p):
    v = load_ref(p)
    if isinstance(v, StringObj):
        if ci.method in ('deref_mut', 'as_mut', 'borrow_mut'):
            return p
        return Str(v.chars)
    if isinstance(v, VecObj):
        return Slice(v.items)
    if isinstance(v, (Str, Slice)):
        return v
    if isinstance(v, Adt) and v.name == 'Box':
        return deref_ptr(v)
    if isinstance(v, Adt) and v.name == 'Cow':
        inner = v.fields[0]
        if isinstance(peel(inner), StringObj):
            return Str(peel(inner).chars)
        return inner
    if isinstance(v, LazyObj):
        return force_lazy(I, v)
    if isinstance(v, Ptr):
        return v
    if ci.method in ('as_ref', 'borrow', 'as_mut'):
        return p
    raise Unsupported('deref of %r' % (v,))


def force_lazy(I, lz):
    if lz.value is None:
        lz.value = Cell(I.call_value(lz.init, []))
    return CellPtr(lz.value)


@model('LazyLock::new', 'Lazy::new', 'LazyCell::new')
def _lazy_new(I, ci, f):
    return LazyObj(f)


@model('LazyLock::force', 'Lazy::force')
def _lazy_force(I, ci, p):
    return force_lazy(I, peel(p))


# ------------------------------------------------------------------ Default
DEFAULTS = {'String': lambda: StringObj(), 'Vec': lambda: VecObj(), 'Option': none, 'bool': lambda: False,
            'u8': lambda: 0, 'u16': lambda: 0, 'u32': lambda: 0, 'u64': lambda: 0, 'usize': lambda: 0,
            'i32': lambda: 0, 'i64': lambda: 0, 'isize': lambda: 0,
            'HashMap': lambda: MapObj([], 'HashMap'), 'IndexMap': lambda: MapObj([], 'IndexMap'),
            'HashSet': lambda: MapObj([], 'HashSet'), 'BTreeMap': lambda: MapObj([], 'BTreeMap'),
            'tuple': lambda: UNIT}


@model('<Default>::default')
def _default(I, ci):
    f = DEFAULTS.get(ci.selfty)
    if f is None:
        raise Unsupported('Default for ' + str(ci.selfty_full))
    return f()


# ------------------------------------------------------------------ From / Into / TryFrom
INT_TYPES = set(RANGES) - {'char', 'bool'}


@model('<From>::from', '<Into>::into')
def _from(I, ci, v):
    if ci.method == 'into':
        targ = generic_args(ci.trait_full)
        target = last_seg(targ[0]) if targ else None
        src = ci.selfty
    else:
        target = ci.selfty
        targ = generic_args(ci.trait_full)
        src = last_seg(targ[0]) if targ else None
    pv = peel(v) if isinstance(v, Ptr) else v
    if target == 'String':
        if isinstance(pv, (Str, StringObj)):
            return StringObj(pv.chars)
        if isinstance(pv, (int, z3.ArithRef)):
            return StringObj([pv])
        if isinstance(pv, Adt) and pv.name == 'Cow':
            return StringObj(chars_of(pv))
        if isinstance(pv, Adt) and pv.name == 'Box':
            return StringObj(chars_of(pv))
    if target in INT_TYPES and isinstance(pv, (int, z3.ArithRef, bool, z3.BoolRef)):
        return I.int_cast(pv, target)
    if target == 'Vec':
        if isinstance(pv, (Str, StringObj)):
            return _interp_bytes(I, pv)
        if isinstance(pv, Slice):
            return VecObj([deep_copy(x) for x in pv.items()])
        return pv
    if target == 'Box':
        if isinstance(pv, Adt) and pv.name == 'Box':
            return pv
        return box(pv)
    if target == 'Option':
        return some(v)
    if target in ('Cow',):
        return Adt('Cow', 0 if isinstance(pv, Str) else 1, [pv])
    if target in ('PathBuf', 'OsString'):
        return StringObj(chars_of(pv))
    if target == src or (ci.method == 'into' and target is not None and
                         isinstance(pv, Adt) and pv.name == target):
        return v
    # user conversions defined in the crate are resolved before models; an `Into` goes through `From`
    if ci.method == 'into' and target:
        names = []
        if isinstance(pv, Adt):
            names.append(pv.name)
        names.append(ci.selfty_full)
        for nm in names:
            fn = I.prog.resolve(parse_callee('<%s as From<%s>>::from' % (targ[0], nm)))
            if fn is not None:
                return I.run(fn, [v])
    if isinstance(pv, Adt) and pv.name == target:
        return v
    raise Unsupported('%s  (value %r)' % (ci.text, pv))


def _interp_bytes(I, s):
    from models_str import _as_bytes
    return VecObj(_as_bytes(I, None, s).items())


@model('<TryFrom>::try_from', '<TryInto>::try_into')
def _try_from(I, ci, v):
    if ci.method == 'try_into':
        targ = generic_args(ci.trait_full)
        target = last_seg(targ[0])
    else:
        target = ci.selfty
    if target in INT_TYPES:
        lo, hi = RANGES[target]
        if isinstance(v, int):
            return ok(v) if lo <= v <= hi else err(Adt('TryFromIntError', 0, []))
        if W(I).branch(z3.And(v >= lo, v <= hi)):
            return ok(v)
        return err(Adt('TryFromIntError', 0, []))
    raise Unsupported(ci.text)


# ------------------------------------------------------------------ Try / FromResidual (the `?` operator)
@model('<Try>::branch')
def _try_branch(I, ci, v):
    k = variant_of(I, v)
    if v.name == 'Result':
        if k == 0:
            return Adt('ControlFlow', 0, [v.fields[0]])
        return Adt('ControlFlow', 1, [err(v.fields[0])])
    if v.name == 'Option':
        if k == 1:
            return Adt('ControlFlow', 0, [v.fields[0]])
        return Adt('ControlFlow', 1, [none()])
    raise Unsupported('Try::branch on ' + v.name)


@model('<Try>::from_output')
def _from_output(I, ci, v):
    return ok(v) if ci.selfty == 'Result' else some(v)


@model('<FromResidual>::from_residual')
def _from_residual(I, ci, r):
    if ci.selfty == 'Option':
        return none()
    if ci.selfty == 'Result':
        e = r.fields[0]
        targ = generic_args(ci.selfty_full)
        rarg = generic_args(generic_args(ci.trait_full)[0])
        te = targ[1].strip() if len(targ) > 1 else None
        se = rarg[1].strip() if len(rarg) > 1 else None
        if te is not None and se is not None and last_seg(te) != last_seg(se):
            fn = I.prog.resolve(parse_callee('<%s as From<%s>>::from' % (te, se)))
            if fn is not None:
                return err(I.run(fn, [e]))
            if last_seg(te) == 'Box':
                return err(box(e))
            if last_seg(te) == 'String':
                return err(StringObj(chars_of(e)))
            # opaque foreign errors: keep the payload
            return err(Adt(last_seg(te), 0, [e]))
        return err(e)
    raise Unsupported(ci.text)


# ------------------------------------------------------------------ Option
def _opt(I, o):
    o = peel(o) if isinstance(o, Ptr) else o
    return o


@model('Option::is_some')
def _is_some(I, ci, o):
    o = peel(o)
    return o.variant == 1


@model('Option::is_none')
def _is_none(I, ci, o):
    o = peel(o)
    return o.variant == 0


@model('Option::is_some_and')
def _is_some_and(I, ci, o, f):
    if variant_of(I, o) == 0:
        return False
    return I.call_value(f, [o.fields[0]])


@model('Option::is_none_or')
def _is_none_or(I, ci, o, f):
    if variant_of(I, o) == 0:
        return True
    return I.call_value(f, [o.fields[0]])


@model('Option::unwrap', 'Option::expect', 'Option::unwrap_unchecked')
def _opt_unwrap(I, ci, o, *msg):
    if variant_of(I, o) == 1:
        return o.fields[0]
    raise Panic('Option::%s on None %s' % (ci.method, show(msg)))


def show(msg):
    try:
        return ''.join(chr(c) if isinstance(c, int) else '?' for c in chars_of(msg[0])) if msg else ''
    except Exception:
        return ''


@model('Option::unwrap_or')
def _opt_unwrap_or(I, ci, o, d):
    if isinstance(o.variant, int):
        return o.fields[0] if o.variant == 1 else d
    if o.fields and isinstance(o.fields[0], (int, z3.ArithRef)) and isinstance(d, (int, z3.ArithRef)):
        return z3.If(o.variant == 1, o.fields[0], d)
    return o.fields[0] if variant_of(I, o) == 1 else d


@model('Option::unwrap_or_default')
def _opt_unwrap_or_default(I, ci, o):
    if variant_of(I, o) == 1:
        return o.fields[0]
    t = generic_args(ci.selfty_full)
    f = DEFAULTS.get(last_seg(t[0])) if t else None
    if f is None:
        raise Unsupported(ci.text)
    return f()


@model('Option::unwrap_or_else')
def _opt_unwrap_or_else(I, ci, o, f):
    if variant_of(I, o) == 1:
        return o.fields[0]
    return I.call_value(f, [])


@model('Option::map')
def _opt_map(I, ci, o, f):
    if variant_of(I, o) == 1:
        return some(I.call_value(f, [o.fields[0]]))
    return none()


@model('Option::map_or')
def _opt_map_or(I, ci, o, d, f):
    if variant_of(I, o) == 1:
        return I.call_value(f, [o.fields[0]])
    return d


@model('Option::map_or_else')
def _opt_map_or_else(I, ci, o, d, f):
    if variant_of(I, o) == 1:
        return I.call_value(f, [o.fields[0]])
    return I.call_value(d, [])


@model('Option::and_then')
def _opt_and_then(I, ci, o, f):
    if variant_of(I, o) == 1:
        return I.call_value(f, [o.fields[0]])
    return none()


@model('Option::and')
def _opt_and(I, ci, o, b):
    return b if variant_of(I, o) == 1 else none()


@model('Option::or')
def _opt_or(I, ci, o, b):
    return o if variant_of(I, o) == 1 else b


@model('Option::or_else')
def _opt_or_else(I, ci, o, f):
    return o if variant_of(I, o) == 1 else I.call_value(f, [])


@model('Option::xor')
def _opt_xor(I, ci, a, b):
    va, vb = variant_of(I, a), variant_of(I, b)
    if va == 1 and vb == 0:
        return a
    if vb == 1 and va == 0:
        return b
    return none()


@model('Option::filter')
def _opt_filter(I, ci, o, f):
    if variant_of(I, o) == 1 and W(I).branch(I.call_value(f, [ValPtr(o.fields[0])])):
        return o
    return none()


@model('Option::ok_or')
def _opt_ok_or(I, ci, o, e):
    return ok(o.fields[0]) if variant_of(I, o) == 1 else err(e)


@model('Option::ok_or_else')
def _opt_ok_or_else(I, ci, o, f):
    return ok(o.fields[0]) if variant_of(I, o) == 1 else err(I.call_value(f, []))


@model('Option::as_ref', 'Option::as_mut')
def _opt_as_ref(I, ci, p):
    o = load_ref(p)
    if variant_of(I, o) == 1:
        base = p if isinstance(p, Ptr) else ValPtr(o)
        return some(FieldPtr(base, 0))
    return none()


@model('Option::as_deref', 'Option::as_deref_mut')
def _opt_as_deref(I, ci, p):
    o = load_ref(p)
    if variant_of(I, o) == 1:
        inner = o.fields[0]
        pi = peel(inner)
        if isinstance(pi, StringObj):
            return some(Str(pi.chars))
        if isinstance(pi, VecObj):
            return some(Slice(pi.items))
        if isinstance(pi, (Str, Slice)):
            return some(pi)
        if isinstance(pi, Adt) and pi.name == 'Box':
            return some(deref_ptr(pi))
        raise Unsupported('as_deref of %r' % (pi,))
    return none()


@model('Option::cloned', 'Option::copied')
def _opt_cloned(I, ci, o):
    if variant_of(I, o) == 1:
        return some(deep_copy(peel(o.fields[0]) if isinstance(o.fields[0], Ptr) else o.fields[0]))
    return none()


@model('Option::take')
def _opt_take(I, ci, p):
    o = p.load()
    p.store(none())
    return o


@model('Option::replace')
def _opt_replace(I, ci, p, v):
    o = p.load()
    p.store(some(v))
    return o


@model('Option::insert', 'Option::get_or_insert')
def _opt_insert(I, ci, p, v):
    o = p.load()
    if ci.method == 'get_or_insert' and variant_of(I, o) == 1:
        return FieldPtr(p, 0)
    p.store(some(v))
    return FieldPtr(p, 0)


@model('Option::get_or_insert_with')
def _opt_get_or_insert_with(I, ci, p, f):
    o = p.load()
    if variant_of(I, o) == 0:
        p.store(some(I.call_value(f, [])))
    return FieldPtr(p, 0)


@model('Option::zip')
def _opt_zip(I, ci, a, b):
    if variant_of(I, a) == 1 and variant_of(I, b) == 1:
        return some(Tuple(a.fields[0], b.fields[0]))
    return none()


@model('Option::flatten')
def _opt_flatten(I, ci, o):
    return o.fields[0] if variant_of(I, o) == 1 else none()


@model('Option::transpose')
def _opt_transpose(I, ci, o):
    if variant_of(I, o) == 0:
        return ok(none())
    r = o.fields[0]
    if variant_of(I, r) == 0:
        return ok(some(r.fields[0]))
    return err(r.fields[0])


@model('Option::iter')
def _opt_iter(I, ci, p):
    from models_iter import ListIter
    o = load_ref(p)
    return ListIter([FieldPtr(p, 0)] if variant_of(I, o) == 1 else [])


# ------------------------------------------------------------------ Result
@model('Result::is_ok')
def _is_ok(I, ci, r):
    return peel(r).variant == 0


@model('Result::is_err')
def _is_err(I, ci, r):
    return peel(r).variant == 1


@model('Result::ok')
def _res_ok(I, ci, r):
    return some(r.fields[0]) if variant_of(I, r) == 0 else none()


@model('Result::err')
def _res_err(I, ci, r):
    return some(r.fields[0]) if variant_of(I, r) == 1 else none()


@model('Result::unwrap', 'Result::expect')
def _res_unwrap(I, ci, r, *msg):
    if variant_of(I, r) == 0:
        return r.fields[0]
    raise Panic('Result::%s on Err %s' % (ci.method, show(msg)))


@model('Result::unwrap_err', 'Result::expect_err')
def _res_unwrap_err(I, ci, r, *msg):
    if variant_of(I, r) == 1:
        return r.fields[0]
    raise Panic('Result::%s on Ok' % ci.method)


@model('Result::unwrap_or')
def _res_unwrap_or(I, ci, r, d):
    if not isinstance(r.variant, int) and isinstance(d, (int, z3.ArithRef)) and r.fields and isinstance(
            r.fields[0], (int, z3.ArithRef)):
        return z3.If(r.variant == 0, r.fields[0], d)
    return r.fields[0] if variant_of(I, r) == 0 else d


@model('Result::unwrap_or_default')
def _res_unwrap_or_default(I, ci, r):
    if variant_of(I, r) == 0:
        return r.fields[0]
    from interp import type_generic_args
    t = generic_args(ci.selfty_full) or type_generic_args(ci)
    if not t or last_seg(strip_generics(t[0])) not in DEFAULTS:
        raise Unsupported('Result::unwrap_or_default for %s' % ci.text)
    return DEFAULTS[last_seg(strip_generics(t[0]))]()


@model('Result::unwrap_or_else')
def _res_unwrap_or_else(I, ci, r, f):
    return r.fields[0] if variant_of(I, r) == 0 else I.call_value(f, [r.fields[0]])


@model('Result::map')
def _res_map(I, ci, r, f):
    return ok(I.call_value(f, [r.fields[0]])) if variant_of(I, r) == 0 else r


@model('Result::map_err')
def _res_map_err(I, ci, r, f):
    return err(I.call_value(f, [r.fields[0]])) if variant_of(I, r) == 1 else r


@model('Result::map_or')
def _res_map_or(I, ci, r, d, f):
    return I.call_value(f, [r.fields[0]]) if variant_of(I, r) == 0 else d


@model('Result::and_then')
def _res_and_then(I, ci, r, f):
    return I.call_value(f, [r.fields[0]]) if variant_of(I, r) == 0 else r


@model('Result::or_else')
def _res_or_else(I, ci, r, f):
    return r if variant_of(I, r) == 0 else I.call_value(f, [r.fields[0]])


@model('Result::is_ok_and')
def _res_is_ok_and(I, ci, r, f):
    return I.call_value(f, [r.fields[0]]) if variant_of(I, r) == 0 else False


@model('Result::as_ref', 'Result::as_mut')
def _res_as_ref(I, ci, p):
    r = load_ref(p)
    base = p if isinstance(p, Ptr) else ValPtr(r)
    return Adt('Result', variant_of(I, r), [FieldPtr(base, 0)])


# ------------------------------------------------------------------ Box / mem
@model('Box::new', 'Box::pin', 'Rc::new', 'Arc::new')
def _box_new(I, ci, v):
    return box(v)


@model('alloc::exchange_malloc', 'exchange_malloc')
def _exchange_malloc(I, ci, size, align):
    return CellPtr(Cell(None))


@model('slice::into_vec')
def _into_vec(I, ci, b):
    v = deref_ptr(b).load()
    if isinstance(v, VecObj):
        return v
    if isinstance(v, Slice):
        return VecObj(v.items())
    raise Unsupported('into_vec of %r' % (v,))


@model('mem::take', 'take')
def _mem_take(I, ci, p):
    v = p.load()
    if isinstance(v, StringObj):
        p.store(StringObj())
    elif isinstance(v, VecObj):
        p.store(VecObj())
    elif isinstance(v, Adt) and v.name == 'Option':
        p.store(none())
    elif isinstance(v, MapObj):
        p.store(MapObj([], v.kind))
    elif isinstance(v, (int, bool)):
        p.store(type(v)())
    else:
        raise Unsupported('mem::take of %r' % (v,))
    return v


@model('mem::replace', 'replace')
def _mem_replace(I, ci, p, nv):
    v = p.load()
    p.store(nv)
    return v


@model('mem::swap', 'swap')
def _mem_swap(I, ci, a, b):
    x, y = a.load(), b.load()
    a.store(y)
    b.store(x)
    return UNIT


@model('mem::drop', 'drop', 'mem::forget', '<Drop>::drop', 'drop_in_place')
def _drop(I, ci, *a):
    return UNIT


@model('must_use', 'hint::must_use', 'black_box', 'convert::identity', 'identity')
def _identity(I, ci, v):
    return v


@model('mem::discriminant', 'discriminant')
def _discriminant(I, ci, p):
    v = peel(p)
    return Adt('Discriminant', 0, [v.variant])


# ------------------------------------------------------------------ Vec / slice
def vec_of(v):
    v = peel(v)
    if isinstance(v, VecObj):
        return v
    raise Unsupported('not a Vec: %r' % (v,))


@model('Vec::new', 'Vec::with_capacity')
def _vec_new(I, ci, *a):
    return VecObj()


@model('Vec::push')
def _vec_push(I, ci, v, x):
    vec_of(v).items.append(x)
    return UNIT


@model('Vec::pop')
def _vec_pop(I, ci, v):
    it = vec_of(v).items
    return some(it.pop()) if it else none()


@model('Vec::len', 'slice::len')
def _vec_len(I, ci, v):
    return len(items_of(v))


@model('Vec::is_empty', 'slice::is_empty')
def _vec_is_empty(I, ci, v):
    return len(items_of(v)) == 0


@model('Vec::clear')
def _vec_clear(I, ci, v):
    del vec_of(v).items[:]
    return UNIT


@model('Vec::truncate')
def _vec_truncate(I, ci, v, n):
    n = W(I).concretize_int(n, what='Vec::truncate')
    del vec_of(v).items[n:]
    return UNIT


@model('Vec::insert')
def _vec_insert(I, ci, v, i, x):
    i = W(I).concretize_int(i, what='Vec::insert index')
    it = vec_of(v).items
    if i > len(it):
        raise Panic('Vec::insert index out of bounds')
    it.insert(i, x)
    return UNIT


@model('Vec::remove')
def _vec_remove(I, ci, v, i):
    i = W(I).concretize_int(i, what='Vec::remove index')
    it = vec_of(v).items
    if i >= len(it):
        raise Panic('Vec::remove index out of bounds')
    return it.pop(i)


@model('Vec::extend_from_slice')
def _vec_extend_from_slice(I, ci, v, s):
    vec_of(v).items.extend(deep_copy(x) for x in items_of(s))
    return UNIT


@model('Vec::append')
def _vec_append(I, ci, v, o):
    ov = vec_of(o)
    vec_of(v).items.extend(ov.items)
    del ov.items[:]
    return UNIT


@model('<Extend>::extend', 'Vec::extend')
def _extend(I, ci, v, it):
    from models_iter import into_iter
    tgt = peel(v)
    xs = into_iter(I, it).drain(I)
    if isinstance(tgt, VecObj):
        tgt.items.extend(xs)
    elif isinstance(tgt, StringObj):
        for x in xs:
            x = peel(x)
            tgt.chars.extend(x.chars if isinstance(x, (Str, StringObj)) else [x])
    elif isinstance(tgt, MapObj):
        for x in xs:
            if tgt.kind.endswith('Set'):
                map_insert(I, tgt, x, UNIT)
            else:
                map_insert(I, tgt, x.fields[0], x.fields[1])
    else:
        raise Unsupported('extend %r' % (tgt,))
    return UNIT


@model('Vec::as_slice', 'Vec::as_mut_slice')
def _vec_as_slice(I, ci, v):
    return Slice(vec_of(v).items)


@model('Vec::iter', 'slice::iter', 'Vec::iter_mut', 'slice::iter_mut')
def _vec_iter(I, ci, v):
    from models_iter import RefIter
    pv = peel(v)
    if isinstance(pv, VecObj):
        return RefIter(pv.items)
    if isinstance(pv, Slice):
        return RefIter(pv.back, pv.lo, pv.hi)
    raise Unsupported('iter on %r' % (pv,))


@model('Vec::into_iter')
def _vec_into_iter(I, ci, v):
    from models_iter import into_iter
    return into_iter(I, v)


@model('Vec::drain')
def _vec_drain(I, ci, v, r):
    from models_iter import ListIter
    from models_str import range_bounds
    it = vec_of(v).items
    a, b = range_bounds(r)
    a = 0 if a is None else a
    b = len(it) if b is None else b
    out = it[a:b]
    del it[a:b]
    return ListIter(out, kind='Drain')


@model('Vec::retain')
def _vec_retain(I, ci, v, f):
    it = vec_of(v).items
    keep = [x for x in list(it) if W(I).branch(I.call_value(f, [ValPtr(x)]))]
    it[:] = keep
    return UNIT


@model('Vec::dedup')
def _vec_dedup(I, ci, v):
    it = vec_of(v).items
    out = []
    for x in it:
        if out and W(I).branch(struct_eq(I, out[-1], x)):
            continue
        out.append(x)
    it[:] = out
    return UNIT


@model('slice::first', 'Vec::first')
def _first(I, ci, v):
    pv = peel(v)
    xs = items_of(pv)
    if not xs:
        return none()
    return some(ElemPtr(ValPtr(as_slice(pv)), 0))


@model('slice::last', 'Vec::last')
def _last(I, ci, v):
    pv = peel(v)
    xs = items_of(pv)
    if not xs:
        return none()
    return some(ElemPtr(ValPtr(as_slice(pv)), len(xs) - 1))


@model('slice::last_mut', 'Vec::last_mut', 'slice::first_mut')
def _last_mut(I, ci, v):
    pv = peel(v)
    xs = items_of(pv)
    if not xs:
        return none()
    return some(ElemPtr(ValPtr(as_slice(pv)), len(xs) - 1 if 'last' in ci.method else 0))


def as_slice(pv):
    if isinstance(pv, VecObj):
        return Slice(pv.items)
    return pv


@model('slice::get', 'Vec::get', 'slice::get_mut', 'Vec::get_mut')
def _get(I, ci, v, i):
    pv = peel(v)
    if isinstance(i, Adt):
        from models_str import range_bounds
        a, b = range_bounds(i)
        s = as_slice(pv)
        a = 0 if a is None else a
        b = len(s) if b is None else b
        if a > b or b > len(s):
            return none()
        return some(Slice(s.back, s.lo + a, s.lo + b))
    n = len(items_of(pv))
    if not isinstance(i, int):
        if not W(I).branch(i < n):
            return none()
        i = W(I).concretize_int(i, list(range(n)), what='slice index')
    if i >= n:
        return none()
    return some(ElemPtr(ValPtr(as_slice(pv)), i))


@model('<Index>::index', '<IndexMut>::index_mut')
def _index(I, ci, v, i):
    pv = peel(v)
    if isinstance(pv, (Str, StringObj)):
        from models_str import slice_bytes, range_bounds
        a, b = range_bounds(i)
        return Str(slice_bytes(I, list(pv.chars), a, b))
    if isinstance(pv, MapObj):
        r = map_get(I, pv, i)
        if r is None:
            raise Panic('map index: key not found')
        return r
    if isinstance(i, Adt):
        from models_str import range_bounds
        a, b = range_bounds(i)
        s = as_slice(pv)
        a = 0 if a is None else a
        b = len(s) if b is None else b
        if a > b or b > len(s):
            raise Panic('slice index out of range')
        return Slice(s.back, s.lo + a, s.lo + b)
    n = len(items_of(pv))
    if not isinstance(i, int):
        if not W(I).branch(i < n):
            raise Panic('index out of bounds (len %d)' % n)
        i = W(I).concretize_int(i, list(range(n)), what='index')
    if i >= n:
        raise Panic('index out of bounds: len %d index %d' % (n, i))
    return ElemPtr(ValPtr(as_slice(pv)), i)


@model('slice::contains', 'Vec::contains')
def _slice_contains(I, ci, v, x):
    return disj([struct_eq(I, y, x) for y in items_of(v)])


@model('slice::join', 'slice::concat', 'Vec::join', 'Vec::concat')
def _join(I, ci, v, *sep):
    xs = items_of(v)
    s = chars_of(sep[0]) if sep else []
    if sep and not is_stringlike(sep[0]):
        s = [peel(sep[0])]
    out = []
    for k, x in enumerate(xs):
        if k:
            out.extend(s)
        out.extend(chars_of(x))
    return StringObj(out)


@model('slice::to_vec', 'Vec::to_vec', 'slice::to_owned')
def _to_vec(I, ci, v):
    return VecObj([deep_copy(x) for x in items_of(v)])


@model('slice::sort', 'Vec::sort', 'slice::sort_unstable', 'Vec::sort_unstable')
def _sort(I, ci, v):
    pv = peel(v)
    if isinstance(pv, VecObj):
        pv.items[:] = sort_items(I, pv.items)
    else:
        pv.back[pv.lo:pv.hi] = sort_items(I, pv.items())
    return UNIT


def _get_items(pv):
    return list(pv.items) if isinstance(pv, VecObj) else pv.items()


def _set_items(pv, xs):
    if isinstance(pv, VecObj):
        pv.items[:] = xs
    else:
        pv.back[pv.lo:pv.hi] = xs


@model('slice::sort_by', 'Vec::sort_by', 'slice::sort_unstable_by')
def _sort_by(I, ci, v, f):
    pv = peel(v)
    _set_items(pv, sort_items(I, _get_items(pv), lambda a, b: I.call_value(f, [ValPtr(a), ValPtr(b)])))
    return UNIT


@model('slice::sort_by_key', 'Vec::sort_by_key', 'slice::sort_unstable_by_key')
def _sort_by_key(I, ci, v, f):
    pv = peel(v)
    _set_items(pv, sort_items(I, _get_items(pv), lambda a, b: do_cmp(I, I.call_value(f, [ValPtr(a)]),
                                                                      I.call_value(f, [ValPtr(b)]))))
    return UNIT


@model('slice::reverse', 'Vec::reverse')
def _reverse_slice(I, ci, v):
    pv = peel(v)
    _set_items(pv, list(reversed(_get_items(pv))))
    return UNIT


@model('slice::split_first')
def _split_first(I, ci, v):
    s = as_slice(peel(v))
    if len(s) == 0:
        return none()
    return some(Tuple(ElemPtr(ValPtr(s), 0), Slice(s.back, s.lo + 1, s.hi)))


@model('slice::split_last')
def _split_last(I, ci, v):
    s = as_slice(peel(v))
    if len(s) == 0:
        return none()
    return some(Tuple(ElemPtr(ValPtr(s), len(s) - 1), Slice(s.back, s.lo, s.hi - 1)))


@model('slice::starts_with')
def _slice_starts_with(I, ci, v, p):
    a, b = items_of(v), items_of(p)
    if len(b) > len(a):
        return False
    return conj([struct_eq(I, x, y) for x, y in zip(a, b)])


@model('slice::chunks_exact')
def _chunks_exact(I, ci, v, n):
    from models_iter import ListIter
    s = as_slice(peel(v))
    k = len(s) // n
    return ListIter([Slice(s.back, s.lo + i * n, s.lo + (i + 1) * n) for i in range(k)])


@model('slice::windows', 'slice::chunks')
def _windows(I, ci, v, n):
    from models_iter import ListIter
    s = as_slice(peel(v))
    if ci.method == 'windows':
        return ListIter([Slice(s.back, s.lo + i, s.lo + i + n) for i in range(0, len(s) - n + 1)])
    return ListIter([Slice(s.back, s.lo + i, min(s.lo + i + n, s.hi)) for i in range(0, len(s), n)])


# ------------------------------------------------------------------ maps
def map_find(I, m, key):
    """index of the entry whose key equals `key` (forks on symbolic equality)"""
    key = peel(key)
    for i, (k, _) in enumerate(m.entries):
        if W(I).branch(struct_eq(I, k, key)):
            return i
    return None


def map_get(I, m, key):
    i = map_find(I, m, key)
    if i is None:
        return None
    return MapValPtr(m, i)


class MapValPtr(Ptr):
    __slots__ = ('m', 'i')

    def __init__(self, m, i):
        self.m = m
        self.i = i

    def load(self):
        return self.m.entries[self.i][1]

    def store(self, v):
        self.m.entries[self.i] = (self.m.entries[self.i][0], v)


def map_insert(I, m, key, val):
    i = map_find(I, m, key)
    if i is None:
        m.entries.append((key, val))
        return None
    old = m.entries[i][1]
    m.entries[i] = (m.entries[i][0], val)
    return old


MAPS = ('HashMap', 'IndexMap', 'BTreeMap', 'HashSet', 'BTreeSet', 'IndexSet')


def _mapm(name):
    return tuple('%s::%s' % (m, name) for m in MAPS)


@model(*(_mapm('new') + _mapm('with_capacity') + _mapm('default')))
def _map_new(I, ci, *a):
    return MapObj([], ci.selfty)


@model(*_mapm('insert'))
def _map_insert(I, ci, m, k, *v):
    m = peel(m)
    if m.kind.endswith('Set'):
        old = map_insert(I, m, k, UNIT)
        return old is None
    old = map_insert(I, m, k, v[0])
    return none() if old is None else some(old)


@model(*_mapm('get'), *_mapm('get_mut'))
def _map_get(I, ci, m, k):
    r = map_get(I, peel(m), k)
    return none() if r is None else some(r)


@model(*_mapm('contains_key'), 'HashSet::contains', 'BTreeSet::contains', 'IndexSet::contains')
def _map_contains(I, ci, m, k):
    m = peel(m)
    key = peel(k)
    return disj([struct_eq(I, kk, key) for kk, _ in m.entries])


@model(*_mapm('remove'), 'IndexMap::shift_remove', 'IndexMap::swap_remove')
def _map_remove(I, ci, m, k):
    m = peel(m)
    i = map_find(I, m, k)
    if m.kind.endswith('Set'):
        if i is None:
            return False
        m.entries.pop(i)
        return True
    if i is None:
        return none()
    return some(m.entries.pop(i)[1])


@model(*_mapm('len'))
def _map_len(I, ci, m):
    return len(peel(m).entries)


@model(*_mapm('is_empty'))
def _map_is_empty(I, ci, m):
    return len(peel(m).entries) == 0


@model(*_mapm('iter'), *_mapm('iter_mut'))
def _map_iter(I, ci, m):
    from models_iter import map_iter
    return map_iter(peel(m), by_ref=True)


def _hash_perm(mm):
    """iteration order of a std hash container (environment-dependent only under the two-environment harness)"""
    import models_iter as MI
    if MI.ORDER_HOOK[0] is not None and mm.kind in ('HashMap', 'HashSet') and len(mm.entries) >= 2:
        p = MI.ORDER_HOOK[0](mm)
        if p is not None:
            return p
    return list(range(len(mm.entries)))


@model(*_mapm('keys'))
def _map_keys(I, ci, m):
    from models_iter import ListIter
    mm = peel(m)
    return ListIter([ValPtr(mm.entries[i][0]) for i in _hash_perm(mm)], kind='Keys')


@model(*_mapm('values'))
def _map_values(I, ci, m):
    from models_iter import ListIter
    mm = peel(m)
    return ListIter([MapValPtr(mm, i) for i in _hash_perm(mm)], kind='Values')


@model(*_mapm('into_keys'))
def _map_into_keys(I, ci, m):
    from models_iter import ListIter
    mm = peel(m)
    return ListIter([mm.entries[i][0] for i in _hash_perm(mm)], kind='IntoKeys')


@model(*_mapm('into_values'))
def _map_into_values(I, ci, m):
    from models_iter import ListIter
    mm = peel(m)
    return ListIter([mm.entries[i][1] for i in _hash_perm(mm)], kind='IntoValues')


@model('IndexMap::get_index_of', 'IndexSet::get_index_of')
def _get_index_of(I, ci, m, k):
    i = map_find(I, peel(m), k)
    return none() if i is None else some(i)


@model('IndexMap::get_index')
def _get_index(I, ci, m, i):
    mm = peel(m)
    i = W(I).concretize_int(i, what='get_index')
    if i >= len(mm.entries):
        return none()
    return some(Tuple(ValPtr(mm.entries[i][0]), MapValPtr(mm, i)))


@model(*_mapm('entry'))
def _map_entry(I, ci, m, k):
    return Opaque('Entry', (peel(m), k))


@model('Entry::or_insert', 'Entry::or_insert_with', 'Entry::or_default')
def _entry_or_insert(I, ci, e, *v):
    m, k = e.state
    i = map_find(I, m, k)
    if i is None:
        if ci.method == 'or_insert':
            val = v[0]
        elif ci.method == 'or_insert_with':
            val = I.call_value(v[0], [])
        else:
            raise Unsupported('Entry::or_default')
        m.entries.append((k, val))
        i = len(m.entries) - 1
    return MapValPtr(m, i)


# ------------------------------------------------------------------ integers
def _int_ty(ci):
    t = ci.selfty
    return t if t in RANGES else None


@fallback
def _int_methods(I, ci, args):
    ty = _int_ty(ci)
    if ty is None or ci.trait is not None:
        return None
    lo, hi = RANGES[ty]
    m = ci.method

    def checked(op):
        def f(I, ci, a, b):
            r = op(a, b)
            if isinstance(r, int):
                return some(r) if lo <= r <= hi else none()
            if W(I).branch(z3.And(r >= lo, r <= hi)):
                return some(r)
            return none()
        return f

    def saturating(op):
        def f(I, ci, a, b):
            r = op(a, b)
            if isinstance(r, int):
                return max(lo, min(hi, r))
            return z3.If(r > hi, hi, z3.If(r < lo, lo, r))
        return f

    def wrapping(op):
        def f(I, ci, a, b):
            r = op(a, b)
            w = hi - lo + 1
            if isinstance(r, int):
                return (r - lo) % w + lo
            if W(I).branch(z3.And(r >= lo, r <= hi)):
                return r
            return (r - lo) % w + lo
        return f
    ops = {'add': lambda a, b: a + b, 'sub': lambda a, b: a - b, 'mul': lambda a, b: a * b}
    for nm, op in ops.items():
        if m == 'checked_' + nm:
            return checked(op)
        if m == 'saturating_' + nm:
            return saturating(op)
        if m == 'wrapping_' + nm:
            return wrapping(op)
    if m == 'overflowing_add':
        return lambda I, ci, a, b: I.binop('AddWithOverflow', a, b, '(%s, bool)' % ty)
    if m == 'pow':
        def f(I, ci, a, b):
            b = W(I).concretize_int(b, what='pow exponent')
            r = 1
            for _ in range(b):
                r = r * a
            if isinstance(r, int):
                if not lo <= r <= hi:
                    raise Panic('attempt to multiply with overflow (pow)')
                return r
            if not W(I).branch(z3.And(r >= lo, r <= hi)):
                raise Panic('attempt to multiply with overflow (pow)')
            return r
        return f
    if m == 'checked_pow':
        def f(I, ci, a, b):
            b = W(I).concretize_int(b, what='pow exponent')
            r = 1
            for _ in range(b):
                r = r * a
            if isinstance(r, int):
                return some(r) if lo <= r <= hi else none()
            if W(I).branch(z3.And(r >= lo, r <= hi)):
                return some(r)
            return none()
        return f
    if m in ('min', 'max'):
        def f(I, ci, a, b):
            if isinstance(a, int) and isinstance(b, int):
                return min(a, b) if m == 'min' else max(a, b)
            return z3.If(a <= b, a, b) if m == 'min' else z3.If(a >= b, a, b)
        return f
    if m == 'abs_diff':
        return lambda I, ci, a, b: abs(a - b) if isinstance(a, int) and isinstance(b, int) else z3.If(a >= b, a - b, b - a)
    if m == 'cmp':
        return lambda I, ci, a, b: do_cmp(I, a, b)
    if m == 'from_str':
        return lambda I, ci, s: REG_parse(I, s, ty)
    if m == 'is_power_of_two':
        return lambda I, ci, a: a in (1 << k for k in range(64)) if isinstance(a, int) else (_ for _ in ()).throw(
            Unsupported('is_power_of_two symbolic'))
    return None


def REG_parse(I, s, ty):
    from models_fmt import parse_int
    return parse_int(I, chars_of(s), ty)


@model('usize::MAX', 'u32::MAX')
def _max_const(I, ci):
    return RANGES[ci.selfty][1]


# ------------------------------------------------------------------ closures & fn traits
@model('<FnOnce>::call_once', '<FnMut>::call_mut', '<Fn>::call')
def _call_once(I, ci, f, argt):
    if peel(f) is None:
        # capture-less closures / fn items are zero-sized: MIR never initialises the local holding them
        t = ci.selfty_full.lstrip('&').strip()
        t = t[4:] if t.startswith('mut ') else t
        f = Closure(t, []) if t.startswith('{closure@') else FnItem(t)
    return I.call_value(f, list(argt.fields))


# ------------------------------------------------------------------ bool
@model('bool::then')
def _bool_then(I, ci, b, f):
    return some(I.call_value(f, [])) if W(I).branch(b) else none()


@model('bool::then_some')
def _bool_then_some(I, ci, b, v):
    return some(v) if W(I).branch(b) else none()


# ------------------------------------------------------------------ Cow
@model('Cow::into_owned', 'Cow::to_string')
def _cow_into_owned(I, ci, c):
    return StringObj(chars_of(c))


@model('String::from_utf8_lossy', 'from_utf8_lossy')
def _from_utf8_lossy(I, ci, b):
    xs = items_of(b)
    if all(isinstance(x, int) for x in xs):
        s = bytes(xs).decode('utf-8', 'replace')
        return Adt('Cow', 1, [StringObj([ord(c) for c in s])])
    raise Unsupported('from_utf8_lossy on symbolic bytes')


@model('String::from_utf8', 'str::from_utf8', 'from_utf8')
def _from_utf8(I, ci, b):
    xs = items_of(b)
    if all(isinstance(x, int) for x in xs):
        try:
            s = bytes(xs).decode('utf-8')
        except UnicodeDecodeError:
            return err(Adt('Utf8Error', 0, []))
        return ok(StringObj([ord(c) for c in s]) if ci.selfty == 'String' else Str([ord(c) for c in s]))
    raise Unsupported('from_utf8 on symbolic bytes')


# ------------------------------------------------------------------ hashing (DefaultHasher has fixed keys: a pure function)
@model('DefaultHasher::new', 'DefaultHasher::default')
def _hasher_new(I, ci):
    return Opaque('Hasher', [])


@model('<Hash>::hash')
def _hash(I, ci, v, h):
    pv = peel(v)
    st = peel(h).state
    if isinstance(pv, (Str, StringObj)):
        st.append(('s', tuple(pv.chars)))
    elif isinstance(pv, (int, z3.ArithRef)):
        st.append(('i', pv))
    else:
        raise Unsupported('hash of %r' % (pv,))
    return UNIT


HASH_RANGE = [0, 2**64 - 1]      # a harness may narrow the digit-length classes of the uninterpreted hash (stated as a bound)


@model('<Hasher>::finish', 'DefaultHasher::finish')
def _finish(I, ci, h):
    """SipHash of the written data: an uninterpreted u64, equal for (syntactically) equal data within a path"""
    w = W(I)
    st = peel(h).state
    key = []
    for kind, x in st:
        if kind == 's':
            key.append(tuple(c if isinstance(c, int) else ('e', c.get_id()) for c in x))
        else:
            key.append(x if isinstance(x, int) else ('e', x.get_id()))
    key = tuple(key)
    cache = w.__dict__.setdefault('_hashes', {})
    hit = cache.get(key)
    if hit is None:
        hit = (list(st), w.fresh_int('siphash', HASH_RANGE[0], HASH_RANGE[1]))
        cache[key] = hit
    return hit[1]
