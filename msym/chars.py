"""Character alphabet Σ = ASCII ∪ R and predicates on symbolic chars.

R (non-ASCII representatives) and every predicate value on R come from the *native* driver
(real std `char` methods), see native/src/main.rs `alphabet`.  ASCII predicates are range formulas.
"""
import json
import z3

from values import Unsupported

# filled by load_alphabet(): cp -> dict(alnum, alpha, numeric, ws, lower:[cps], upper:[cps], width)
R = {}


def load_alphabet(path):
    R.clear()
    for e in json.load(open(path)):
        R[e['cp']] = e


def default_alphabet():
    """fallback used only by unit tests of the engine (python's own Unicode tables)"""
    R.clear()
    for ch in 'éÉßİKſ٣²̇ 中😀':
        R[ord(ch)] = dict(cp=ord(ch), alnum=ch.isalnum(), alpha=ch.isalpha(), numeric=ch.isnumeric(),
                          ws=ch.isspace(), lower=[ord(x) for x in ch.lower()], upper=[ord(x) for x in ch.upper()],
                          width=len(ch.encode('utf-8')))


def domain(c, ascii_only=False, alphabet=None):
    """constraint: c ∈ Σ"""
    if alphabet is not None:
        return z3.Or([c == a for a in alphabet])
    parts = [z3.And(c >= 0, c <= 127)]
    if not ascii_only:
        parts += [c == r for r in sorted(R)]
    return z3.Or(parts)


def rng(c, lo, hi):
    return z3.And(c >= lo, c <= hi)


def p_ascii_digit(c):
    if isinstance(c, int):
        return 48 <= c <= 57
    return rng(c, 48, 57)


def p_ascii_alpha(c):
    if isinstance(c, int):
        return 65 <= c <= 90 or 97 <= c <= 122
    return z3.Or(rng(c, 65, 90), rng(c, 97, 122))


def p_ascii_alnum(c):
    if isinstance(c, int):
        return p_ascii_digit(c) or p_ascii_alpha(c)
    return z3.Or(rng(c, 48, 57), rng(c, 65, 90), rng(c, 97, 122))


def p_ascii_upper(c):
    if isinstance(c, int):
        return 65 <= c <= 90
    return rng(c, 65, 90)


def p_ascii_lower(c):
    if isinstance(c, int):
        return 97 <= c <= 122
    return rng(c, 97, 122)


def p_ascii(c):
    if isinstance(c, int):
        return c < 128
    return c < 128


def _table(c, key):
    """predicate from the native table for non-ASCII members of Σ"""
    return [c == r for r, e in sorted(R.items()) if e[key]]


def _native(cp, key):
    e = R.get(cp)
    if e is None:
        raise Unsupported('char U+%04X outside the alphabet' % cp)
    return e[key]


def p_alphanumeric(c):
    if isinstance(c, int):
        return p_ascii_alnum(c) if c < 128 else bool(_native(c, 'alnum'))
    return z3.Or([p_ascii_alnum(c)] + _table(c, 'alnum'))


def p_alphabetic(c):
    if isinstance(c, int):
        return p_ascii_alpha(c) if c < 128 else bool(_native(c, 'alpha'))
    return z3.Or([p_ascii_alpha(c)] + _table(c, 'alpha'))


def p_numeric(c):
    if isinstance(c, int):
        return p_ascii_digit(c) if c < 128 else bool(_native(c, 'numeric'))
    return z3.Or([p_ascii_digit(c)] + _table(c, 'numeric'))


def p_whitespace(c):
    if isinstance(c, int):
        return c in (9, 10, 11, 12, 13, 32) if c < 128 else bool(_native(c, 'ws'))
    return z3.Or([z3.And(c >= 9, c <= 13), c == 32] + _table(c, 'ws'))


def p_ascii_whitespace(c):
    if isinstance(c, int):
        return c in (9, 10, 12, 13, 32)
    return z3.Or(c == 9, c == 10, c == 12, c == 13, c == 32)


def width(world, c):
    """UTF-8 width of a char; forks on symbolic non-ASCII"""
    if isinstance(c, int):
        return 1 if c < 0x80 else 2 if c < 0x800 else 3 if c < 0x10000 else 4
    if world.branch(c < 128):
        return 1
    for w in (2, 3, 4):
        cs = [c == r for r, e in sorted(R.items()) if e['width'] == w]
        if cs and world.branch(z3.Or(cs)):
            return w
    raise Unsupported('width of char outside alphabet')


def concretize_nonascii(world, c):
    """fork a symbolic non-ASCII char to one member of R"""
    for r in sorted(R):
        if world.branch(c == r):
            return r
    raise Unsupported('char outside alphabet')


def to_lower(world, c):
    """list of chars"""
    if isinstance(c, int):
        if c < 128:
            return [c + 32 if 65 <= c <= 90 else c]
        return list(_native(c, 'lower'))
    if world.branch(c < 128):
        return [z3.If(rng(c, 65, 90), c + 32, c)]
    r = concretize_nonascii(world, c)
    return list(R[r]['lower'])


def to_upper(world, c):
    if isinstance(c, int):
        if c < 128:
            return [c - 32 if 97 <= c <= 122 else c]
        return list(_native(c, 'upper'))
    if world.branch(c < 128):
        return [z3.If(rng(c, 97, 122), c - 32, c)]
    r = concretize_nonascii(world, c)
    return list(R[r]['upper'])


def ascii_lower(c):
    if isinstance(c, int):
        return c + 32 if 65 <= c <= 90 else c
    return z3.If(rng(c, 65, 90), c + 32, c)


def ascii_upper(c):
    if isinstance(c, int):
        return c - 32 if 97 <= c <= 122 else c
    return z3.If(rng(c, 97, 122), c - 32, c)
