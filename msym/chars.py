"""Character alphabet Σ = ASCII ∪ R and predicates on symbolic chars.

R (non-ASCII representatives) and every predicate value on R come from the *native* driver
(real std `char` methods), see native/src/main.rs `alphabet`.  ASCII predicates are range formulas.
"""
import json
import z3

from values import Unsupported

DECLARED = None    # set of char operations the alphabet's classes distinguish (None = all)


def _need(op):
    if DECLARED is not None and op not in DECLARED:
        raise Unsupported('char operation %r on a symbolic char is outside the declared alphabet signature' % op)


# filled by load_alphabet(): cp -> dict(alnum, alpha, numeric, ws, lower:[cps], upper:[cps], width)
R = {}


_X = z3.Int('__chX')
_TMPL = {}


def _apply(name, builder, c):
    t = _TMPL.get(name)
    if t is None:
        t = builder(_X)
        _TMPL[name] = t
    return z3.substitute(t, (_X, c))


def load_alphabet(path):
    _TMPL.clear()
    R.clear()
    for e in json.load(open(path)):
        R[e['cp']] = e


def default_alphabet():
    """fallback used only by unit tests of the engine (python's own Unicode tables)"""
    _TMPL.clear()
    R.clear()
    for ch in 'éÉßİKſ٣²̇ 中😀':
        R[ord(ch)] = dict(cp=ord(ch), alnum=ch.isalnum(), alpha=ch.isalpha(), numeric=ch.isnumeric(),
                          ws=ch.isspace(), lower=[ord(x) for x in ch.lower()], upper=[ord(x) for x in ch.upper()],
                          width=len(ch.encode('utf-8')))


def domain(c, ascii_only=False, alphabet=None):
    """constraint: c ∈ Σ"""
    if alphabet is not None:
        return z3.Or([c == a for a in alphabet])
    if ascii_only:
        return z3.And(c >= 0, c <= 127)
    return _apply('domain', lambda x: z3.Or([z3.And(x >= 0, x <= 127)] + [x == r for r in sorted(R)]), c)


def rng(c, lo, hi):
    return z3.And(c >= lo, c <= hi)


def p_ascii_digit(c):
    if isinstance(c, int):
        return 48 <= c <= 57
    return rng(c, 48, 57)


def p_ascii_alpha(c):
    if isinstance(c, int):
        return 65 <= c <= 90 or 97 <= c <= 122
    return z3.Or(rng(c, 65, 90), rng(c, 97, 122))


def p_ascii_alnum(c):
    if isinstance(c, int):
        return p_ascii_digit(c) or p_ascii_alpha(c)
    return z3.Or(rng(c, 48, 57), rng(c, 65, 90), rng(c, 97, 122))


def p_ascii_upper(c):
    if isinstance(c, int):
        return 65 <= c <= 90
    return rng(c, 65, 90)


def p_ascii_lower(c):
    if isinstance(c, int):
        return 97 <= c <= 122
    return rng(c, 97, 122)


def p_ascii(c):
    if isinstance(c, int):
        return c < 128
    return c < 128


def _table(c, key):
    """predicate from the native table for non-ASCII members of Σ"""
    return [c == r for r, e in sorted(R.items()) if e[key]]


def _native(cp, key):
    e = R.get(cp)
    if e is None:
        raise Unsupported('char U+%04X outside the alphabet' % cp)
    return e[key]


def p_alphanumeric(c):
    if isinstance(c, int):
        return p_ascii_alnum(c) if c < 128 else bool(_native(c, 'alnum'))
    _need('alnum')
    return _apply('alnum', lambda x: z3.Or([p_ascii_alnum(x)] + _table(x, 'alnum')), c)


def p_alphabetic(c):
    if isinstance(c, int):
        return p_ascii_alpha(c) if c < 128 else bool(_native(c, 'alpha'))
    _need('alpha')
    return _apply('alpha', lambda x: z3.Or([p_ascii_alpha(x)] + _table(x, 'alpha')), c)


def p_numeric(c):
    if isinstance(c, int):
        return p_ascii_digit(c) if c < 128 else bool(_native(c, 'numeric'))
    _need('numeric')
    return _apply('numeric', lambda x: z3.Or([p_ascii_digit(x)] + _table(x, 'numeric')), c)


def p_whitespace(c):
    if isinstance(c, int):
        if c == 0xFFFD:
            return False        # the replacement character from_utf8_lossy produces: not White_Space (concrete, outside the alphabet)
        return c in (9, 10, 11, 12, 13, 32) if c < 128 else bool(_native(c, 'ws'))
    _need('ws')
    return _apply('ws', lambda x: z3.Or([z3.And(x >= 9, x <= 13), x == 32] + _table(x, 'ws')), c)


def p_ascii_whitespace(c):
    if isinstance(c, int):
        return c in (9, 10, 12, 13, 32)
    return z3.Or(c == 9, c == 10, c == 12, c == 13, c == 32)


def width_expr(c):
    """UTF-8 width of a char as an int or a z3 Int term (no forking)"""
    if isinstance(c, int):
        return 1 if c < 0x80 else 2 if c < 0x800 else 3 if c < 0x10000 else 4
    def build(x):
        e = 4
        for w in (3, 2):
            cs = [x == r for r, y in sorted(R.items()) if y['width'] == w]
            if cs:
                e = z3.If(z3.Or(cs), w, e)
        return z3.If(x < 128, 1, e)
    _need('width')
    return _apply('width', build, c)


def width(world, c):
    return width_expr(c)


def concretize_nonascii(world, c):
    """fork a symbolic non-ASCII char to one member of R"""
    for r in sorted(R):
        if world.branch(c == r):
            return r
    raise Unsupported('char outside alphabet')


def _case_map(world, c, key, lo, hi, delta):
    if isinstance(c, int):
        if c < 128:
            return [c + delta if lo <= c <= hi else c]
        return list(_native(c, key))
    _need(key)
    multi = [r for r, e in sorted(R.items()) if len(e[key]) != 1]
    if multi and world.branch(_apply('multi_' + key, lambda x: z3.Or([x == r for r in multi]), c)):
        for r in multi:
            if world.branch(c == r):
                return list(R[r][key])
        raise Unsupported('char outside alphabet')
    def build(v):
        e = v
        for r, x in sorted(R.items()):
            if len(x[key]) == 1 and x[key][0] != r:
                e = z3.If(v == r, x[key][0], e)
        return z3.If(rng(v, lo, hi), v + delta, e)
    return [_apply('case_' + key, build, c)]


def to_lower(world, c):
    """list of chars (forks only for code points whose lower-case form has several chars)"""
    return _case_map(world, c, 'lower', 65, 90, 32)


def to_upper(world, c):
    return _case_map(world, c, 'upper', 97, 122, -32)


def ascii_lower(c):
    if isinstance(c, int):
        return c + 32 if 65 <= c <= 90 else c
    return z3.If(rng(c, 65, 90), c + 32, c)


def ascii_upper(c):
    if isinstance(c, int):
        return c - 32 if 97 <= c <= 122 else c
    return z3.If(rng(c, 97, 122), c - 32, c)
