"""Parser for rustc `-Zunpretty=mir` text.

Produces, per function body, a small AST made of tuples (cheap to interpret).  Nothing about
zerv is hand-written here: the encoding executed by the symbolic interpreter is this parse of the
MIR the repo's own compiler printed for /repo's current working tree.

Place     ('local', n) | ('deref', P) | ('field', P, idx, ty) | ('downcast', P, variant)
          | ('index', P, n) | ('cindex', P, i, from_end) | ('subslice', P, a, b, from_end)
Operand   ('copy', P) | ('move', P) | ('const', text)
Rvalue    ('use', O) | ('ref', P) | ('rawptr', P) | ('binop', name, O, O) | ('unop', name, O)
          | ('discr', P) | ('cast', O, ty, kind) | ('tuple', [O]) | ('array', [O]) | ('repeat', O, n)
          | ('adt', typath, variant|None, [fieldname]|None, [O]) | ('closure', span, [O]) | ('len', P)
Stmt      ('assign', P, Rvalue, lhs_type|None) | ('setdiscr', P, idx) | ('nop',)
Term      ('goto', bb) | ('switch', O, [(int, bb)], otherwise|None) | ('return',) | ('unreachable',)
          | ('drop', P, bb) | ('call', P|None, callee_text, [O], bb|None) | ('assert', neg, O, msg, bb)
          | ('resume',)
"""
import re


class ParseError(Exception):
    pass


class Func:
    __slots__ = ('name', 'params', 'ret', 'locals', 'raw', 'blocks', 'kind')

    def __init__(self, name, params, ret, locals_, raw, kind):
        self.name = name
        self.params = params      # [(n, type)]
        self.ret = ret
        self.locals = locals_     # {n: type}
        self.raw = raw            # {bb: [line]}
        self.blocks = None        # parsed lazily
        self.kind = kind          # 'fn' | 'const' | 'static' | 'promoted'

    def parsed(self):
        if self.blocks is None:
            self.blocks = {bb: parse_block(lines, self) for bb, lines in self.raw.items()}
        return self.blocks


# ---------------------------------------------------------------- helpers
OPEN = '([{'
CLOSE = ')]}'


def split_top(s, sep=','):
    """split at top-level `sep`, respecting () [] {} <> and string / char literals."""
    out = []
    depth = 0
    cur = []
    i = 0
    n = len(s)
    while i < n:
        ch = s[i]
        if ch == '"':
            j = i + 1
            while j < n and s[j] != '"':
                if s[j] == '\\':
                    j += 1
                j += 1
            cur.append(s[i:j + 1])
            i = j + 1
            continue
        if ch == "'" :
            # char literal or lifetime
            m = re.match(r"'(\\.[^']*|[^'\\])'", s[i:])
            if m:
                cur.append(m.group(0))
                i += len(m.group(0))
                continue
        if ch in OPEN:
            depth += 1
        elif ch in CLOSE:
            depth -= 1
        elif ch == '<':
            depth += 1
        elif ch == '>' and i > 0 and s[i - 1] not in '-=':
            depth -= 1
        if ch == sep and depth == 0:
            out.append(''.join(cur).strip())
            cur = []
        else:
            cur.append(ch)
        i += 1
    last = ''.join(cur).strip()
    if last:
        out.append(last)
    return out


def top_find(s, pat, start=0, angle=False):
    """index of first occurrence of pat at bracket depth 0 (strings skipped), or -1."""
    d = 0
    i = start
    n = len(s)
    while i < n:
        ch = s[i]
        if ch == '"':
            j = i + 1
            while j < n and s[j] != '"':
                if s[j] == '\\':
                    j += 1
                j += 1
            i = j + 1
            continue
        if ch == "'":
            m = re.match(r"'(\\.[^']*|[^'\\])'", s[i:])
            if m:
                i += len(m.group(0))
                continue
        if d == 0 and s.startswith(pat, i):
            return i
        if ch in OPEN:
            d += 1
        elif ch in CLOSE:
            d -= 1
        elif angle and ch == '<':
            d += 1
        elif angle and ch == '>' and s[i - 1] not in '-=':
            d -= 1
        i += 1
    return -1


def match_paren(s, i):
    """s[i] is an opening bracket; return index of its partner (strings skipped)."""
    d = 0
    n = len(s)
    k = i
    while k < n:
        ch = s[k]
        if ch == '"':
            j = k + 1
            while j < n and s[j] != '"':
                if s[j] == '\\':
                    j += 1
                j += 1
            k = j + 1
            continue
        if ch == "'":
            m = re.match(r"'(\\.[^']*|[^'\\])'", s[k:])
            if m:
                k += len(m.group(0))
                continue
        if ch in OPEN:
            d += 1
        elif ch in CLOSE:
            d -= 1
            if d == 0:
                return k
        k += 1
    raise ParseError('unbalanced: ' + s)


# ---------------------------------------------------------------- file level
def parse_file(path):
    funcs = {}
    statics = {}     # allocN -> static name
    with open(path) as f:
        lines = f.read().split('\n')
    i = 0
    n = len(lines)
    while i < n:
        ln = lines[i]
        if ln.startswith(('fn ', 'const ', 'static ')) and ln.endswith('{'):
            j = i + 1
            while j < n and lines[j] != '}':
                j += 1
            f = parse_func(ln, lines[i + 1:j])
            if f is not None:
                if f.name in funcs and funcs[f.name].raw != f.raw:
                    AMBIGUOUS.add(f.name)       # two different bodies printed under one name (macro-local items): never executed
                funcs[f.name] = f
            i = j + 1
            continue
        if ln.startswith('const ') and ln.endswith(';') and ' = const ' in ln:
            body = ln[6:-1]
            k = top_find(body, ': ', angle=True)
            e = body.rfind(' = const ')
            if k > 0 and e > k:
                name = body[:k]
                f = Func(name, [], body[k + 2:e], {0: body[k + 2:e]}, {0: ['_0 = const %s;' % body[e + 9:], 'return;']}, 'const')
                funcs[name] = f
            i += 1
            continue
        m = re.match(r'(alloc\d+) \(static: ([^,)]+)', ln)
        if m:
            statics[m.group(1)] = m.group(2).strip()
        i += 1
    return funcs, statics


def parse_header(h):
    if h.startswith('fn '):
        h = h[3:]
        depth = 0
        k = 0
        for k, ch in enumerate(h):
            if ch == '<':
                depth += 1
            elif ch == '>' and h[k - 1] != '-':
                depth -= 1
            elif ch == '(' and depth == 0:
                break
        name = h[:k]
        m = match_paren(h, k)
        params = split_top(h[k + 1:m])
        rest = h[m + 1:].strip()
        ret = rest[3:-2].strip() if rest.startswith('->') else '()'
        ps = []
        for p in params:
            mm = re.match(r'(?:mut )?_(\d+): (.*)$', p)
            ps.append((int(mm.group(1)), mm.group(2)))
        return name, ps, ret, 'fn'
    m = re.match(r'(const|static(?: mut)?) (.+) = \{$', h)
    if not m:
        raise ParseError(h)
    kind = 'static' if m.group(1).startswith('static') else 'const'
    body = m.group(2)
    k = top_find(body, ': ', angle=True)
    if k < 0:
        raise ParseError(h)
    return body[:k], [], body[k + 2:], kind


AMBIGUOUS = set()


def parse_func(h, body):
    try:
        name, params, ret, kind = parse_header(h)
    except Exception:
        return None
    if 'promoted[' in name:
        kind = 'promoted'
    locals_ = {0: ret}
    for n_, t in params:
        locals_[n_] = t
    raw = {}
    cur = None
    for ln in body:
        s = ln.strip()
        if not s:
            continue
        m = re.match(r'bb(\d+)(?: \(cleanup\))?: \{$', s)
        if m:
            cur = int(m.group(1))
            raw[cur] = []
            continue
        if cur is None:
            m = re.match(r'let (?:mut )?_(\d+): (.*);$', s)
            if m:
                locals_[int(m.group(1))] = m.group(2)
            continue
        if s == '}':
            cur = None
            continue
        raw[cur].append(s)
    return Func(name, params, ret, locals_, raw, kind)


# ---------------------------------------------------------------- places / operands
_local_re = re.compile(r'_(\d+)$')


def parse_place(p):
    p = p.strip()
    m = _local_re.match(p)
    if m:
        return ('local', int(m.group(1)))
    # suffix [ ... ]
    if p.endswith(']'):
        # find the matching '[' for the final ']'
        d = 0
        k = len(p) - 1
        while k >= 0:
            if p[k] == ']':
                d += 1
            elif p[k] == '[':
                d -= 1
                if d == 0:
                    break
            k -= 1
        base = parse_place(p[:k])
        inner = p[k + 1:-1]
        m = _local_re.match(inner)
        if m:
            return ('index', base, int(m.group(1)))
        m = re.match(r'(-?)(\d+) of (\d+)$', inner)
        if m:
            return ('cindex', base, int(m.group(2)), m.group(1) == '-')
        m = re.match(r'(\d+)\.\.(-?)(\d+)$', inner)
        if m:
            return ('subslice', base, int(m.group(1)), int(m.group(3)), m.group(2) == '-')
        m = re.match(r'(\d+):(-?)(\d*)$', inner)
        if m:
            return ('subslice', base, int(m.group(1)), int(m.group(3) or 0), True)
        raise ParseError('index ' + p)
    if p.startswith('(') and match_paren(p, 0) == len(p) - 1:
        inner = p[1:-1]
        if inner.startswith('*'):
            return ('deref', parse_place(inner[1:]))
        k = top_find(inner, ': ')
        if k >= 0:
            base = inner[:k]
            ty = inner[k + 2:]
            dot = base.rfind('.')
            return ('field', parse_place(base[:dot]), int(base[dot + 1:]), ty)
        k = top_find(inner, ' as ')
        if k >= 0:
            return ('downcast', parse_place(inner[:k]), inner[k + 4:].strip())
        return parse_place(inner)
    if p.startswith('*'):
        return ('deref', parse_place(p[1:]))
    raise ParseError('place ' + p)


def parse_operand(o):
    o = o.strip()
    if o.startswith('copy '):
        return ('copy', parse_place(o[5:]))
    if o.startswith('move '):
        return ('move', parse_place(o[5:]))
    if o.startswith('const '):
        return ('const', o[6:].strip())
    if re.match(r'[A-Za-z<]', o):
        return ('fnitem', o)
    raise ParseError('operand ' + o)


BINOPS = {'Eq', 'Ne', 'Lt', 'Le', 'Gt', 'Ge', 'Add', 'Sub', 'Mul', 'Div', 'Rem', 'BitAnd', 'BitOr', 'BitXor',
          'Shl', 'Shr', 'AddWithOverflow', 'SubWithOverflow', 'MulWithOverflow', 'AddUnchecked', 'SubUnchecked',
          'MulUnchecked', 'ShlUnchecked', 'ShrUnchecked', 'Offset', 'Cmp'}
UNOPS = {'Not', 'Neg', 'PtrMetadata'}


def parse_rvalue(rv):
    rv = rv.strip()
    if rv.startswith('&raw '):
        p = rv[5:]
        p = p[p.index(' ') + 1:]
        return ('rawptr', parse_place(p))
    if rv.startswith('&'):
        p = rv[1:]
        if p.startswith('mut '):
            p = p[4:]
        elif p.startswith('fake shallow '):
            p = p[len('fake shallow '):]
        elif p.startswith('fake '):
            p = p[5:]
        return ('ref', parse_place(p))
    m = re.match(r'(\w+)\((.*)\)$', rv, re.S)
    if m:
        nm = m.group(1)
        if nm == 'discriminant':
            return ('discr', parse_place(m.group(2)))
        if nm in BINOPS:
            a, b = split_top(m.group(2))
            return ('binop', nm, parse_operand(a), parse_operand(b))
        if nm in UNOPS:
            return ('unop', nm, parse_operand(m.group(2)))
        if nm == 'Len':
            return ('len', parse_place(m.group(2)))
        if nm == 'ShallowInitBox':
            a = split_top(m.group(2))
            return ('use', parse_operand(a[0]))
    if rv.startswith(('copy ', 'move ', 'const ')):
        k = top_find(rv, ' as ', angle=True)
        if k >= 0 and rv.endswith(')'):
            # `OP as TYPE (Kind)`
            j = rv.rfind(' (')
            # kind may itself contain parens e.g. PointerCoercion(Unsize, AsCast)
            d = 0
            j = len(rv) - 1
            while j >= 0:
                if rv[j] == ')':
                    d += 1
                elif rv[j] == '(':
                    d -= 1
                    if d == 0:
                        break
                j -= 1
            return ('cast', parse_operand(rv[:k]), rv[k + 4:j].strip(), rv[j + 1:-1])
        return ('use', parse_operand(rv))
    if rv.startswith('(') and match_paren(rv, 0) == len(rv) - 1:
        inner = rv[1:-1].strip()
        if inner.endswith(','):
            inner = inner[:-1]
        return ('tuple', [parse_operand(x) for x in split_top(inner)])
    if rv.startswith('[') and rv.endswith(']'):
        inner = rv[1:-1]
        k = top_find(inner, '; ')
        if k >= 0:
            return ('repeat', parse_operand(inner[:k]), inner[k + 2:].strip())
        return ('array', [parse_operand(x) for x in split_top(inner)])
    m = re.match(r'(\{(?:closure|coroutine)@[^}]*\})(?: \{(.*)\})?$', rv, re.S)
    if m:
        caps = []
        if m.group(2):
            for x in split_top(m.group(2)):
                caps.append(parse_operand(x.split(': ', 1)[1]))
        return ('closure', m.group(1), caps)
    # struct-like aggregate   Path { f: op, .. }   or   Path::Variant { f: op }
    k = top_find(rv, ' { ', angle=True)
    if k > 0 and rv.endswith('}'):
        path = rv[:k]
        body = rv[k + 3:-1].strip()
        names, ops = [], []
        for x in split_top(body):
            nm, op = x.split(': ', 1)
            names.append(nm.strip())
            ops.append(parse_operand(op))
        ty, var = split_variant(path)
        return ('adt', ty, var, names, ops)
    # tuple-like aggregate   Path::Variant(ops)  /  Path(ops)
    if rv.endswith(')'):
        d = 0
        j = len(rv) - 1
        while j >= 0:
            if rv[j] == ')':
                d += 1
            elif rv[j] == '(':
                d -= 1
                if d == 0:
                    break
            j -= 1
        path = rv[:j]
        ops = [parse_operand(x) for x in split_top(rv[j + 1:-1])]
        ty, var = split_variant(path)
        return ('adt', ty, var, None, ops)
    # unit variant / unit struct
    if re.match(r'[\w<]', rv):
        ty, var = split_variant(rv)
        return ('adt', ty, var, None, [])
    raise ParseError('rvalue ' + rv)


def strip_generics(p):
    """remove every <...> group (keeping leading `<T as Trait>` qualifications intact is not needed here)."""
    out = []
    d = 0
    i = 0
    while i < len(p):
        ch = p[i]
        if ch == '<':
            d += 1
        elif ch == '>' and p[i - 1] not in '-=':
            d -= 1
        elif d == 0:
            out.append(ch)
        i += 1
    return ''.join(out)


def split_variant(path):
    """`std::option::Option::<usize>::Some` -> ('Option', 'Some'); `Sanitizer` -> ('Sanitizer', None)."""
    flat = strip_generics(path)
    flat = re.sub(r'::+', '::', flat).strip(':')
    segs = [s for s in flat.split('::') if s]
    if len(segs) >= 2 and segs[-1][:1].isupper() and segs[-2][:1].isupper():
        return segs[-2], segs[-1]
    return segs[-1], None


# ---------------------------------------------------------------- statements / terminators
_NOP = ('StorageLive', 'StorageDead', 'nop', 'FakeRead', 'PlaceMention', 'Retag', 'AscribeUserType', 'Coverage',
        'ConstEvalCounter', 'BackwardIncompatibleDropHint')


def parse_stmt(st, fn):
    if st.startswith(_NOP):
        return ('nop',)
    m = re.match(r'discriminant\((.*)\) = (\d+);$', st)
    if m:
        return ('setdiscr', parse_place(m.group(1)), int(m.group(2)))
    if st.startswith('Deinit('):
        return ('nop',)
    if st.startswith('assume('):
        return ('nop',)
    k = top_find(st, ' = ')
    if k < 0:
        raise ParseError('stmt ' + st)
    lhs = st[:k]
    rhs = st[k + 3:].rstrip(';')
    lp = parse_place(lhs)
    lty = fn.locals.get(lp[1]) if lp[0] == 'local' else None
    return ('assign', lp, parse_rvalue(rhs), lty)


def parse_term(t, fn):
    if t == 'return;':
        return ('return',)
    if t == 'unreachable;':
        return ('unreachable',)
    if t.startswith('resume') or t.startswith('unwind resume'):
        return ('resume',)
    m = re.match(r'goto -> bb(\d+);$', t)
    if m:
        return ('goto', int(m.group(1)))
    m = re.match(r'switchInt\((.*)\) -> \[(.*)\];$', t)
    if m:
        targets = []
        other = None
        for e in split_top(m.group(2)):
            k, d = e.split(': ')
            d = int(d[2:])
            if k == 'otherwise':
                other = d
            else:
                targets.append((int(k), d))
        return ('switch', parse_operand(m.group(1)), targets, other)
    m = re.match(r'drop\((.*)\) -> \[return: bb(\d+),', t)
    if m:
        return ('drop', parse_place(m.group(1)), int(m.group(2)))
    if t.startswith('assert('):
        e = match_paren(t, 6)
        inner = t[7:e]
        parts = split_top(inner)
        cond = parts[0]
        neg = cond.startswith('!')
        if neg:
            cond = cond[1:]
        msg = parts[1] if len(parts) > 1 else ''
        mm = re.search(r'success: bb(\d+)', t[e:])
        return ('assert', neg, parse_operand(cond), msg, int(mm.group(1)))
    if t.startswith('falseEdge') or t.startswith('falseUnwind'):
        mm = re.search(r'bb(\d+)', t)
        return ('goto', int(mm.group(1)))
    # calls
    mm = re.search(r'\) -> \[return: bb(\d+)(?:, unwind[^\]]*)?\];$', t)
    ret = None
    if mm:
        end = mm.start()
        ret = int(mm.group(1))
    else:
        mm = re.search(r'\) -> (?:unwind[^;]*|\[unwind[^\]]*\]|bb\d+);$', t)
        if not mm:
            raise ParseError('terminator ' + t)
        end = mm.start()
    # find the '(' matching t[end]
    d = 0
    k = end
    while k >= 0:
        ch = t[k]
        if ch == ')':
            d += 1
        elif ch == '(':
            d -= 1
            if d == 0:
                break
        elif ch == '"':
            # skip string literal backwards
            j = k - 1
            while j >= 0 and not (t[j] == '"' and (j == 0 or t[j - 1] != '\\')):
                j -= 1
            k = j
        k -= 1
    head = t[:k]
    e = top_find(head, ' = ')
    dest = parse_place(head[:e]) if e >= 0 else None
    callee = (head[e + 3:] if e >= 0 else head).strip()
    args = [parse_operand(a) for a in split_top(t[k + 1:end])]
    return ('call', dest, callee, args, ret)


def parse_block(lines, fn):
    stmts = [parse_stmt(s, fn) for s in lines[:-1]]
    stmts = [s for s in stmts if s[0] != 'nop']
    return (stmts, parse_term(lines[-1], fn))


if __name__ == '__main__':
    import sys
    import time
    t0 = time.time()
    funcs, statics = parse_file(sys.argv[1])
    print(len(funcs), 'functions', len(statics), 'statics', round(time.time() - t0, 2), 's')
    bad = 0
    t0 = time.time()
    for f in funcs.values():
        try:
            f.parsed()
        except Exception as e:   # noqa
            bad += 1
            if bad <= 15:
                print('PARSE FAIL', f.name[:80], '::', repr(e)[:200])
    print('unparsed', bad, round(time.time() - t0, 2), 's')
