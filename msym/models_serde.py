"""serde: a *recording* Serializer.

zerv's `Serialize` impls (derived and hand-written) are ordinary MIR in the crate, generic over the serializer `S`.
This module supplies one `S`: a serializer that records the serde data-model tree the impl emits (struct name, field
keys in order, variant names, sequences, options, scalars).  `ron` prints exactly this tree, so two objects with the same
tree are printed as the same document: injectivity of object -> tree is a necessary condition of the lossless
round trip of C12 (and what `#[serde(skip…)]`, a dropped field or a lossy hand-written impl breaks).

Trees are python tuples whose leaves may be solver terms:
  ('struct', name, [(key, tree)…]) ('unit_variant', v) ('newtype_variant', v, t) ('tuple_variant', v, [t…])
  ('struct_variant', v, [(k, t)…]) ('seq', [t…]) ('map', [(t, t)…]) ('opt', presence, t) ('str', chars) ('prim', term) ('unit',)
"""
import z3

from values import *     # noqa
from models import model, chars_of


def _s(v):
    return ''.join(chr(c) for c in chars_of(v))


def new_serializer():
    return Opaque('TreeSer', None)


def _tree_of_result(r):
    r = peel(r)
    if isinstance(r, Adt) and r.name == 'Result':
        if r.variant != 0:
            raise Unsupported('Serialize impl returned an error')
        r = peel(r.fields[0])
    if isinstance(r, Opaque) and r.kind == 'SerTree':
        return r.state
    raise Unsupported('serializer result is not a tree: %r' % (r,))


def ser_value(I, v):
    """the tree of any value: in-crate types through their Serialize MIR, std types by their documented serde mapping"""
    v = peel(v)
    if isinstance(v, (StringObj, Str)):
        return ('str', list(v.chars))
    if isinstance(v, bool) or isinstance(v, int) or z3.is_expr(v):
        return ('prim', v)
    if isinstance(v, VecObj):
        return ('seq', [ser_value(I, e) for e in v.items])
    if isinstance(v, MapObj):
        return ('map', [(ser_value(I, k), ser_value(I, x)) for k, x in v.entries])
    if isinstance(v, Adt):
        if v.name == 'Option':
            if isinstance(v.variant, int):
                return ('opt', v.variant, ser_value(I, v.fields[0]) if v.variant == 1 else ('unit',))
            return ('opt', v.variant, ser_value(I, v.fields[0]) if v.fields else ('unit',))
        if v.name == 'Box':
            return ser_value(I, v.fields[0])
        if v.name == 'Value':           # serde_json::Value: serialises structurally (serde_json's own impl)
            return ('json', v.variant, [ser_value(I, f) for f in v.fields])
        r = I.call('<%s as Serialize>::serialize' % v.name, [ValPtr(v), new_serializer()])
        return _tree_of_result(r)
    if v is UNIT or v == ():
        return ('unit',)
    raise Unsupported('serde tree of %r' % (v,))


def _ok_tree(t):
    return ok(Opaque('SerTree', t))


@model('<Serialize>::serialize')
def _serialize_std(I, ci, v, s):
    return _ok_tree(ser_value(I, v))


# ---- scalars
for _n in ('bool', 'i8', 'i16', 'i32', 'i64', 'u8', 'u16', 'u32', 'u64', 'usize', 'char'):
    def _mk(n):
        @model('<Serializer>::serialize_' + n)
        def _f(I, ci, s, v):
            return _ok_tree(('prim', peel(v)))
        return _f
    _mk(_n)


@model('<Serializer>::serialize_str')
def _ser_str(I, ci, s, v):
    return _ok_tree(('str', list(chars_of(v))))


@model('<Serializer>::serialize_unit', '<Serializer>::serialize_none')
def _ser_unit(I, ci, s):
    return _ok_tree(('opt', 0, ('unit',)) if ci.method == 'serialize_none' else ('unit',))


@model('<Serializer>::serialize_some')
def _ser_some(I, ci, s, v):
    return _ok_tree(('opt', 1, ser_value(I, v)))


@model('<Serializer>::serialize_unit_struct')
def _ser_unit_struct(I, ci, s, name):
    return _ok_tree(('struct', _s(name), []))


@model('<Serializer>::serialize_newtype_struct')
def _ser_newtype_struct(I, ci, s, name, v):
    return _ok_tree(('struct', _s(name), [('0', ser_value(I, v))]))


@model('<Serializer>::serialize_unit_variant')
def _ser_unit_variant(I, ci, s, name, idx, variant):
    return _ok_tree(('unit_variant', _s(variant)))


@model('<Serializer>::serialize_newtype_variant')
def _ser_newtype_variant(I, ci, s, name, idx, variant, v):
    return _ok_tree(('newtype_variant', _s(variant), ser_value(I, v)))


# ---- compound builders
@model('<Serializer>::serialize_struct')
def _ser_struct(I, ci, s, name, n):
    return ok(Opaque('SerBuild', ['struct', _s(name), []]))


@model('<Serializer>::serialize_struct_variant')
def _ser_struct_variant(I, ci, s, name, idx, variant, n):
    return ok(Opaque('SerBuild', ['struct_variant', _s(variant), []]))


@model('<Serializer>::serialize_tuple_variant')
def _ser_tuple_variant(I, ci, s, name, idx, variant, n):
    return ok(Opaque('SerBuild', ['tuple_variant', _s(variant), []]))


@model('<Serializer>::serialize_tuple_struct')
def _ser_tuple_struct(I, ci, s, name, n):
    return ok(Opaque('SerBuild', ['tuple_variant', _s(name), []]))


@model('<Serializer>::serialize_seq', '<Serializer>::serialize_tuple')
def _ser_seq(I, ci, s, n):
    return ok(Opaque('SerBuild', ['seq', None, []]))


@model('<Serializer>::serialize_map')
def _ser_map(I, ci, s, n):
    return ok(Opaque('SerBuild', ['map', None, []]))


@model('<SerializeStruct>::serialize_field', '<SerializeStructVariant>::serialize_field')
def _ser_field_kv(I, ci, st, key, v):
    peel(st).state[2].append((_s(key), ser_value(I, v)))
    return ok(UNIT)


@model('<SerializeStruct>::skip_field', '<SerializeStructVariant>::skip_field')
def _ser_skip(I, ci, st, key):
    return ok(UNIT)


@model('<SerializeTupleVariant>::serialize_field', '<SerializeTupleStruct>::serialize_field', '<SerializeSeq>::serialize_element', '<SerializeTuple>::serialize_element')
def _ser_field_v(I, ci, st, v):
    peel(st).state[2].append(ser_value(I, v))
    return ok(UNIT)


@model('<SerializeMap>::serialize_entry')
def _ser_entry(I, ci, st, k, v):
    peel(st).state[2].append((ser_value(I, k), ser_value(I, v)))
    return ok(UNIT)


@model('<SerializeStruct>::end', '<SerializeStructVariant>::end', '<SerializeTupleVariant>::end', '<SerializeTupleStruct>::end', '<SerializeSeq>::end',
       '<SerializeTuple>::end', '<SerializeMap>::end')
def _ser_end(I, ci, st):
    kind, name, items = peel(st).state
    if kind in ('seq', 'map'):
        return _ok_tree((kind, list(items)))
    return _ok_tree((kind, name, list(items)))


# ------------------------------------------------------------------ tree comparison as a solver formula
def tree_eq(a, b):
    """z3 formula (or python bool): the two trees are the same document"""
    if a[0] != b[0]:
        return False
    k = a[0]
    if k == 'unit':
        return True
    if k == 'prim':
        x, y = a[1], b[1]
        if not z3.is_expr(x) and not z3.is_expr(y):
            return x == y
        return _t(x) == _t(y)
    if k == 'str':
        if len(a[1]) != len(b[1]):
            return False
        return conj_([_t(x) == _t(y) if (z3.is_expr(x) or z3.is_expr(y)) else x == y for x, y in zip(a[1], b[1])])
    if k == 'opt':
        pa, pb = a[1], b[1]
        if isinstance(pa, int) and isinstance(pb, int):
            return pa == pb and (pa == 0 or tree_eq(a[2], b[2]))
        inner = tree_eq(a[2], b[2]) if a[2][0] == b[2][0] else False
        return z3.And(_t(pa) == _t(pb), z3.Or(_t(pa) == 0, _b(inner)))
    if k in ('unit_variant',):
        return a[1] == b[1]
    if k == 'newtype_variant':
        return a[1] == b[1] and tree_eq(a[2], b[2])
    if k in ('struct', 'struct_variant'):
        if a[1] != b[1] or [x[0] for x in a[2]] != [x[0] for x in b[2]]:
            return False
        return conj_([tree_eq(x[1], y[1]) for x, y in zip(a[2], b[2])])
    if k == 'tuple_variant':
        if a[1] != b[1] or len(a[2]) != len(b[2]):
            return False
        return conj_([tree_eq(x, y) for x, y in zip(a[2], b[2])])
    if k == 'seq':
        if len(a[1]) != len(b[1]):
            return False
        return conj_([tree_eq(x, y) for x, y in zip(a[1], b[1])])
    if k == 'map':
        if len(a[1]) != len(b[1]):
            return False
        return conj_([conj_([tree_eq(x[0], y[0]), tree_eq(x[1], y[1])]) for x, y in zip(a[1], b[1])])
    if k == 'json':
        if not (isinstance(a[1], int) and isinstance(b[1], int)) or a[1] != b[1] or len(a[2]) != len(b[2]):
            return a is b
        return conj_([tree_eq(x, y) for x, y in zip(a[2], b[2])])
    raise Unsupported('tree kind %r' % (k,))


def _t(x):
    if isinstance(x, bool):
        return z3.IntVal(int(x))
    if isinstance(x, int):
        return z3.IntVal(x)
    if z3.is_bool(x):
        return z3.If(x, z3.IntVal(1), z3.IntVal(0))
    return x


def _b(x):
    return z3.BoolVal(x) if isinstance(x, bool) else x


def conj_(xs):
    if any(x is False for x in xs):
        return False
    ys = [x for x in xs if x is not True]
    if not ys:
        return True
    return z3.And(*[_b(y) for y in ys])


def struct_keys(t, out=None):
    """all (struct name, key list) pairs of a tree (for the duplicate-key obligation)"""
    out = [] if out is None else out
    k = t[0]
    if k in ('struct', 'struct_variant'):
        out.append((t[1], [x[0] for x in t[2]]))
        for x in t[2]:
            struct_keys(x[1], out)
    elif k in ('newtype_variant', 'opt'):
        struct_keys(t[2], out)
    elif k in ('tuple_variant',):
        for x in t[2]:
            struct_keys(x, out)
    elif k == 'seq':
        for x in t[1]:
            struct_keys(x, out)
    elif k == 'map':
        for x in t[1]:
            struct_keys(x[0], out)
            struct_keys(x[1], out)
    return out
