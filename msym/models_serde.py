"""serde: a *recording* Serializer.

zerv's `Serialize` impls (derived and hand-written) are ordinary MIR in the crate, generic over the serializer `S`.
This module supplies one `S`: a serializer that records the serde data-model tree the impl emits (struct name, field
keys in order, variant names, sequences, options, scalars).  `ron` prints exactly this tree, so two objects with the same
tree are printed as the same document: injectivity of object -> tree is a necessary condition of the lossless
round trip of C12 (and what `#[serde(skip…)]`, a dropped field or a lossy hand-written impl breaks).

Trees are python tuples whose leaves may be solver terms:
  ('struct', name, [(key, tree)…]) ('unit_variant', v) ('newtype_variant', v, t) ('tuple_variant', v, [t…])
  ('struct_variant', v, [(k, t)…]) ('seq', [t…]) ('map', [(t, t)…]) ('opt', presence, t) ('str', chars) ('prim', term) ('unit',)
"""
import re

import z3

from values import *     # noqa
from models import model, chars_of
from mirparse import split_top


def _s(v):
    return ''.join(chr(c) for c in chars_of(v))


def new_serializer():
    return Opaque('TreeSer', None)


def _tree_of_result(r):
    r = peel(r)
    if isinstance(r, Adt) and r.name == 'Result':
        if r.variant != 0:
            raise Unsupported('Serialize impl returned an error')
        r = peel(r.fields[0])
    if isinstance(r, Opaque) and r.kind == 'SerTree':
        return r.state
    raise Unsupported('serializer result is not a tree: %r' % (r,))


def _inner_ty(ty, base):
    if not ty:
        return None
    t = _de_norm(ty)
    if strip_generics_(t).split('::')[-1] != base:
        return None
    from interp import generic_args
    ga = generic_args(t)
    return ga[0].strip() if ga else None


def ser_value(I, v, ty=None):
    """the tree of any value: in-crate types through their Serialize MIR, std types by their documented serde mapping.
    `ty` = the static type written at the call site (turbofish of serialize_field/…): it selects the impl when two
    in-crate types share a name (`zerv::core::PreReleaseLabel` / `flow::branch_rules::PreReleaseLabel`)"""
    v = peel(v)
    if isinstance(v, (StringObj, Str)):
        return ('str', list(v.chars))
    if isinstance(v, bool) or isinstance(v, int) or z3.is_expr(v):
        return ('prim', v)
    if isinstance(v, VecObj):
        it = _inner_ty(ty, 'Vec')
        return ('seq', [ser_value(I, e, it) for e in v.items])
    if isinstance(v, MapObj):
        return ('map', [(ser_value(I, k), ser_value(I, x)) for k, x in v.entries])
    if isinstance(v, Adt):
        if v.name == 'Option':
            it = _inner_ty(ty, 'Option')
            if isinstance(v.variant, int):
                return ('opt', v.variant, ser_value(I, v.fields[0], it) if v.variant == 1 else ('unit',))
            return ('opt', v.variant, ser_value(I, v.fields[0], it) if v.fields else ('unit',))
        if v.name == 'Box':
            return ser_value(I, v.fields[0], _inner_ty(ty, 'Box'))
        if v.name == 'Value':           # serde_json::Value: serialises structurally (serde_json's own impl)
            return ('json', v.variant, [ser_value(I, f) for f in v.fields])
        name = v.name
        if ty:
            t = _de_norm(ty)
            if strip_generics_(t).split('::')[-1] == v.name:
                name = t
        r = I.call('<%s as Serialize>::serialize' % name, [ValPtr(v), new_serializer()])
        return _tree_of_result(r)
    if v is UNIT or v == ():
        return ('unit',)
    raise Unsupported('serde tree of %r' % (v,))


def _vty(ci):
    """static type of the value argument of a serializer method: its turbofish (`serialize_field::<T>`)"""
    try:
        last = ci.path[-1] if ci.path else ''
        if last.startswith('<') and not last.startswith('<impl'):
            a = [x.strip() for x in split_top(last[1:-1])]
            return a[-1] if a else None
    except Exception:
        pass
    return None


def _ok_tree(t):
    return ok(Opaque('SerTree', t))


@model('<Serialize>::serialize')
def _serialize_std(I, ci, v, s):
    return _ok_tree(ser_value(I, v, ci.selfty_full))


# ---- scalars
for _n in ('bool', 'i8', 'i16', 'i32', 'i64', 'u8', 'u16', 'u32', 'u64', 'usize', 'char'):
    def _mk(n):
        @model('<Serializer>::serialize_' + n)
        def _f(I, ci, s, v):
            return _ok_tree(('prim', peel(v)))
        return _f
    _mk(_n)


@model('<Serializer>::serialize_str')
def _ser_str(I, ci, s, v):
    return _ok_tree(('str', list(chars_of(v))))


@model('<Serializer>::serialize_unit', '<Serializer>::serialize_none')
def _ser_unit(I, ci, s):
    return _ok_tree(('opt', 0, ('unit',)) if ci.method == 'serialize_none' else ('unit',))


@model('<Serializer>::serialize_some')
def _ser_some(I, ci, s, v):
    return _ok_tree(('opt', 1, ser_value(I, v, _vty(ci))))


@model('<Serializer>::serialize_unit_struct')
def _ser_unit_struct(I, ci, s, name):
    return _ok_tree(('struct', _s(name), []))


@model('<Serializer>::serialize_newtype_struct')
def _ser_newtype_struct(I, ci, s, name, v):
    return _ok_tree(('struct', _s(name), [('0', ser_value(I, v, _vty(ci)))]))


@model('<Serializer>::serialize_unit_variant')
def _ser_unit_variant(I, ci, s, name, idx, variant):
    return _ok_tree(('unit_variant', _s(variant)))


@model('<Serializer>::serialize_newtype_variant')
def _ser_newtype_variant(I, ci, s, name, idx, variant, v):
    return _ok_tree(('newtype_variant', _s(variant), ser_value(I, v, _vty(ci))))


# ---- compound builders
@model('<Serializer>::serialize_struct')
def _ser_struct(I, ci, s, name, n):
    return ok(Opaque('SerBuild', ['struct', _s(name), []]))


@model('<Serializer>::serialize_struct_variant')
def _ser_struct_variant(I, ci, s, name, idx, variant, n):
    return ok(Opaque('SerBuild', ['struct_variant', _s(variant), []]))


@model('<Serializer>::serialize_tuple_variant')
def _ser_tuple_variant(I, ci, s, name, idx, variant, n):
    return ok(Opaque('SerBuild', ['tuple_variant', _s(variant), []]))


@model('<Serializer>::serialize_tuple_struct')
def _ser_tuple_struct(I, ci, s, name, n):
    return ok(Opaque('SerBuild', ['tuple_variant', _s(name), []]))


@model('<Serializer>::serialize_seq', '<Serializer>::serialize_tuple')
def _ser_seq(I, ci, s, n):
    return ok(Opaque('SerBuild', ['seq', None, []]))


@model('<Serializer>::serialize_map')
def _ser_map(I, ci, s, n):
    return ok(Opaque('SerBuild', ['map', None, []]))


@model('<SerializeStruct>::serialize_field', '<SerializeStructVariant>::serialize_field')
def _ser_field_kv(I, ci, st, key, v):
    peel(st).state[2].append((_s(key), ser_value(I, v, _vty(ci))))
    return ok(UNIT)


@model('<SerializeStruct>::skip_field', '<SerializeStructVariant>::skip_field')
def _ser_skip(I, ci, st, key):
    return ok(UNIT)


@model('<SerializeTupleVariant>::serialize_field', '<SerializeTupleStruct>::serialize_field', '<SerializeSeq>::serialize_element', '<SerializeTuple>::serialize_element')
def _ser_field_v(I, ci, st, v):
    peel(st).state[2].append(ser_value(I, v, _vty(ci)))
    return ok(UNIT)


@model('<SerializeMap>::serialize_entry')
def _ser_entry(I, ci, st, k, v):
    peel(st).state[2].append((ser_value(I, k), ser_value(I, v)))
    return ok(UNIT)


@model('<SerializeStruct>::end', '<SerializeStructVariant>::end', '<SerializeTupleVariant>::end', '<SerializeTupleStruct>::end', '<SerializeSeq>::end',
       '<SerializeTuple>::end', '<SerializeMap>::end')
def _ser_end(I, ci, st):
    kind, name, items = peel(st).state
    if kind in ('seq', 'map'):
        return _ok_tree((kind, list(items)))
    return _ok_tree((kind, name, list(items)))


# ------------------------------------------------------------------ tree comparison as a solver formula
def tree_eq(a, b):
    """z3 formula (or python bool): the two trees are the same document"""
    if a[0] != b[0]:
        return False
    k = a[0]
    if k == 'unit':
        return True
    if k == 'prim':
        x, y = a[1], b[1]
        if not z3.is_expr(x) and not z3.is_expr(y):
            return x == y
        return _t(x) == _t(y)
    if k == 'str':
        if len(a[1]) != len(b[1]):
            return False
        return conj_([_t(x) == _t(y) if (z3.is_expr(x) or z3.is_expr(y)) else x == y for x, y in zip(a[1], b[1])])
    if k == 'opt':
        pa, pb = a[1], b[1]
        if isinstance(pa, int) and isinstance(pb, int):
            return pa == pb and (pa == 0 or tree_eq(a[2], b[2]))
        inner = tree_eq(a[2], b[2]) if a[2][0] == b[2][0] else False
        return z3.And(_t(pa) == _t(pb), z3.Or(_t(pa) == 0, _b(inner)))
    if k in ('unit_variant',):
        return a[1] == b[1]
    if k == 'newtype_variant':
        return a[1] == b[1] and tree_eq(a[2], b[2])
    if k in ('struct', 'struct_variant'):
        if a[1] != b[1] or [x[0] for x in a[2]] != [x[0] for x in b[2]]:
            return False
        return conj_([tree_eq(x[1], y[1]) for x, y in zip(a[2], b[2])])
    if k == 'tuple_variant':
        if a[1] != b[1] or len(a[2]) != len(b[2]):
            return False
        return conj_([tree_eq(x, y) for x, y in zip(a[2], b[2])])
    if k == 'seq':
        if len(a[1]) != len(b[1]):
            return False
        return conj_([tree_eq(x, y) for x, y in zip(a[1], b[1])])
    if k == 'map':
        if len(a[1]) != len(b[1]):
            return False
        return conj_([conj_([tree_eq(x[0], y[0]), tree_eq(x[1], y[1])]) for x, y in zip(a[1], b[1])])
    if k == 'json':
        if not (isinstance(a[1], int) and isinstance(b[1], int)) or a[1] != b[1] or len(a[2]) != len(b[2]):
            return a is b
        return conj_([tree_eq(x, y) for x, y in zip(a[2], b[2])])
    raise Unsupported('tree kind %r' % (k,))


def _t(x):
    if isinstance(x, bool):
        return z3.IntVal(int(x))
    if isinstance(x, int):
        return z3.IntVal(x)
    if z3.is_bool(x):
        return z3.If(x, z3.IntVal(1), z3.IntVal(0))
    return x


def _b(x):
    return z3.BoolVal(x) if isinstance(x, bool) else x


def conj_(xs):
    if any(x is False for x in xs):
        return False
    ys = [x for x in xs if x is not True]
    if not ys:
        return True
    return z3.And(*[_b(y) for y in ys])


def struct_keys(t, out=None):
    """all (struct name, key list) pairs of a tree (for the duplicate-key obligation)"""
    out = [] if out is None else out
    k = t[0]
    if k in ('struct', 'struct_variant'):
        out.append((t[1], [x[0] for x in t[2]]))
        for x in t[2]:
            struct_keys(x[1], out)
    elif k in ('newtype_variant', 'opt'):
        struct_keys(t[2], out)
    elif k in ('tuple_variant',):
        for x in t[2]:
            struct_keys(x, out)
    elif k == 'seq':
        for x in t[1]:
            struct_keys(x, out)
    elif k == 'map':
        for x in t[1]:
            struct_keys(x[0], out)
            struct_keys(x[1], out)
    return out


# ====================================================================== the other direction: a *replaying* Deserializer
# zerv's derived / hand-written `Deserialize` impls (visitors, field-identifier matchers, `missing_field` defaults,
# `deserialize_with` helpers) are ordinary MIR generic over the deserializer `D`.  This part supplies one `D`: a
# deserializer that feeds a recorded serde data-model tree back into those impls — what `ron` does with the document it
# printed from that tree (struct -> visit_map with the keys in document order, enum -> visit_enum, identifiers ->
# visit_str, option -> none/some, scalars, strings, sequences).  Composed with the recording serializer this decides
# "emit -> parse gives an identical object" at the serde data-model level with the contents symbolic; the text layer of
# `ron` (printer and parser) is the trusted boundary and is exercised natively on every run.
_DE_INDEX = {}


def _de_norm(t):
    t = re.sub(r"'\w+\s*,?\s*", '', t.strip())
    t = t.replace('<>', '')
    t = re.sub(r'^&(mut )?', '', t).strip()
    return t


def _de_target(t):
    """(deserialised type text, nested item) of a derive-generated helper type such as
    `zerv::core::_::<impl Deserialize<'de> for PreReleaseVar>::deserialize::__Visitor<'_>`"""
    t = _de_norm(t)
    m = re.search(r"<impl (?:[\w:]+::)?Deserialize for (.+?)>::deserialize::(.+)$", t)
    if not m:
        return None
    return m.group(1).strip(), m.group(2).strip()


def _item(t):
    return re.sub(r'\s+', ' ', t.strip())


def _same_type(a, b):
    sa, sb = [x for x in strip_generics_(a).split('::') if x], [x for x in strip_generics_(b).split('::') if x]
    n = min(len(sa), len(sb))
    return n > 0 and sa[-n:] == sb[-n:]


def strip_generics_(t):
    out, d = [], 0
    for ch in t:
        if ch == '<':
            d += 1
        elif ch == '>':
            d -= 1
        elif d == 0:
            out.append(ch)
    return ''.join(out)


def _de_index(I):
    """index of the Deserialize machinery in the dump: outer `deserialize` per type, and the derive helpers
    (visit_* of __FieldVisitor/__Visitor, deserialize of __Field/__DeserializeWith) per (type, helper, method)"""
    idx = _DE_INDEX.get(id(I.prog))
    if idx is not None:
        return idx
    outer, inner = [], []
    for name, f in I.prog.funcs.items():
        if f.kind != 'fn' or '<impl at ' not in name:
            continue
        meth = name.rsplit('::', 1)[-1]
        nimpl = name.count('<impl at ')
        if meth == 'deserialize' and nimpl == 1 and name.endswith('>::deserialize') and len(f.params) == 1 and 'Deserializer' in (f.ret or ''):
            from interp import generic_args
            ga = generic_args(_de_norm(f.ret))
            if ga:
                outer.append((ga[0].strip(), f))
            continue
        if nimpl >= 2 and '>::deserialize::<impl at ' in name:
            if meth == 'deserialize':
                from interp import generic_args
                ga = generic_args(_de_norm(f.ret or ''))
                tgt = _de_target(ga[0]) if ga else None
            else:
                tgt = _de_target(f.params[0][1]) if f.params else None
            if tgt:
                inner.append((tgt[0], _item(tgt[1]), meth, f))
    idx = dict(outer=outer, inner=inner)
    _DE_INDEX[id(I.prog)] = idx
    return idx


def _de_outer(I, ty):
    c = [f for t, f in _de_index(I)['outer'] if _same_type(t, ty)]
    exact = [f for t, f in _de_index(I)['outer'] if _de_norm(t) == _de_norm(ty)]
    if len(exact) == 1:
        return exact[0]
    if len(c) == 1:
        return c[0]
    return None


def _de_inner(I, helper_ty, meth):
    tgt = _de_target(helper_ty)
    if tgt is None:
        raise Unsupported('deserialize helper type %s' % helper_ty)
    ty, item = tgt[0], _item(tgt[1])
    c = [f for t, it, m, f in _de_index(I)['inner'] if m == meth and it == item and _same_type(t, ty)]
    exact = [f for t, it, m, f in _de_index(I)['inner'] if m == meth and it == item and _de_norm(t) == _de_norm(ty)]
    if len(exact) == 1:
        return exact[0]
    if len(c) == 1:
        return c[0]
    raise Unsupported('no unique %s for %s (%d candidates)' % (meth, helper_ty, len(c)))


def _turbofish(ci):
    last = ci.path[-1] if ci.path else ''
    if last.startswith('<') and not last.startswith('<impl'):
        return [a.strip() for a in split_top(last[1:-1]) if not a.strip().startswith("'")]
    return []


def _de_err(msg):
    return err(Opaque('DeError', msg))


def new_deserializer(tree):
    return Opaque('TreeDe', tree)


_PRIMS = ('bool', 'u8', 'u16', 'u32', 'u64', 'usize', 'i8', 'i16', 'i32', 'i64', 'isize', 'char')


def de_value(I, ty, tree):
    """Result<value of type `ty`, DeError> from a recorded tree: in-crate types through their Deserialize MIR,
    std types by serde's documented impls"""
    ty = _de_norm(ty)
    base = strip_generics_(ty).split('::')[-1]
    if base == 'Option':
        from interp import generic_args
        inner = generic_args(ty)[0]
        if tree[0] != 'opt':
            return _de_err('expected option')
        p = tree[1]
        if isinstance(p, int):
            if p == 0:
                return ok(none())
            r = de_value(I, inner, tree[2])
            return ok(some(r.fields[0])) if r.variant == 0 else r
        r = de_value(I, inner, tree[2])
        if r.variant != 0:
            raise Unsupported('deserialisation error under a symbolic option presence: %s %r' % (inner, peel(r.fields[0]).state))
        return ok(Adt('Option', p, [r.fields[0]]))
    if base in _PRIMS:
        if tree[0] != 'prim':
            return _de_err('expected ' + base)
        return ok(tree[1])
    if base in ('String', 'str'):
        if tree[0] != 'str':
            return _de_err('expected string for %s, tree %r' % (ty, tree[:2]))
        return ok(StringObj(list(tree[1])))
    if base == 'Vec':
        from interp import generic_args
        inner = generic_args(ty)[0]
        if tree[0] != 'seq':
            return _de_err('expected sequence')
        out = []
        for t in tree[1]:
            r = de_value(I, inner, t)
            if r.variant != 0:
                return r
            out.append(r.fields[0])
        return ok(VecObj(out))
    if base == 'Value':
        # serde_json::Value through ron's deserialize_any: only what the checks emit (objects of strings / empty object)
        if tree[0] != 'json':
            return _de_err('expected json value')
        return ok(Adt('Value', tree[1], [_unser(x) for x in tree[2]]))
    if base == 'IgnoredAny':
        return ok(Adt('IgnoredAny', 0, []))
    if base == 'PhantomData':
        return ok(Adt('PhantomData', 0, []))
    fn = _de_inner(I, ty, 'deserialize') if '>::deserialize::' in ty else _de_outer(I, ty)
    if fn is None:
        raise Unsupported('no Deserialize impl in the dump for ' + ty)
    I.genv.append(None)
    try:
        return I.run(fn, [new_deserializer(tree)])
    finally:
        I.genv.pop()


def _unser(t):
    k = t[0]
    if k == 'str':
        return StringObj(list(t[1]))
    if k == 'prim':
        return t[1]
    if k == 'seq':
        return VecObj([_unser(x) for x in t[1]])
    if k == 'map':
        return MapObj([(_unser(a), _unser(b)) for a, b in t[1]], 'Map')
    if k == 'json':
        return Adt('Value', t[1], [_unser(x) for x in t[2]])
    raise Unsupported('json subtree %r' % (k,))


def _tree_of_de(de):
    de = peel(de)
    if isinstance(de, Opaque) and de.kind == 'TreeDe':
        return de.state
    raise Unsupported('not a tree deserializer: %r' % (de,))


def _visit(I, vty, meth, visitor, *args):
    fn = _de_inner(I, vty, meth)
    I.genv.append(None)
    try:
        return I.run(fn, [visitor] + list(args))
    finally:
        I.genv.pop()


@model('<Deserialize>::deserialize')
def _de_deserialize(I, ci, de):
    return de_value(I, ci.selfty_full, _tree_of_de(de))


@model('<Deserializer>::deserialize_struct')
def _de_struct(I, ci, de, name, fields, visitor):
    t = _tree_of_de(de)
    if t[0] != 'struct':
        return _de_err('expected struct ' + _s(name))
    if t[1] != _s(name):
        return _de_err('expected struct %s, found %s' % (_s(name), t[1]))
    return _visit(I, _turbofish(ci)[0], 'visit_map', visitor, Opaque('DeMap', dict(items=list(t[2]), i=0)))


@model('<Deserializer>::deserialize_enum')
def _de_enum(I, ci, de, name, variants, visitor):
    t = _tree_of_de(de)
    if t[0] not in ('unit_variant', 'newtype_variant', 'tuple_variant', 'struct_variant'):
        return _de_err('expected enum ' + _s(name))
    return _visit(I, _turbofish(ci)[0], 'visit_enum', visitor, Opaque('DeEnum', t))


@model('<Deserializer>::deserialize_identifier')
def _de_ident(I, ci, de, visitor):
    t = _tree_of_de(de)
    if t[0] != 'ident':
        return _de_err('expected identifier')
    return _visit(I, _turbofish(ci)[0], 'visit_str', visitor, Str([ord(c) for c in t[1]]))


@model('<Deserializer>::deserialize_seq', '<Deserializer>::deserialize_tuple')
def _de_seq(I, ci, de, *rest):
    t = _tree_of_de(de)
    if t[0] != 'seq':
        return _de_err('expected sequence')
    return _visit(I, _turbofish(ci)[0], 'visit_seq', rest[-1], Opaque('DeSeq', dict(items=list(t[1]), i=0)))


@model('<Deserializer>::deserialize_str', '<Deserializer>::deserialize_string')
def _de_str(I, ci, de, visitor):
    t = _tree_of_de(de)
    if t[0] != 'str':
        return _de_err('expected string')
    return _visit(I, _turbofish(ci)[0], 'visit_str', visitor, Str(list(t[1])))


@model('<Deserializer>::deserialize_option')
def _de_option(I, ci, de, visitor):
    t = _tree_of_de(de)
    if t[0] != 'opt' or not isinstance(t[1], int):
        raise Unsupported('deserialize_option with an in-crate visitor on %r' % (t[0],))
    if t[1] == 0:
        return _visit(I, _turbofish(ci)[0], 'visit_none', visitor)
    return _visit(I, _turbofish(ci)[0], 'visit_some', visitor, new_deserializer(t[2]))


def _field_of(I, kty, name):
    """the derive's field/variant identifier for a key: `<__Field as Deserialize>::deserialize` on an identifier"""
    fn = _de_inner(I, kty, 'deserialize')
    I.genv.append(None)
    try:
        return I.run(fn, [new_deserializer(('ident', name))])
    finally:
        I.genv.pop()


@model('<MapAccess>::next_key')
def _de_next_key(I, ci, m):
    st = peel(m).state
    if st['i'] >= len(st['items']):
        return ok(none())
    r = _field_of(I, _turbofish(ci)[0], st['items'][st['i']][0])
    return ok(some(r.fields[0])) if r.variant == 0 else r


@model('<MapAccess>::next_value')
def _de_next_value(I, ci, m):
    st = peel(m).state
    t = st['items'][st['i']][1]
    st['i'] += 1
    return de_value(I, _turbofish(ci)[0], t)


@model('<SeqAccess>::next_element')
def _de_next_element(I, ci, s):
    st = peel(s).state
    if st['i'] >= len(st['items']):
        return ok(none())
    t = st['items'][st['i']]
    st['i'] += 1
    r = de_value(I, _turbofish(ci)[0], t)
    return ok(some(r.fields[0])) if r.variant == 0 else r


@model('<SeqAccess>::size_hint', '<MapAccess>::size_hint')
def _de_size_hint(I, ci, s):
    return none()


@model('<EnumAccess>::variant')
def _de_variant(I, ci, e):
    t = peel(e).state
    r = _field_of(I, _turbofish(ci)[0], t[1])
    if r.variant != 0:
        return r
    return ok(Tuple(r.fields[0], Opaque('DeVariant', t)))


@model('<VariantAccess>::unit_variant')
def _de_unit_variant(I, ci, v):
    t = peel(v).state
    return ok(UNIT) if t[0] == 'unit_variant' else _de_err('expected unit variant')


@model('<VariantAccess>::newtype_variant')
def _de_newtype_variant(I, ci, v):
    t = peel(v).state
    if t[0] != 'newtype_variant':
        return _de_err('expected newtype variant')
    return de_value(I, _turbofish(ci)[0], t[2])


@model('<VariantAccess>::tuple_variant')
def _de_tuple_variant(I, ci, v, n, visitor):
    t = peel(v).state
    if t[0] != 'tuple_variant':
        return _de_err('expected tuple variant')
    return _visit(I, _turbofish(ci)[0], 'visit_seq', visitor, Opaque('DeSeq', dict(items=list(t[2]), i=0)))


@model('<VariantAccess>::struct_variant')
def _de_struct_variant(I, ci, v, fields, visitor):
    t = peel(v).state
    if t[0] != 'struct_variant':
        return _de_err('expected struct variant')
    return _visit(I, _turbofish(ci)[0], 'visit_map', visitor, Opaque('DeMap', dict(items=list(t[2]), i=0)))


@model('missing_field')
def _de_missing_field(I, ci, name):
    # serde::__private::de::missing_field::<V, E>: Option<T> fields default to None, every other type is an error
    tys = _turbofish(ci)
    tys = [t for t in tys if not t.startswith("'")]
    if tys and strip_generics_(_de_norm(tys[0])).split('::')[-1] == 'Option':
        return ok(none())
    return _de_err('missing field `%s`' % _s(name))


@model('<Error>::duplicate_field', '<Error>::missing_field', '<Error>::unknown_field', '<Error>::unknown_variant', '<Error>::invalid_length',
       '<Error>::invalid_value', '<Error>::invalid_type', '<Error>::custom')
def _de_error_ctor(I, ci, *args):
    what = ''
    try:
        what = ' ' + _s(args[0])
    except Exception:
        pass
    return Opaque('DeError', ci.method + what)


def _de_names_const(I, text):
    # `FIELDS` / `VARIANTS` of a derived Deserialize impl: only handed to the deserializer (ignored by the replaying one)
    if re.search(r">::deserialize::(FIELDS|VARIANTS)$", text.strip()):
        return Slice([])
    # zero-sized derive helpers written as constants: `…::deserialize::__Visitor::<'_> {{ marker: PhantomData…, … }}`, `__FieldVisitor`
    m = re.search(r">::deserialize::(__\w+)", text)
    if m and ('{{' in text or text.strip().endswith(m.group(1))):
        return Adt(m.group(1), 0, [])
    return None


from models import CONSTS as _CONSTS
_CONSTS.append(_de_names_const)


def ignore_index(I, field_ty):
    """discriminant of `__Field::__ignore` of a derived impl = number of named fields (from the impl's own visit_str body)"""
    tgt = _de_target(field_ty or '')
    if tgt is None:
        raise Unsupported('__ignore of %r' % (field_ty,))
    fn = _de_inner(I, re.sub(r'__Field\b', '__FieldVisitor', _de_norm(field_ty)), 'visit_str')
    ks = [int(x) for x in re.findall(r'__Field::__field(\d+)', '\n'.join(l for ls in fn.raw.values() for l in ls))]
    return max(ks) + 1 if ks else 0


# ====================================================================== ron entry points: documents as opaque texts
# `ron::ser::to_string_pretty(&v, cfg)` / `ron::to_string(&v)` give a text `<ron-doc#N>` that stands for the document
# ron prints from v's serde tree; `ron::from_str::<T>` / `ron::de::from_str::<T>` on such a text replays the tree into
# T's Deserialize impl.  Any other text handed to the parser is unsupported (malformed documents are outside).
RON_DOCS = []


def emit_doc(I, v, ty=None):
    RON_DOCS.append(ser_value(I, v, ty))
    return '<ron-doc#%d>' % (len(RON_DOCS) - 1)


@model('ser::to_string_pretty', 'ron::to_string', 'ser::to_string')
def _ron_to_string(I, ci, v, *cfg):
    tf = _turbofish(ci)
    return ok(StringObj([ord(c) for c in emit_doc(I, v, tf[0] if tf else None)]))


@model('ron::from_str', 'de::from_str')
def _ron_from_str(I, ci, s):
    cs = chars_of(s)
    if not all(isinstance(c, int) for c in cs):
        raise Unsupported('ron::from_str on a symbolic text')
    m = re.match(r'<ron-doc#(\d+)>$', ''.join(chr(c) for c in cs))
    if not m:
        raise Unsupported('ron::from_str on a text that is not an emitted document')
    tf = _turbofish(ci)
    if not tf:
        raise Unsupported('ron::from_str without a target type')
    return de_value(I, tf[0], RON_DOCS[int(m.group(1))])


import models_std as _MSTD
_MSTD.DEFAULTS['PrettyConfig'] = lambda: Opaque('PrettyConfig', None)
