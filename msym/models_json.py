"""serde_json::Value (= tera::Value) as an ordinary enum value: Null Bool Number String Array Object(Map)."""
import z3

from values import *     # noqa
from models import model, fallback, chars_of, struct_eq
import models_std as MS

VALUE = ['Null', 'Bool', 'Number', 'String', 'Array', 'Object']


def jnull():
    return Adt('Value', 0, [])


def jstr(cs):
    return Adt('Value', 3, [StringObj(cs)])


def jnum(n):
    return Adt('Value', 2, [Adt('Number', 0, [n])])


def jbool(b):
    return Adt('Value', 1, [b])


def jobj(entries):
    return Adt('Value', 5, [MapObj(entries, 'Map')])


MS.DEFAULTS['Value'] = jnull


def jv(v):
    v = peel(v)
    if not (isinstance(v, Adt) and v.name == 'Value'):
        raise Unsupported('not a json value: %r' % (v,))
    return v


@model('Value::as_str')
def _as_str(I, ci, v):
    v = jv(v)
    return some(Str(v.fields[0].chars)) if v.variant == 3 else none()


@model('Value::as_u64')
def _as_u64(I, ci, v):
    v = jv(v)
    if v.variant != 2:
        return none()
    n = v.fields[0].fields[0]
    if isinstance(n, int):
        return some(n) if 0 <= n < 2**64 else none()
    if I.world.branch(z3.And(n >= 0, n < 2**64)):
        return some(n)
    return none()


@model('Value::as_i64')
def _as_i64(I, ci, v):
    v = jv(v)
    if v.variant != 2:
        return none()
    n = v.fields[0].fields[0]
    if isinstance(n, int):
        return some(n) if -2**63 <= n < 2**63 else none()
    if I.world.branch(z3.And(n >= -2**63, n < 2**63)):
        return some(n)
    return none()


@model('Value::as_bool')
def _as_bool(I, ci, v):
    v = jv(v)
    return some(v.fields[0]) if v.variant == 1 else none()


@model('Value::is_null')
def _is_null(I, ci, v):
    return jv(v).variant == 0


@model('Value::is_string')
def _is_string(I, ci, v):
    return jv(v).variant == 3


@model('Value::as_object')
def _as_object(I, ci, v):
    v = jv(v)
    return some(ValPtr(v.fields[0])) if v.variant == 5 else none()


@model('Value::as_array')
def _as_array(I, ci, v):
    v = jv(v)
    return some(ValPtr(v.fields[0])) if v.variant == 4 else none()


@model('Value::get')
def _get(I, ci, v, key):
    v = jv(v)
    k = peel(key)
    if isinstance(k, (Str, StringObj)):
        if v.variant != 5:
            return none()
        r = MS.map_get(I, v.fields[0], k)
        return none() if r is None else some(r)
    if v.variant != 4:
        return none()
    items = v.fields[0].items
    i = I.world.concretize_int(k, what='json index')
    return some(ElemPtr(ValPtr(v.fields[0]), i)) if i < len(items) else none()


@model('Number::to_string')
def _num_to_string(I, ci, n):
    from models_fmt import int_to_chars
    return StringObj(int_to_chars(I, peel(n).fields[0]))


@model('Map::new')
def _map_new(I, ci):
    return MapObj([], 'Map')


@model('Map::insert')
def _map_insert(I, ci, m, k, v):
    old = MS.map_insert(I, peel(m), k, v)
    return none() if old is None else some(old)


@model('Map::get')
def _map_get(I, ci, m, k):
    r = MS.map_get(I, peel(m), k)
    return none() if r is None else some(r)


@model('Map::contains_key')
def _map_contains(I, ci, m, k):
    from models import disj
    key = peel(k)
    return disj([struct_eq(I, kk, key) for kk, _ in peel(m).entries])


@model('Map::iter')
def _map_iter(I, ci, m):
    from models_iter import map_iter
    return map_iter(peel(m), by_ref=True)


@model('Map::len')
def _map_len(I, ci, m):
    return len(peel(m).entries)


@model('Map::is_empty')
def _map_is_empty(I, ci, m):
    return len(peel(m).entries) == 0


@fallback
def _value_from(I, ci, args):
    # <Value as From<T>>::from
    if ci.trait == 'From' and ci.selfty == 'Value' and ci.method == 'from':
        def f(I, ci, v):
            pv = peel(v) if isinstance(v, Ptr) else v
            if isinstance(pv, (Str, StringObj)):
                return jstr(pv.chars)
            if isinstance(pv, (bool, z3.BoolRef)):
                return jbool(pv)
            if isinstance(pv, (int, z3.ArithRef)):
                return jnum(pv)
            if isinstance(pv, MapObj):
                return Adt('Value', 5, [pv])
            if isinstance(pv, VecObj):
                return Adt('Value', 4, [pv])
            if isinstance(pv, Adt) and pv.name == 'Option':
                return jnull() if MS.variant_of(I, pv) == 0 else f(I, ci, pv.fields[0])
            raise Unsupported('Value::from(%r)' % (pv,))
        return f
    return None


@model('Error::msg')
def _tera_error_msg(I, ci, m):
    return Adt('TeraError', 0, [m])
