"""Model of the `regex` crate: patterns are lowered to HIR by the native helper (the locked regex-syntax) and
matched by a leftmost-first backtracking matcher that runs *under the forking interpreter*: char-class tests on
symbolic chars are solver branches, group boundaries are concrete per path.
"""
import z3

from values import *     # noqa
from models import model, fallback, chars_of, conj, disj
import native

_HIR_CACHE = {}


def compile_pattern(pat):
    h = _HIR_CACHE.get(pat)
    if h is None:
        r = native.driver().call(op='hir', pattern=pat)
        if 'hir' not in r:
            raise Unsupported('regex pattern does not compile: %r' % (r,))
        h = r['hir']
        _HIR_CACHE[pat] = h
    return h


class RegexObj:
    def __init__(self, pattern, hir):
        self.pattern = pattern
        self.hir = hir
        self.names = {}
        self.ngroups = 1
        self._scan(hir)

    def _scan(self, h):
        if h['k'] == 'cap':
            self.ngroups = max(self.ngroups, h['index'] + 1)
            if h.get('name'):
                self.names[h['name']] = h['index']
            self._scan(h['sub'])
        elif h['k'] == 'rep':
            self._scan(h['sub'])
        elif h['k'] in ('concat', 'alt'):
            for s in h['subs']:
                self._scan(s)


def class_cond(c, ranges):
    if isinstance(c, int):
        return any(a <= c <= b for a, b in ranges)
    key = tuple(map(tuple, ranges))
    return _class_formula(key, c)


_CLS_T = {}
_X = z3.Int('__reX')


def _class_formula(key, c):
    t = _CLS_T.get(key)
    if t is None:
        import chars as C
        parts = []
        for a, b in key:
            if b < 128:
                parts.append(z3.And(_X >= a, _X <= b) if a != b else _X == a)
            elif a < 128:
                parts.append(z3.And(_X >= a, _X <= 127))
                parts += [_X == r for r in sorted(C.R) if r <= b]
            else:
                parts += [_X == r for r in sorted(C.R) if a <= r <= b]
        t = z3.Or(parts) if parts else z3.BoolVal(False)
        _CLS_T[key] = t
    return z3.substitute(t, (_X, c))


def match(I, rx, cs, start=0):
    """leftmost-first match of rx on chars cs starting the search at `start`; returns capture list [(s,e)|None] or None"""
    w = I.world
    n = len(cs)

    def m(h, pos, caps, k):
        kind = h['k']
        if kind == 'empty':
            return k(pos, caps)
        if kind == 'lit':
            lit = h['cps']
            if pos + len(lit) > n:
                return None
            cond = conj([cs[pos + i] == lit[i] for i in range(len(lit))])
            if w.branch(cond):
                return k(pos + len(lit), caps)
            return None
        if kind == 'class':
            if pos >= n:
                return None
            if w.branch(class_cond(cs[pos], h['ranges'])):
                return k(pos + 1, caps)
            return None
        if kind == 'look':
            lk = h['look']
            if lk == 'start':
                return k(pos, caps) if pos == 0 else None
            if lk == 'end':
                return k(pos, caps) if pos == n else None
            raise Unsupported('regex look ' + lk)
        if kind == 'cap':
            idx = h['index']

            def after(p2, caps2):
                c3 = list(caps2)
                c3[idx] = (pos, p2)
                return k(p2, c3)
            return m(h['sub'], pos, caps, after)
        if kind == 'concat':
            subs = h['subs']

            def step(i, p, c):
                if i == len(subs):
                    return k(p, c)
                return m(subs[i], p, c, lambda p2, c2: step(i + 1, p2, c2))
            return step(0, pos, caps)
        if kind == 'alt':
            for s in h['subs']:
                r = m(s, pos, caps, k)
                if r is not None:
                    return r
            return None
        if kind == 'rep':
            mn, mx, greedy, sub = h['min'], h['max'], h['greedy'], h['sub']

            def rep(count, p, c):
                can_more = mx is None or count < mx

                def more():
                    if not can_more:
                        return None

                    def after(p2, c2):
                        if p2 == p and count >= mn:
                            return None      # empty iteration: stop
                        return rep(count + 1, p2, c2)
                    return m(sub, p, c, after)
                if count < mn:
                    return more()
                if greedy:
                    r = more()
                    if r is not None:
                        return r
                    return k(p, c)
                r = k(p, c)
                if r is not None:
                    return r
                return more()
            return rep(0, pos, caps)
        raise Unsupported('regex node ' + kind)

    for s in range(start, n + 1):
        caps0 = [None] * rx.ngroups

        def done(p, c):
            c = list(c)
            c[0] = (s, p)
            return c
        r = m(rx.hir, s, caps0, done)
        if r is not None:
            return r
        # anchored patterns cannot match later
        if first_is_start_anchor(rx.hir):
            break
    return None


def first_is_start_anchor(h):
    if h['k'] == 'concat' and h['subs']:
        return first_is_start_anchor(h['subs'][0])
    return h['k'] == 'look' and h['look'] == 'start'


# ------------------------------------------------------------------ API models
@model('Regex::new')
def _regex_new(I, ci, pat):
    cs = chars_of(pat)
    if not all(isinstance(c, int) for c in cs):
        raise Unsupported('symbolic regex pattern')
    p = ''.join(chr(c) for c in cs)
    return ok(Opaque('Regex', RegexObj(p, compile_pattern(p))))


@model('Regex::captures')
def _captures(I, ci, rx, s):
    rx = peel(rx).state
    cs = chars_of(s)
    r = match(I, rx, cs)
    if r is None:
        return none()
    return some(Opaque('Captures', (rx, cs, r)))


@model('Regex::is_match')
def _is_match(I, ci, rx, s):
    rx = peel(rx).state
    return match(I, rx, chars_of(s)) is not None


@model('Regex::find')
def _find(I, ci, rx, s):
    rx = peel(rx).state
    cs = chars_of(s)
    r = match(I, rx, cs)
    if r is None:
        return none()
    return some(Opaque('Match', (cs, r[0])))


@model('Captures::name')
def _cap_name(I, ci, caps, name):
    rx, cs, r = peel(caps).state
    nm = ''.join(chr(c) for c in chars_of(name))
    idx = rx.names.get(nm)
    if idx is None or r[idx] is None:
        return none()
    return some(Opaque('Match', (cs, r[idx])))


@model('Captures::get')
def _cap_get(I, ci, caps, idx):
    rx, cs, r = peel(caps).state
    if idx >= len(r) or r[idx] is None:
        return none()
    return some(Opaque('Match', (cs, r[idx])))


@model('Match::as_str')
def _match_as_str(I, ci, mt):
    cs, (a, b) = peel(mt).state
    return Str(cs[a:b])


@model('Match::start')
def _match_start(I, ci, mt):
    from models_str import char_to_byte
    cs, (a, b) = peel(mt).state
    return char_to_byte(I, cs, a)


@model('Match::end')
def _match_end(I, ci, mt):
    from models_str import char_to_byte
    cs, (a, b) = peel(mt).state
    return char_to_byte(I, cs, b)
