"""Model of the *subset* of Tera that zerv's flow templates use.

Boundary: the private `Template::<T>::render_string` (the only caller of `tera::Tera::render`).  zerv's own wrapper
(`Template::render`: trim, none/null/nil, parse::<T>), `ZervTemplateContext::from_zerv` and the registered custom
functions are executed from MIR.  Templates outside the subset make the path `unsupported` (never a pass):

  template := ( TEXT | '{{' expr '}}' | '{% if' cond '%}' template [ '{% else %}' template ] '{% endif %}' )*
  expr     := IDENT | NUMBER | STRING | IDENT '(' IDENT '=' expr { ',' IDENT '=' expr } ')'
  cond     := cond 'or' cond | cond 'and' cond | 'not' cond | '(' cond ')' | IDENT

Truthiness follows Tera: null/undefined false, bool itself, number != 0, string non-empty, object/array non-empty.
Validated natively against the real Tera through the `template` op of the native driver (checks c04/c03).
"""
import re
import z3

from values import *     # noqa
from models import chars_of
import interp as _interp

OVERRIDES = {}


def override(key):
    def deco(f):
        OVERRIDES[key] = f
        return f
    return deco


TOKEN = re.compile(r'\s*(?:(\d+)|"([^"]*)"|\'([^\']*)\'|([A-Za-z_][A-Za-z0-9_\.]*)|(\(|\)|,|=))')


def tokenize_expr(s):
    if any(0xE000 <= ord(ch) <= 0xF8FF for ch in s):
        raise Unsupported('symbolic text inside a tera expression')
    out = []
    i = 0
    s = s.strip()
    while i < len(s):
        m = TOKEN.match(s, i)
        if not m:
            raise Unsupported('tera expression outside the modelled subset: %r' % s)
        if m.group(1) is not None:
            out.append(('num', int(m.group(1))))
        elif m.group(2) is not None or m.group(3) is not None:
            out.append(('str', m.group(2) if m.group(2) is not None else m.group(3)))
        elif m.group(4) is not None:
            out.append(('id', m.group(4)))
        else:
            out.append(('p', m.group(5)))
        i = m.end()
    return out


def parse_template(t):
    """-> list of nodes: ('text', s) | ('expr', tokens) | ('if', cond_tokens, then_nodes, else_nodes)"""
    parts = re.split(r'(\{\{.*?\}\}|\{%.*?%\})', t, flags=re.S)
    pos = [0]

    def block(stop):
        nodes = []
        while pos[0] < len(parts):
            p = parts[pos[0]]
            if p.startswith('{{'):
                nodes.append(('expr', tokenize_expr(p[2:-2])))
                pos[0] += 1
            elif p.startswith('{%'):
                body = p[2:-2].strip().strip('-').strip()
                if body in stop:
                    return nodes, body
                m = re.match(r'if\s+(.*)$', body, re.S)
                if not m:
                    raise Unsupported('tera tag outside the modelled subset: %r' % body)
                pos[0] += 1
                then, end = block(('else', 'endif'))
                els = []
                if end == 'else':
                    pos[0] += 1
                    els, end = block(('endif',))
                if end != 'endif':
                    raise Unsupported('unterminated tera if')
                pos[0] += 1
                nodes.append(('if', tokenize_expr(m.group(1)), then, els))
            else:
                if p:
                    nodes.append(('text', p))
                pos[0] += 1
        return nodes, None
    nodes, end = block(())
    return nodes


class Ctx:
    def __init__(self, I, record):
        self.I = I
        self.rec = record
        self.names = I.prog.fields.get('ZervTemplateContext') if record is not None else None

    def lookup(self, ident):
        if self.rec is None:
            return None
        head = ident.split('.')[0]
        if head not in self.names:
            return None          # undefined
        v = self.rec.fields[self.names.index(head)]
        for attr in ident.split('.')[1:]:
            # attribute access on a serialised struct (the context record's nested parts); null / absent -> undefined
            v = peel(v)
            if isinstance(v, Adt) and v.name == 'Option':
                if not isinstance(v.variant, int):
                    raise Unsupported('tera attribute access below a symbolic option %r' % ident)
                if v.variant == 0:
                    return None
                v = peel(v.fields[0])
            names = self.I.prog.fields.get(v.name) if isinstance(v, Adt) else None
            if not names or attr not in names:
                raise Unsupported('tera attribute access %r' % ident)
            v = v.fields[names.index(attr)]
        return v


def truthy(I, v):
    """Tera truthiness of a context value -> python bool / z3 Bool"""
    w = I.world
    if v is None:
        return False
    v = peel(v)
    if isinstance(v, Adt) and v.name == 'Option':
        if isinstance(v.variant, int):
            return False if v.variant == 0 else truthy(I, v.fields[0])
        inner = truthy(I, v.fields[0])
        inner = z3.BoolVal(inner) if isinstance(inner, bool) else inner
        return z3.And(v.variant == 1, inner)
    if isinstance(v, bool) or isinstance(v, z3.BoolRef):
        return v
    if isinstance(v, int):
        return v != 0
    if isinstance(v, z3.ArithRef):
        return v != 0
    if isinstance(v, (Str, StringObj)):
        return len(v.chars) > 0
    if isinstance(v, (VecObj, MapObj)):
        return True if (v.items if isinstance(v, VecObj) else v.entries) else False
    if isinstance(v, Adt):
        if v.name == 'Value':
            raise Unsupported('truthiness of a JSON value')
        return True             # a serialised struct is a non-empty object
    raise Unsupported('tera truthiness of %r' % (v,))


def eval_cond(I, ctx, toks):
    pos = [0]

    def zb(x):
        return z3.BoolVal(x) if isinstance(x, bool) else x

    def atom():
        k, v = toks[pos[0]]
        if k == 'id' and v == 'not':
            pos[0] += 1
            r = atom()
            return (not r) if isinstance(r, bool) else z3.Not(r)
        if k == 'p' and v == '(':
            pos[0] += 1
            r = orx()
            if toks[pos[0]] != ('p', ')'):
                raise Unsupported('tera condition parse')
            pos[0] += 1
            return r
        if k == 'id':
            pos[0] += 1
            return truthy(I, ctx.lookup(v))
        raise Unsupported('tera condition outside the subset')

    def andx():
        r = atom()
        while pos[0] < len(toks) and toks[pos[0]] == ('id', 'and'):
            pos[0] += 1
            r2 = atom()
            r = (r and r2) if isinstance(r, bool) and isinstance(r2, bool) else z3.And(zb(r), zb(r2))
        return r

    def orx():
        r = andx()
        while pos[0] < len(toks) and toks[pos[0]] == ('id', 'or'):
            pos[0] += 1
            r2 = andx()
            r = (r or r2) if isinstance(r, bool) and isinstance(r2, bool) else z3.Or(zb(r), zb(r2))
        return r
    r = orx()
    if pos[0] != len(toks):
        raise Unsupported('tera condition outside the subset')
    return r


def render_value(I, v):
    """chars of `{{ v }}`"""
    from models_fmt import int_to_chars
    if v is None:
        raise Panic_or_error('undefined variable')
    v = peel(v)
    if isinstance(v, Adt) and v.name == 'Option':
        k = v.variant if isinstance(v.variant, int) else I.world.concretize_int(v.variant, [0, 1])
        return [] if k == 0 else render_value(I, v.fields[0])
    if isinstance(v, bool):
        return [ord(c) for c in ('true' if v else 'false')]
    if isinstance(v, z3.BoolRef):
        return [ord(c) for c in ('true' if I.world.branch(v) else 'false')]
    if isinstance(v, (int, z3.ArithRef)):
        return int_to_chars(I, v)
    if isinstance(v, (Str, StringObj)):
        return list(v.chars)
    raise Unsupported('tera rendering of %r' % (v,))


class TeraError(Exception):
    pass


def Panic_or_error(msg):
    return TeraError(msg)


def eval_expr(I, ctx, toks):
    """-> chars"""
    from models_json import jstr, jnum, jbool
    if len(toks) == 1:
        k, v = toks[0]
        if k == 'num':
            return [ord(c) for c in str(v)]
        if k == 'str':
            return [ord(c) for c in v]
        val = ctx.lookup(v)
        if val is None:
            raise TeraError('Variable `%s` not found in context' % v)
        return render_value(I, val)
    if len(toks) >= 3 and toks[0][0] == 'id' and toks[1] == ('p', '('):
        fn = toks[0][1]
        args = []
        i = 2
        while toks[i] != ('p', ')'):
            name = toks[i][1]
            if toks[i + 1] != ('p', '='):
                raise Unsupported('tera call syntax')
            k, v = toks[i + 2]
            if k == 'num':
                jv = jnum(v)
            elif k == 'str':
                jv = jstr([ord(c) for c in v])
            elif k == 'id' and v in ('true', 'false'):
                jv = jbool(v == 'true')
            else:
                cv = ctx.lookup(v)
                if cv is None:
                    raise TeraError('Variable `%s` not found in context' % v)
                cv = peel(cv)
                if isinstance(cv, Adt) and cv.name == 'Option':
                    kk = cv.variant if isinstance(cv.variant, int) else I.world.concretize_int(cv.variant, [0, 1])
                    cv = None if kk == 0 else peel(cv.fields[0])
                if cv is None:
                    from models_json import jnull
                    jv = jnull()
                elif isinstance(cv, (Str, StringObj)):
                    jv = jstr(list(cv.chars))
                elif isinstance(cv, (bool, z3.BoolRef)):
                    jv = jbool(cv)
                else:
                    jv = jnum(cv)
            args.append((mkstring(name), jv))
            i += 3
            if toks[i] == ('p', ','):
                i += 1
        fnname = {'hash_int': 'hash_int_function', 'hash': 'hash_function', 'prefix': 'prefix_function', 'prefix_if': 'prefix_if_function',
                  'sanitize': 'sanitize_function', 'format_timestamp': 'format_timestamp_function'}.get(fn)
        if fnname is None:
            raise Unsupported('tera function ' + fn)
        r = I.call(fnname, [ValPtr(MapObj(args, 'HashMap'))])
        if r.variant != 0:
            raise TeraError('function failed')
        val = peel(r.fields[0])
        if val.variant == 3:
            return list(chars_of(val.fields[0]))
        raise Unsupported('tera function result')
    raise Unsupported('tera expression outside the subset')


def render_nodes(I, ctx, nodes):
    out = []
    for n in nodes:
        if n[0] == 'text':
            out += [ord(c) for c in n[1]]
        elif n[0] == 'expr':
            out += eval_expr(I, ctx, n[1])
        else:
            c = eval_cond(I, ctx, n[1])
            out += render_nodes(I, ctx, n[2] if I.world.branch(c) else n[3])
    return out


_PARSED = {}


def render_template(I, text, zerv_opt, sym=None):
    nodes = _PARSED.get(text)
    if nodes is None:
        nodes = parse_template(text)
        _PARSED[text] = nodes
    rec = None
    z = peel(zerv_opt)
    if isinstance(z, Adt) and z.name == 'Option':
        z = None if z.variant == 0 else peel(z.fields[0])
    if z is not None:
        rec = I.call('ZervTemplateContext::from_zerv', [ValPtr(z)])
    cs = render_nodes(I, Ctx(I, rec), nodes)
    if sym:
        cs = [sym.get(chr(c), c) if isinstance(c, int) and 0xE000 <= c <= 0xF8FF else c for c in cs]
    return cs


@override('Template::render_string')
def _render_string(I, ci, this, zerv_opt):
    t = peel(this)
    text = chars_of(t.fields[0])
    sym = {}
    if not all(isinstance(c, int) for c in text):
        # symbolic characters may only occur in literal text (e.g. the digits of a number pasted into the template):
        # they travel through the parser as private-use placeholders
        out = []
        for c in text:
            if isinstance(c, int):
                if 0xE000 <= c <= 0xF8FF:
                    raise Unsupported('private-use char in template')
                out.append(chr(c))
            else:
                ph = chr(0xE000 + len(sym))
                sym[ph] = c
                out.append(ph)
        text = ''.join(out)
    else:
        text = ''.join(chr(c) for c in text)
    I.world.stats.models['tera::render(subset model)'] = I.world.stats.models.get('tera::render(subset model)', 0) + 1
    try:
        cs = render_template(I, text, zerv_opt, sym)
    except TeraError as e:
        return err(Adt('ZervError', I.prog.variant_index('ZervError', 'TemplateError') or 0, [mkstring('Template render error: %s' % e)]))
    # `.map(|s| s.trim().to_string())`
    from models_str import _trim_pred
    import chars as C
    return ok(StringObj(_trim_pred(I, cs, C.p_whitespace).chars))
