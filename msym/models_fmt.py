"""format! / Display / ToString / integer parsing and printing."""
import z3

from values import *     # noqa
from models import model, fallback, chars_of, conj, disj, neg, items_of, is_stringlike
from interp import parse_callee, last_seg, generic_args, RANGES
import chars as C


def W(I):
    return I.world


# ------------------------------------------------------------------ integers <-> decimal strings
POW10 = [10 ** k for k in range(40)]


def int_to_chars(I, v):
    """decimal digits of an integer value (symbolic: forks on the number of digits)"""
    if isinstance(v, bool):
        raise Unsupported('int_to_chars(bool)')
    if isinstance(v, int):
        return [ord(c) for c in str(v)]
    w = W(I)
    cache = w.__dict__.setdefault('_digits', {})
    key = v.get_id()
    hit = cache.get(key)
    if hit is not None:
        return list(hit[1])
    src = w.__dict__.setdefault('_digit_src', {}).get(key)
    if src is not None:
        # the value was parsed from these decimal digits: print them back (minus leading zeros) instead of asking the
        # solver to re-derive a unique decimal expansion
        body = list(src[1])
        k = 0
        while k < len(body) - 1 and w.branch(body[k] == 48):
            k += 1
        out = body[k:]
        cache[key] = (v, out)
        return list(out)
    if w.branch(v < 0):
        out = [45] + int_to_chars(I, -v)
        cache[key] = (v, out)
        return list(out)
    # deterministic search over digit counts, narrowed by the syntactic bounds of plain variables
    lo, hi = w.bounds.get(key, (0, None))
    kmin = max(1, len(str(max(lo, 0))))
    kmax = len(str(hi)) if hi is not None else 39
    k = kmin
    while k < kmax:
        if w.branch(v < POW10[k]):
            break
        k += 1
    ds = []
    for i in range(k):
        d = w.fresh_int('dg', 0, 9)
        ds.append(d)
    if k > 1:
        w.assume(ds[0] >= 1)
    w.assume(v == z3.Sum([ds[i] * POW10[k - 1 - i] for i in range(k)]) if k > 1 else v == ds[0])
    out = [d + 48 for d in ds]
    cache[key] = (v, out)      # keep the term alive: z3 re-uses ids of freed terms
    return list(out)


def int_to_hex(I, v):
    if isinstance(v, int):
        return [ord(c) for c in '%x' % v]
    w = W(I)
    k = 1
    while k < 16:
        if w.branch(v < 16 ** k):
            break
        k += 1
    ds = [w.fresh_int('hx', 0, 15) for _ in range(k)]
    if k > 1:
        w.assume(ds[0] >= 1)
    w.assume(v == z3.Sum([ds[i] * 16 ** (k - 1 - i) for i in range(k)]) if k > 1 else v == ds[0])
    return [z3.If(d < 10, d + 48, d + 87) for d in ds]


def parse_int(I, cs, ty):
    """<ty as FromStr>::from_str -> Result<int, ParseIntError>"""
    w = W(I)
    lo, hi = RANGES[ty]
    signed = lo < 0

    def perr(kind):
        return err(Adt('ParseIntError', 0, [Adt('IntErrorKind', kind, [])]))
    # IntErrorKind: Empty=0 InvalidDigit=1 PosOverflow=2 NegOverflow=3 Zero=4
    if not cs:
        return perr(0)
    negv = False
    body = cs
    c0 = cs[0]
    if w.branch(c0 == 43):
        body = cs[1:]
        if not body:
            return perr(1)
    elif w.branch(c0 == 45):
        if not signed:
            return perr(1)
        body = cs[1:]
        negv = True
        if not body:
            return perr(1)
    if not w.branch(conj([C.p_ascii_digit(c) for c in body])):
        return perr(1)
    maxd = len(str(hi))
    if len(body) > maxd and not negv:
        # more digits than the type can hold: either the surplus leading digits are all zero, or it overflows
        lead = body[:len(body) - maxd]
        if w.branch(conj([c == 48 for c in lead])):
            body = body[len(body) - maxd:]
        else:
            return perr(2)
    n = len(body)
    terms = []
    for i, c in enumerate(body):
        terms.append((c - 48) * POW10[n - 1 - i] if n - 1 - i < 40 else None)
    if any(t is None for t in terms):
        raise Unsupported('parse of >40 digits')
    val = sum(terms) if all(isinstance(t, int) for t in terms) else z3.Sum(terms)
    if negv:
        val = -val
    if isinstance(val, int):
        if val > hi:
            return perr(2)
        if val < lo:
            return perr(3)
        return ok(val)
    if negv:
        if w.branch(val >= lo):
            return ok(val)
        return perr(3)
    if w.branch(val <= hi):
        w.__dict__.setdefault('_digit_src', {})[val.get_id()] = (val, list(body))
        return ok(val)
    return perr(2)


@model('str::parse')
def _parse(I, ci, s):
    g = ci.path[-1]
    ty = g[1:-1] if g.startswith('<') else None
    t = last_seg(ty) if ty else None
    if t in RANGES and t not in ('char', 'bool'):
        return parse_int(I, chars_of(s), t)
    if t == 'bool':
        cs = chars_of(s)
        from models import seq_eq_cond
        if W(I).branch(seq_eq_cond(cs, [ord(c) for c in 'true'])):
            return ok(True)
        if W(I).branch(seq_eq_cond(cs, [ord(c) for c in 'false'])):
            return ok(False)
        return err(Adt('ParseBoolError', 0, []))
    if t == 'String':
        return ok(StringObj(chars_of(s)))
    fn = I.prog.resolve(parse_callee('<%s as FromStr>::from_str' % ty))
    if fn is not None:
        return I.run(fn, [s if isinstance(peel(s), Str) else Str(chars_of(s))])
    raise Unsupported('parse::<%s>' % ty)


@model('<FromStr>::from_str')
def _from_str(I, ci, s):
    t = ci.selfty
    if t in RANGES and t not in ('char', 'bool'):
        return parse_int(I, chars_of(s), t)
    if t == 'String':
        return ok(StringObj(chars_of(s)))
    raise Unsupported(ci.text)


# ------------------------------------------------------------------ Display rendering
class Formatter:
    """stand-in for core::fmt::Formatter: collects output chars"""

    def __init__(self):
        self.out = []
        self.flags = None


def render_display(I, v, debug=False):
    """chars of `{}` (or `{:?}`) applied to a runtime value"""
    pv = peel(v)
    if isinstance(pv, (Str, StringObj)):
        if debug:
            return [34] + list(pv.chars) + [34]
        return list(pv.chars)
    if isinstance(pv, bool):
        return [ord(c) for c in ('true' if pv else 'false')]
    if isinstance(pv, z3.BoolRef):
        return [ord(c) for c in ('true' if W(I).branch(pv) else 'false')]
    if isinstance(pv, (int, z3.ArithRef)):
        return int_to_chars(I, pv)
    if isinstance(pv, Adt):
        if pv.name == 'Cow':
            return render_display(I, pv.fields[0], debug)
        if pv.name == 'Box':
            return render_display(I, deref_ptr(pv).load(), debug)
        if pv.name == 'char':
            return [pv.fields[0]]
        tr = 'Debug' if debug else 'Display'
        fn = I.prog.resolve(parse_callee('<%s as %s>::fmt' % (pv.name, tr)))
        if fn is not None and not debug:
            f = Formatter()
            r = I.run(fn, [ValPtr(pv), ValPtr(f)])
            return f.out
        return approx_debug(I, pv)
    if isinstance(pv, Opaque) and pv.kind == 'char':
        return [pv.state]
    if isinstance(pv, Opaque) and pv.kind == 'DelayedFormat':
        import models_chrono
        return models_chrono.render_delayed(I, pv)
    if isinstance(pv, (VecObj, Slice, MapObj, Opaque)):
        return approx_debug(I, pv)
    raise Unsupported('display of %r' % (pv,))


def approx_debug(I, pv):
    """Debug output is only used in diagnostics; it is rendered approximately and flagged."""
    W(I).notes.append('approximate Debug rendering used')
    out = []

    def go(x, depth=0):
        x = peel(x)
        if depth > 6:
            out.extend(b'..')
            return
        if isinstance(x, (Str, StringObj)):
            out.append(34)
            out.extend(x.chars)
            out.append(34)
        elif isinstance(x, bool):
            out.extend(b'true' if x else b'false')
        elif isinstance(x, int):
            out.extend(str(x).encode())
        elif isinstance(x, z3.ExprRef):
            out.extend(render_display(I, x))
        elif isinstance(x, Adt):
            nm = x.name
            if isinstance(x.variant, int) and nm in I.prog.enums and nm != 'tuple':
                try:
                    nm = I.prog.variant_name(x.name, x.variant)
                except Exception:
                    pass
            if x.name != 'tuple':
                out.extend(nm.encode())
            if x.fields:
                out.append(40)
                for k, f in enumerate(x.fields):
                    if k:
                        out.extend(b', ')
                    go(f, depth + 1)
                out.append(41)
        elif isinstance(x, (VecObj, Slice)):
            out.append(91)
            for k, f in enumerate(items_of(x)):
                if k:
                    out.extend(b', ')
                go(f, depth + 1)
            out.append(93)
        elif isinstance(x, MapObj):
            out.append(123)
            for k, (a, b) in enumerate(x.entries):
                if k:
                    out.extend(b', ')
                go(a, depth + 1)
                out.extend(b': ')
                go(b, depth + 1)
            out.append(125)
        else:
            out.extend(b'<?>')
    go(pv)
    return list(out)


@model('Argument::new_display')
def _arg_display(I, ci, v):
    return Opaque('FmtArg', ('display', v))


@model('Argument::new_debug')
def _arg_debug(I, ci, v):
    return Opaque('FmtArg', ('debug', v))


@model('Argument::new_lower_hex', 'Argument::new_upper_hex', 'Argument::new_binary', 'Argument::new_octal',
       'Argument::new_lower_exp', 'Argument::new_pointer')
def _arg_other(I, ci, v):
    return Opaque('FmtArg', (ci.method[4:], v))


@model('Argument::from_usize')
def _arg_usize(I, ci, v):
    return Opaque('FmtArg', ('usize', v))


@model('Arguments::new')
def _arguments_new(I, ci, template, args):
    t = peel(template)
    if not isinstance(t, Bytes):
        raise Unsupported('format template %r' % (t,))
    return Opaque('Arguments', (t.data, items_of(args)))


@model('Arguments::from_str', 'Arguments::new_const')
def _arguments_from_str(I, ci, s):
    pv = peel(s)
    if isinstance(pv, (VecObj, Slice)):
        xs = items_of(pv)
        cs = []
        for x in xs:
            cs.extend(chars_of(x))
        return Opaque('Arguments', (None, cs))
    return Opaque('Arguments', (None, chars_of(s)))


@model('Arguments::as_str')
def _arguments_as_str(I, ci, a):
    a = peel(a)
    if a.state[0] is None:
        return some(Str(a.state[1]))
    return none()


def render_arguments(I, a):
    a = peel(a)
    tmpl, args = a.state
    if tmpl is None:
        return list(args)
    out = []
    i = 0
    nxt = 0
    n = len(tmpl)
    while i < n:
        b = tmpl[i]
        if b == 0 and i == n - 1:
            break
        if b == 0:
            break
        if b < 0x80:
            out.extend(ord(c) for c in tmpl[i + 1:i + 1 + b].decode('utf-8'))
            i += 1 + b
            continue
        if b == 0x80:
            ln = tmpl[i + 1] | (tmpl[i + 2] << 8)
            out.extend(ord(c) for c in tmpl[i + 3:i + 3 + ln].decode('utf-8'))
            i += 3 + ln
            continue
        if b >= 0xC0:
            i += 1
            flags = width = prec = None
            if b & 1:
                flags = int.from_bytes(tmpl[i:i + 4], 'little')
                i += 4
            if b & 2:
                width = int.from_bytes(tmpl[i:i + 2], 'little')
                i += 2
            if b & 4:
                prec = int.from_bytes(tmpl[i:i + 2], 'little')
                i += 2
            if b & 8:
                nxt = int.from_bytes(tmpl[i:i + 2], 'little')
                i += 2
            if b & 0x20:
                raise Unsupported('indirect precision in format template')
            if b & 0x10:
                wa = args[width]
                wv = peel(wa.state[1]) if isinstance(wa, Opaque) else peel(wa)
                width = W(I).concretize_int(wv, what='format width')
            arg = args[nxt]
            nxt += 1
            kind, val = arg.state
            if kind == 'display':
                cs = render_display(I, val)
            elif kind == 'debug':
                cs = render_display(I, val, debug=True)
            elif kind == 'lower_hex':
                cs = int_to_hex(I, peel(val))
            else:
                raise Unsupported('format trait ' + kind)
            if prec is not None:
                raise Unsupported('format precision')
            if width is not None:
                cs = pad(I, cs, width, flags, val)
            out.extend(cs)
            continue
        raise Unsupported('format template byte %x' % b)
    return out


def pad(I, cs, width, flags, val):
    if len(cs) >= width:
        return cs
    flags = flags or 0
    fill = flags & 0x1FFFFF or 32
    zero = bool(flags & (1 << 24))
    align = (flags >> 29) & 3
    is_num = isinstance(peel(val), (int, z3.ArithRef)) and not isinstance(peel(val), bool)
    k = width - len(cs)
    if zero and is_num:
        if cs and cs[0] == 45:
            return [45] + [48] * k + cs[1:]
        return [48] * k + cs
    if align == 3:
        align = 1 if is_num else 0
    if align == 0:
        return cs + [fill] * k
    if align == 1:
        return [fill] * k + cs
    return [fill] * (k // 2) + cs + [fill] * (k - k // 2)


@model('fmt::format', 'format')
def _format(I, ci, a):
    return StringObj(render_arguments(I, a))


@model('Formatter::write_str', '<Write>::write_str', 'Formatter::pad')
def _f_write_str(I, ci, f, s):
    f = peel(f)
    if isinstance(f, Formatter):
        f.out.extend(chars_of(s))
    elif isinstance(f, StringObj):
        f.chars.extend(chars_of(s))
    else:
        raise Unsupported('write_str on %r' % (f,))
    return ok(UNIT)


@model('Formatter::write_char', '<Write>::write_char')
def _f_write_char(I, ci, f, c):
    f = peel(f)
    (f.out if isinstance(f, Formatter) else f.chars).append(c)
    return ok(UNIT)


@model('Formatter::write_fmt', '<Write>::write_fmt')
def _f_write_fmt(I, ci, f, a):
    f = peel(f)
    cs = render_arguments(I, a)
    if isinstance(f, Formatter):
        f.out.extend(cs)
    elif isinstance(f, StringObj):
        f.chars.extend(cs)
    elif isinstance(f, Opaque) and f.kind in ('Stdout', 'Stderr', 'Sink'):
        f.state.extend(cs)
    else:
        raise Unsupported('write_fmt on %r' % (f,))
    return ok(UNIT)


@model('<Display>::fmt', '<Debug>::fmt')
def _display_fmt(I, ci, v, f):
    f = peel(f)
    f.out.extend(render_display(I, v, debug=(ci.trait == 'Debug')))
    return ok(UNIT)


@model('<ToString>::to_string')
def _to_string(I, ci, v):
    return StringObj(render_display(I, v))


@fallback
def _debug_helpers(I, ci, args):
    if ci.selfty == 'Formatter' and ci.method.startswith('debug_'):
        def f(I, ci, fm, *a):
            peel(fm).out.extend(b'<debug>')
            W(I).notes.append('approximate Debug rendering used')
            return ok(UNIT)
        return f
    return None


# ------------------------------------------------------------------ process standard streams
@model('_print', 'io::_print', 'std::io::_print', 'stdio::_print')
def _io_print(I, ci, a):
    """print!/println!: the text goes to the path's standard-output log; library code must leave it empty (C13)"""
    try:
        I.world.stdout.extend(render_arguments(I, a))
    except Unsupported:
        I.world.stdout.append(ord('?'))
    return UNIT


@model('_eprint', 'io::_eprint', 'std::io::_eprint', 'stdio::_eprint')
def _io_eprint(I, ci, a):
    try:
        I.world.stderr.extend(render_arguments(I, a))
    except Unsupported:
        I.world.stderr.append(ord('?'))
    return UNIT


# ------------------------------------------------------------------ panics
@model('panic_fmt', 'panicking::panic_fmt')
def _panic_fmt(I, ci, a):
    try:
        msg = ''.join(chr(c) if isinstance(c, int) else '?' for c in render_arguments(I, a))
    except Unsupported:
        msg = '<unrenderable>'
    raise Panic('panic: ' + msg)


@model('panic', 'panicking::panic', 'panic_str', 'panic_display', 'panic_explicit', 'panic_nounwind',
       'unreachable_display')
def _panic(I, ci, *a):
    msg = ''
    if a:
        try:
            msg = ''.join(chr(c) if isinstance(c, int) else '?' for c in chars_of(a[0]))
        except Exception:
            msg = repr(a[0])
    raise Panic('panic: ' + msg)


@model('option::unwrap_failed', 'unwrap_failed', 'option::expect_failed', 'expect_failed', 'result::unwrap_failed',
       'panic_bounds_check', 'slice_index_fail', 'str::slice_error_fail', 'slice_error_fail')
def _unwrap_failed(I, ci, *a):
    raise Panic('panic: ' + ci.method)


@model('assert_failed', 'panicking::assert_failed')
def _assert_failed(I, ci, *a):
    raise Panic('assertion failed (assert_eq!/assert_ne!)')
