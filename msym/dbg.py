import engine
from engine import *
import chars as C, z3
C.default_alphabet()
I = engine.make_interp()
w = World([]); I.world = w
sz = I.call('Sanitizer::str', [some(mkstr('.')), False, False, none()])
print(sz)
print(I.call('Sanitizer::sanitize', [ValPtr(sz), mkstr('aÉ..00b--')]))
print(I.call('Sanitizer::sanitize', [ValPtr(I.call('Sanitizer::uint',[])), mkstr(' 007 ')]))
print(w.stats.models)
