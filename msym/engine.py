"""Driver: MIR dump of /repo's working tree, interpreter construction, path exploration (optionally parallel)."""
import os
import sys
import time
import json
import subprocess
import multiprocessing as mp
import traceback
sys.setrecursionlimit(50000)
import threading
threading.stack_size(512 * 1024 * 1024)

HERE = os.path.dirname(os.path.abspath(__file__))
sys.path.insert(0, HERE)

import z3                               # noqa
from values import *                    # noqa
import interp as _interp                # noqa
from interp import World, Interp, Stats  # noqa
from program import Program             # noqa
import models as _models                # noqa
import chars as C                       # noqa

VERIF = os.path.dirname(HERE)
BUILD = os.environ.get('VERIF_BUILD') or os.path.join(VERIF, 'build')     # VERIF_BUILD: a private scratch dir for development runs
REPO = os.environ.get('VERIF_REPO', '/repo')
TOOLCHAIN = '1.93'


def dump_mir(force=False):
    """regenerate the MIR text of the zerv library from REPO's current working tree"""
    out_dir = os.path.join(BUILD, 'mir')
    os.makedirs(out_dir, exist_ok=True)
    out = os.path.join(out_dir, 'zerv.mir')
    stamp = os.path.join(out_dir, 'stamp')
    h = tree_hash()
    if not force and os.path.exists(out) and os.path.exists(stamp) and open(stamp).read() == h:
        return out
    env = dict(os.environ, RUSTC_BOOTSTRAP='1', CARGO_NET_OFFLINE='true', RUSTUP_TOOLCHAIN=TOOLCHAIN)
    # make sure the crate itself is recompiled (cargo would otherwise print nothing for a fresh crate)
    lib = os.path.join(REPO, 'src', 'lib.rs')
    cmd = ['cargo', 'rustc', '--offline', '--lib', '--target-dir', os.path.join(out_dir, 'target'), '--',
           '-Zunpretty=mir', '-C', 'overflow-checks=on', '-C', 'debug-assertions=off']
    t0 = time.time()
    tmp = out + '.tmp%d' % os.getpid()        # private per process: concurrent dumps must not share the scratch file
    for attempt in range(2):
        with open(tmp, 'w') as f:
            p = subprocess.run(cmd, cwd=REPO, env=env, stdout=f, stderr=subprocess.PIPE, text=True)
        if p.returncode != 0:
            sys.stderr.write(p.stderr[-4000:])
            raise SystemExit(2)
        if os.path.getsize(tmp) > 1000:
            break
        # fresh: force a rebuild of the crate only
        subprocess.run(['cargo', 'clean', '--offline', '-p', 'zerv', '--target-dir', os.path.join(out_dir, 'target')],
                       cwd=REPO, env=env, stdout=subprocess.DEVNULL, stderr=subprocess.DEVNULL)
    os.replace(tmp, out)
    open(stamp, 'w').write(h)
    sys.stderr.write('[msym] MIR dump %.1fs (%d bytes)\n' % (time.time() - t0, os.path.getsize(out)))
    return out


def tree_hash():
    import hashlib
    h = hashlib.sha256()
    for root, dirs, files in os.walk(os.path.join(REPO, 'src')):
        dirs.sort()
        for fn in sorted(files):
            p = os.path.join(root, fn)
            h.update(p.encode())
            h.update(open(p, 'rb').read())
    for fn in ('Cargo.toml', 'Cargo.lock'):
        h.update(open(os.path.join(REPO, fn), 'rb').read())
    return h.hexdigest()


_PROG = [None]


def program():
    if _PROG[0] is None:
        _PROG[0] = Program(dump_mir(), REPO)
    return _PROG[0]


def make_interp():
    I = Interp(program(), _models.Models())
    _interp.WIDTH_HOOK[0] = C.width_expr
    return I


# ------------------------------------------------------------------------------------------------
class PathResult:
    """plain-data outcome of one explored path (picklable)"""

    def __init__(self):
        self.status = 'ok'        # ok | panic | unsupported | infeasible | abort
        self.detail = ''
        self.violations = []      # list of dicts (harness-defined, plain data)
        self.witness = None       # plain data describing the path (harness-defined)
        self.decisions = 0
        self.tags = []            # outcome classes reached (for vacuity accounting)


class Ctx:
    """what a harness path function receives"""

    def __init__(self, I, world, res):
        self.I = I
        self.w = world
        self.res = res

    def violation(self, **kw):
        self.res.violations.append(kw)

    def tag(self, t):
        if t not in self.res.tags:
            self.res.tags.append(t)


def run_one(I, path_fn, prefix, arg, stats):
    w = World(prefix, stats)
    I.world = w
    I.depth = 0
    res = PathResult()
    try:
        path_fn(Ctx(I, w, res), arg)
        if w.stdout:
            # library code wrote to the process's standard output (only cli::app writes the result): a C13 violation
            # candidate in whatever harness it happens; checks that cannot replay it end inconclusive
            txt = ''.join(chr(c) if isinstance(c, int) else '?' for c in w.stdout)[:200]
            if not any(v.get('site') == 'stdout_write' for v in res.violations):
                res.violations.append(dict(clause='stdout_write', site='stdout_write', text=txt, arg=arg if isinstance(arg, (dict, list, str, int)) else repr(arg),
                                           detail='library code printed to standard output: %r' % txt, vkey='stdout_write'))
    except Panic as e:
        res.status = 'panic'
        res.detail = str(e)
    except Unsupported as e:
        res.status = 'unsupported'
        res.detail = str(e)
        if os.environ.get('MSYM_TRACE'):
            traceback.print_exc()
    except Infeasible:
        res.status = 'infeasible'
    except PathAbort:
        res.status = 'abort'
    except z3.Z3Exception as e:
        res.status = 'unsupported'
        res.detail = 'z3: ' + str(e)
    except (KeyboardInterrupt, SystemExit):
        raise
    except BaseException as e:      # engine bug / recursion / memory: never a pass, and never escapes a forked child
        res.status = 'unsupported'
        res.detail = 'internal error: %s: %s' % (type(e).__name__, str(e)[:200])
        if os.environ.get('MSYM_TRACE'):
            traceback.print_exc()
    res.decisions = w.decisions
    res.notes = list(set(w.notes))
    return res, w.alts


class Forker:
    """process-level forking at two-sided branches: the child continues the untaken side from the current interpreter
    state (no re-execution of the shared prefix).  Bounded by a semaphore; when no slot is free the branch is recorded
    for prefix replay as before."""

    def __init__(self):
        self.sem = None
        self.children = []
        self.child_mode = False
        self.just_forked = False
        self.dir = None
        self.enabled = os.environ.get('MSYM_FORK', '1') != '0'
        self.sync_depth = 0
        self.max_sync = int(os.environ.get('MSYM_SYNC_DEPTH', '48'))
        self.holds_slot = False
        self.crashed = 0
        self.deadline = None

    def try_fork(self):
        """returns True in the new child, False in the parent / when not forking"""
        if not self.enabled or self.sem is None or self.dir is None:
            return None
        got = self.sem.acquire(block=False)
        if not got and self.sync_depth >= self.max_sync:
            return None
        sys.stdout.flush()
        sys.stderr.flush()
        pid = os.fork()
        if pid == 0:
            self.children = []
            self.child_mode = True
            self.just_forked = True
            self.holds_slot = got
            self.crashed = 0
            if not got:
                self.sync_depth += 1
            import native as _n
            _n._D[0] = None
            return True
        if got:
            self.children.append(pid)
        else:
            # no free slot: run the child's subtree to completion first (shares the executed prefix, no replay)
            try:
                _, st = os.waitpid(pid, 0)
                if st != 0:
                    self.crashed += 1
            except ChildProcessError:
                pass
        return False

    def wait_children(self):
        crashed = self.crashed
        self.crashed = 0
        for pid in self.children:
            try:
                _, st = os.waitpid(pid, 0)
                if st != 0:
                    crashed += 1
            except ChildProcessError:
                pass
        self.children = []
        return crashed

    def finish_child(self, results, stats):
        import pickle
        crashed = self.wait_children()
        try:
            with open(os.path.join(self.dir, '%d.pkl' % os.getpid()), 'wb') as f:
                pickle.dump((results, (stats.queries, stats.solver_s, stats.branches, stats.funcs, stats.models, stats.steps), crashed), f)
        finally:
            if self.holds_slot:
                self.sem.release()
            os._exit(0)

    def collect(self):
        import pickle
        crashed = self.wait_children()
        out = []
        sts = []
        if self.dir and os.path.isdir(self.dir):
            for fn in os.listdir(self.dir):
                p = os.path.join(self.dir, fn)
                try:
                    with open(p, 'rb') as f:
                        r, st, c = pickle.load(f)
                    out.extend(r)
                    sts.append(st)
                    crashed += c
                except Exception:
                    crashed += 1
                os.remove(p)
        if crashed:
            pr = PathResult()
            pr.status = 'unsupported'
            pr.detail = '%d forked exploration process(es) crashed' % crashed
            out.append(pr)
        return out, sts


FORK = Forker()
_interp.FORKER[0] = FORK


def explore_subtree(I, path_fn, prefix, arg, budget, stats, on_panic=None):
    """DFS below `prefix` for at most `budget` paths; returns (results, leftover prefixes)"""
    FORK.dir = os.path.join(BUILD, 'forks', str(os.getpid()))
    os.makedirs(FORK.dir, exist_ok=True)
    work = [prefix]
    results = []
    try:
        while work and (len(results) < budget or FORK.child_mode):
            if FORK.deadline and time.time() > FORK.deadline:
                tr = PathResult()
                tr.status = 'timeout'
                tr.detail = '%d unexplored prefix(es) dropped at the deadline' % len(work)
                results.append(tr)
                work = []
                break
            p = work.pop()
            res, alts = run_one(I, path_fn, p, arg, stats)
            if FORK.just_forked:
                # we are a freshly forked child: our own subtree only
                FORK.just_forked = False
                results = []
                work = []
            if res.status == 'panic' and on_panic is not None:
                on_panic(I, res)
            results.append(res)
            work.extend(alts)
    except BaseException:
        if FORK.child_mode or FORK.just_forked:
            os._exit(3)
        raise
    if FORK.child_mode:
        FORK.finish_child(results, stats)
    extra, sts = FORK.collect()
    results.extend(extra)
    for st in sts:
        q, s, b, funcs, models, steps = st
        stats.queries += q
        stats.solver_s += s
        stats.branches += b
        stats.steps += steps
        for k, v in funcs.items():
            stats.funcs[k] = stats.funcs.get(k, 0) + v
        for k, v in models.items():
            stats.models[k] = stats.models.get(k, 0) + v
    return results, work


# worker globals
_WI = [None]
_WFN = [None]


def _worker_init(fn_module, fn_name):
    import importlib
    import native as _n
    if _n._D[0] is not None and mp.current_process().name != 'MainProcess':
        _n._D[0] = None      # never share the parent's driver pipes
    _WI[0] = make_interp()
    mod = importlib.import_module(fn_module)
    _WFN[0] = getattr(mod, fn_name)


def _worker_task(task):
    prefix, arg, budget = task
    stats = Stats()
    fn = _WFN[0]
    on_panic = getattr(fn, 'on_panic', None)
    results, left = explore_subtree(_WI[0], fn, prefix, arg, budget, stats, on_panic)
    return results, left, arg, (stats.queries, stats.solver_s, stats.branches, stats.funcs, stats.models, stats.steps)


WSTRIDE = int(os.environ.get('MSYM_WSTRIDE') or 17)
WCAP = int(os.environ.get('MSYM_WCAP') or 400)


class Exploration:
    def __init__(self):
        self.paths = 0
        self.status = {}
        self.violations = []
        self.vcount = {}
        self.tags = {}
        self.queries = 0
        self.solver_s = 0.0
        self.branches = 0
        self.decisions = 0
        self.funcs = {}
        self.models = {}
        self.steps = 0
        self.unsupported = {}
        self.panics = {}
        self.samples = []
        self.wsamples = []        # strided sample of path witnesses for differential validation against the native build
        self.notes = set()
        self.wall = 0.0
        self.incomplete = False

    def add(self, res, arg):
        self.paths += 1
        self.status[res.status] = self.status.get(res.status, 0) + 1
        self.decisions += res.decisions
        for t in res.tags:
            self.tags[t] = self.tags.get(t, 0) + 1
        for v in res.violations:
            k = v.get('vkey', v.get('clause'))
            self.vcount[k] = self.vcount.get(k, 0) + 1
            if self.vcount[k] <= 25:
                self.violations.append(v)
        if res.status == 'timeout':
            self.incomplete = True
        if res.status == 'unsupported':
            self.unsupported[res.detail] = self.unsupported.get(res.detail, 0) + 1
        if res.status == 'panic':
            self.panics[res.detail] = self.panics.get(res.detail, 0) + 1
        if res.witness is not None and len(self.samples) < 12:
            self.samples.append(res.witness)
        if res.witness is not None and self.paths % WSTRIDE == 0 and len(self.wsamples) < WCAP:
            self.wsamples.append(res.witness)
        for n in getattr(res, 'notes', []):
            self.notes.add(n)

    def add_stats(self, st):
        q, s, b, funcs, models, steps = st
        self.queries += q
        self.solver_s += s
        self.branches += b
        self.steps += steps
        for k, v in funcs.items():
            self.funcs[k] = self.funcs.get(k, 0) + v
        for k, v in models.items():
            self.models[k] = self.models.get(k, 0) + v


def explore(fn_module, fn_name, args, jobs=None, budget=40, max_paths=None, deadline=None):
    """explore path_fn for every arg in args (each arg = one harness configuration).  Parallel over a pool."""
    t0 = time.time()
    ex = Exploration()
    FORK.deadline = deadline
    jobs = jobs or int(os.environ.get('MSYM_JOBS', '0')) or min(16, os.cpu_count() or 1)
    tasks = [([], a, budget) for a in args]
    if FORK.sem is None:
        FORK.sem = mp.get_context('fork').BoundedSemaphore(int(os.environ.get('MSYM_FORK_SLOTS', '0')) or max(2, (os.cpu_count() or 2)))
    if jobs == 1:
        _worker_init(fn_module, fn_name)
        while tasks:
            t = tasks.pop()
            results, left, arg, st = _worker_task(t)
            for r in results:
                ex.add(r, arg)
            ex.add_stats(st)
            tasks.extend((p, arg, budget) for p in left)
            if (max_paths and ex.paths >= max_paths) or (deadline and time.time() > deadline):
                ex.incomplete = bool(tasks)
                break
        ex.wall = time.time() - t0
        return ex
    ctx = mp.get_context('fork')
    with ctx.Pool(jobs, initializer=_worker_init, initargs=(fn_module, fn_name)) as pool:
        pending = []
        # seed
        it = iter(tasks)
        tasks_q = list(tasks)
        inflight = 0
        results_q = []

        def submit(t):
            nonlocal inflight
            inflight += 1
            return pool.apply_async(_worker_task, (t,))
        handles = []
        while tasks_q or handles:
            while tasks_q and len(handles) < jobs * 3:
                handles.append(submit(tasks_q.pop()))
            done = [h for h in handles if h.ready()]
            if not done:
                time.sleep(0.005)
                continue
            for h in done:
                handles.remove(h)
                results, left, arg, st = h.get()
                for r in results:
                    ex.add(r, arg)
                ex.add_stats(st)
                # split leftovers: give each leftover prefix its own task so the pool balances
                tasks_q.extend((p, arg, budget) for p in left)
            if (max_paths and ex.paths >= max_paths) or (deadline and time.time() > deadline):
                ex.incomplete = bool(tasks_q or handles)
                pool.terminate()
                break
    ex.wall = time.time() - t0
    return ex
