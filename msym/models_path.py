"""std::path / std::env::current_dir / Path::exists for the repository-discovery code (C14: independence of the current
directory when -C names an absolute path).

Paths are concrete texts (Opaque('Path', str)); the only nondeterminism is the process' current directory, an
environment read private to the epoch (models_env): one of CWD_MENU or a failing getcwd (removed directory).  The file
system is an input shared by both executions: FS[0] = set of existing absolute paths."""
import z3

from values import *     # noqa
from models import model, chars_of
import models_env as ME

FS = [set()]
CWD_MENU = ['/r/s', '/x', '/r/s/t', '/', None]          # None = getcwd fails (the directory was removed)


def P(s):
    """PathBuf / &Path values are texts, as in the rest of the engine (`From<_> for PathBuf` gives a String object)"""
    return StringObj([ord(c) for c in s])


def PR(s):
    return Str([ord(c) for c in s])


def text(v):
    v = peel(v)
    if isinstance(v, (Str, StringObj)):
        cs = chars_of(v)
        if not all(isinstance(c, int) for c in cs):
            raise Unsupported('symbolic path text')
        return ''.join(chr(c) for c in cs)
    raise Unsupported('not a path: %r' % (v,))


def comps(s):
    """std::path::Components (unix): RootDir, then names; interior `.` and repeated `/` disappear, `..` is kept"""
    out = ['/'] if s.startswith('/') else []
    parts = [x for x in s.split('/') if x != '']
    for i, x in enumerate(parts):
        if x == '.' and not (i == 0 and not s.startswith('/')):
            continue
        out.append(x)
    return out


def unparse(cs):
    if not cs:
        return ''
    if cs[0] == '/':
        return '/' + '/'.join(cs[1:])
    return '/'.join(cs)


def resolve(s):
    """what the OS looks up for an absolute path (no symlinks in the modelled tree)"""
    out = []
    for x in comps(s)[1:]:
        if x == '..':
            if out:
                out.pop()
        elif x != '.':
            out.append(x)
    return '/' + '/'.join(out)


@model('Path::new')
def _new(I, ci, s):
    return PR(text(s))


@model('Path::is_absolute', 'Path::has_root')
def _is_abs(I, ci, p):
    return text(p).startswith('/')


@model('Path::is_relative')
def _is_rel(I, ci, p):
    return not text(p).startswith('/')


@model('Path::to_path_buf', 'PathBuf::from', 'Path::to_owned')
def _to_path_buf(I, ci, p):
    return P(text(p))


@model('PathBuf::as_path')
def _as_path(I, ci, p):
    return PR(text(p))


@model('Path::join')
def _join(I, ci, a, b):
    a, b = text(a), text(b)
    if b.startswith('/'):
        return P(b)
    if a == '' or a.endswith('/'):
        return P(a + b)
    return P(a + '/' + b)


@model('Path::parent')
def _parent(I, ci, p):
    cs = comps(text(p))
    if not cs or cs == ['/']:
        return none()
    return some(PR(unparse(cs[:-1])))


@model('Path::exists', 'Path::is_dir')
def _exists(I, ci, p):
    s = text(p)
    if not s.startswith('/'):
        # a relative path is looked up from the process' current directory
        cwd = _cwd_choice(I)
        if cwd is None:
            return False
        s = cwd + '/' + s
    return resolve(s) in FS[0]


def _cwd_choice(I):
    w = I.world
    idx = ME.env_sym(I, 'cwd', 0, len(CWD_MENU) - 1)
    w.notes.append('current directory read')
    for i, c in enumerate(CWD_MENU):
        if w.branch(idx == i):
            return c
    raise Infeasible()


@model('current_dir', 'env::current_dir')
def _current_dir(I, ci):
    c = _cwd_choice(I)
    if c is None:
        return err(Opaque('IoError', 'No such file or directory (os error 2)'))
    return ok(P(c))


@model('Path::display', 'Path::to_string_lossy', 'Path::to_str')
def _display(I, ci, p):
    s = StringObj([ord(c) for c in text(p)])
    return some(s) if ci.method == 'to_str' else s
