"""C16 — the sanitiser contract, decided on the MIR of src/utils/sanitize.rs."""
import sys
import os
import z3

sys.path.insert(0, os.path.dirname(os.path.dirname(os.path.abspath(__file__))))
from values import *        # noqa
import chars as C
from models import conj, disj, neg

SEPS = {'none': None, '.': '.', '-': '-', '_': '_'}


def bval(x):
    return x if isinstance(x, bool) else None


def znot(c):
    return (not c) if isinstance(c, bool) else z3.Not(c)


def zor(cs):
    return disj(list(cs))


def zand(cs):
    return conj(list(cs))


def zb(c):
    return z3.BoolVal(c) if isinstance(c, bool) else c


def model_input(m, cs):
    return [m.eval(c, model_completion=True).as_long() if not isinstance(c, int) else c for c in cs]


def make_sanitizer(I, cfg):
    if cfg.get('preset'):
        return I.call('Sanitizer::' + cfg['preset'], [])
    sep = cfg['sep']
    sz = I.call('Sanitizer::str', [some(mkstr(sep)) if sep is not None else none(), cfg['lower'], cfg['keep'],
                                   none() if cfg['maxlen'] is None else some(cfg['maxlen'])])
    if cfg.get('target') == 'uint':
        sz.fields[0] = Adt('SanitizeTarget', I.prog.variant_index('SanitizeTarget', 'UInt'), [])
    return sz


def effective(cfg):
    """(sep, lower, keep, maxlen, target) of a config, presets expanded as documented in the source comments"""
    p = cfg.get('preset')
    if p == 'semver_str':
        return '.', False, False, None, 'str'
    if p in ('pep440_local_str', 'key'):
        return '.', True, False, None, 'str'
    if p == 'uint':
        return None, False, False, None, 'uint'
    return cfg['sep'], cfg['lower'], cfg['keep'], cfg['maxlen'], cfg.get('target', 'str')


def ref_runs(w, cs, lower, keep):
    """reference: maximal runs of ASCII letters/digits of the input (lower-cased if asked, leading zeros of
    all-digit runs removed unless kept).  Forks on the reference's own predicates."""
    runs = []
    cur = []
    for c in cs:
        if w.branch(zb(C.p_ascii_alnum(c))):
            cur.append(C.ascii_lower(c) if lower else c)
        else:
            if cur:
                runs.append(cur)
            cur = []
    if cur:
        runs.append(cur)
    out = []
    for r in runs:
        if not keep and w.branch(zb(zand([C.p_ascii_digit(c) for c in r]))):
            k = 0
            while k < len(r) - 1 and w.branch(zb(r[k] == 48)):
                k += 1
            r = r[k:]
        out.append(r)
    return out


def path(ctx, arg):
    I, w = ctx.I, ctx.w
    cfg, n = arg
    sep, lower, keep, maxlen, target = effective(cfg)
    cs = [z3.Int('c%d' % i) for i in range(n)]
    alpha = cfg.get('alphabet')
    for c in cs:
        w.assume(C.domain(c, alphabet=alpha))
    sz = make_sanitizer(I, cfg)
    ctx.res.witness = None

    pending = []

    def report(clause, cond, detail=''):
        """cond: violation condition (python bool or z3); decided in flush()"""
        if cond is False:
            return
        pending.append((clause, zb(cond), detail))

    def flush():
        """one query for the disjunction of all clause violations; individual queries only when it is satisfiable"""
        if not pending:
            return
        if len(pending) > 1 and w.find(z3.Or([c for _, c, _ in pending])) is None:
            del pending[:]
            return
        for clause, cond, detail in pending:
            m = w.find(cond)
            if m is not None:
                ctx.violation(clause=clause, cfg=cfg, input=model_input(m, cs), detail=detail,
                              vkey='%s|%r' % (clause, sorted(cfg.items(), key=str)))
        del pending[:]

    try:
        out = I.call('Sanitizer::sanitize', [ValPtr(sz), Str(cs)])
    except Panic as e:
        m = w.get_model()
        ctx.violation(clause='panic', cfg=cfg, input=model_input(m, cs), detail=str(e), vkey='panic|%r' % (sorted(cfg.items(), key=str),))
        ctx.tag('panic')
        return
    oc = list(out.chars)
    ctx.tag('returned')
    ctx.tag('outlen%d' % min(len(oc), 3))
    m0 = w.get_model()
    ctx.res.witness = dict(cfg=cfg, input=''.join(map(chr, model_input(m0, cs))), out_len=len(oc))

    if target == 'uint':
        # (g) digits of a purely numeric input without leading zeros, empty otherwise
        alld = zand([C.p_ascii_digit(c) for c in cs]) if cs else False
        if w.branch(zb(alld)):
            ctx.tag('numeric')
            k = 0
            if not keep:
                while k < len(cs) - 1 and w.branch(zb(cs[k] == 48)):
                    k += 1
            exp = cs[k:]
            if len(exp) != len(oc):
                report('g_integer', True, 'numeric input: wrong digit count')
            else:
                report('g_integer', zor([a != b for a, b in zip(exp, oc)]), 'numeric input: wrong digits')
        else:
            ctx.tag('nonnumeric')
            # whitespace-padded numerics are pinned by a unit test to the trimmed value: accepted either way
            def is_ws(c):
                return C.p_whitespace(c)
            inner = list(cs)
            while inner and w.branch(zb(is_ws(inner[0]))):
                inner = inner[1:]
            while inner and w.branch(zb(is_ws(inner[-1]))):
                inner = inner[:-1]
            padded_numeric = bool(inner) and len(inner) < len(cs) and w.branch(zb(zand([C.p_ascii_digit(c) for c in inner])))
            if not padded_numeric and oc:
                report('g_integer', True, 'non-numeric input gave non-empty output')
        # idempotence
        out2 = I.call('Sanitizer::sanitize', [ValPtr(sz), Str(oc)])
        if len(out2.chars) != len(oc):
            report('f_idempotence', True)
        else:
            report('f_idempotence', zor([a != b for a, b in zip(out2.chars, oc)]))
        flush()
        return

    sepc = ord(sep) if sep is not None else None
    # (d) length
    if maxlen is not None and len(oc) > maxlen:
        report('d_maxlen', True, 'output longer than max_length')
    if sep is not None:
        # (a) character set
        def okc(c):
            base = zor([C.p_ascii_digit(c), C.p_ascii_lower(c), c == sepc] + ([] if lower else [C.p_ascii_upper(c)]))
            return base
        report('a_charset', zor([znot(okc(c)) for c in oc]), 'character outside [0-9A-Za-z]+sep')
        # (b) separators
        if oc:
            report('b_separators', zor([oc[0] == sepc, oc[-1] == sepc] + [zand([oc[i] == sepc, oc[i + 1] == sepc])
                                                                          for i in range(len(oc) - 1)]),
                   'leading / trailing / doubled separator')
        # (c) no all-digit segment with a leading zero
        if not keep:
            terms = []
            L = len(oc)
            for i in range(L):
                start = True if i == 0 else (oc[i - 1] == sepc)
                for j in range(i + 1, L):
                    end = True if j == L - 1 else (oc[j + 1] == sepc)
                    terms.append(zand([start, end, oc[i] == 48] + [C.p_ascii_digit(oc[k]) for k in range(i, j + 1)]))
            report('c_leading_zero', zor(terms), 'all-digit segment with leading zero')
        # (e) reference equality, only without truncation
        if maxlen is None:
            runs = ref_runs(w, cs, lower, keep)
            exp = []
            for k, r in enumerate(runs):
                if k:
                    exp.append(sepc)
                exp.extend(r)
            if len(exp) != len(oc):
                report('e_reference', True, 'output differs from the maximal-ASCII-runs reference (length)')
            else:
                report('e_reference', zor([a != b for a, b in zip(exp, oc)]),
                       'output differs from the maximal-ASCII-runs reference')
    else:
        # separator none is outside the statement ("a non-alphanumeric separator"); by design and unit test every
        # character stays: only the leading-zero rule on the whole string is claimed
        if not keep and len(oc) >= 2 and maxlen is None:
            report('c_leading_zero', zand([oc[0] == 48] + [C.p_ascii_digit(c) for c in oc]),
                   'all-digit output with leading zero (separator none)')
        if maxlen is not None:
            # truncation after zero-stripping can expose a new all-digit prefix ("00/" -> "00"); separator none is
            # outside the statement, so only the length bound and panic-freedom are claimed here
            flush()
            return
    flush()
    # (f) idempotence: run the real code on its own (symbolic) output
    try:
        out2 = I.call('Sanitizer::sanitize', [ValPtr(sz), Str(oc)])
    except Panic as e:
        m = w.get_model()
        ctx.violation(clause='panic', cfg=cfg, input=model_input(m, oc), detail='second pass: ' + str(e), vkey='panic2|%r' % (sorted(cfg.items(), key=str),))
        return
    if len(out2.chars) != len(oc):
        report('f_idempotence', True, 'sanitize(sanitize(x)) has a different length')
    else:
        report('f_idempotence', zor([a != b for a, b in zip(out2.chars, oc)]), 'sanitize(sanitize(x)) != sanitize(x)')
    flush()


# ------------------------------------------------------------------ concrete oracle (replay side)
def is_ascii_alnum(ch):
    return ch.isascii() and ch.isalnum()


def concrete_reference(s, sep, lower, keep):
    runs = []
    cur = ''
    for ch in s:
        if is_ascii_alnum(ch):
            cur += ch.lower() if lower else ch
        else:
            if cur:
                runs.append(cur)
            cur = ''
    if cur:
        runs.append(cur)
    out = []
    for r in runs:
        if not keep and r.isdigit():
            r = r.lstrip('0') or '0'
        out.append(r)
    return sep.join(out)


def concrete_check(cfg, inp, run_native):
    """evaluate the contract on the *native* output; returns list of violated clauses"""
    sep, lower, keep, maxlen, target = effective(cfg)
    r = run_native(cfg, inp)
    if 'panic' in r:
        return ['panic'], r
    out = r['out']
    bad = []
    r2 = run_native(cfg, out)
    if 'panic' in r2:
        bad.append('panic')
    elif r2['out'] != out:
        bad.append('f_idempotence')
    if target == 'uint':
        if inp and inp.isascii() and inp.isdigit():
            exp = inp if keep else (inp.lstrip('0') or '0')
            if out != exp:
                bad.append('g_integer')
        else:
            t = inp.strip()
            padded = t != inp and t.isascii() and t.isdigit() and t != ''
            if out != '' and not padded:
                bad.append('g_integer')
        return bad, r
    if maxlen is not None and len(out) > maxlen:
        bad.append('d_maxlen')
    if sep is not None:
        for ch in out:
            if not (ch == sep or (is_ascii_alnum(ch) and not (lower and ch.isupper()))):
                bad.append('a_charset')
                break
        if out and (out[0] == sep or out[-1] == sep or sep + sep in out):
            bad.append('b_separators')
        if not keep:
            for seg in out.split(sep):
                if len(seg) >= 2 and seg.isascii() and seg.isdigit() and seg[0] == '0':
                    bad.append('c_leading_zero')
                    break
        if maxlen is None and out != concrete_reference(inp, sep, lower, keep):
            bad.append('e_reference')
    else:
        if maxlen is not None:
            bad = [b for b in bad if b != 'f_idempotence']
        elif not keep and len(out) >= 2 and out.isascii() and out.isdigit() and out[0] == '0':
            bad.append('c_leading_zero')
    return bad, r
