"""C04 (decided part) — flow derives pre-release label / number / post mode from the documented branch rules, and the
branch hash keeps its contract.  MIR of src/cli/flow/branch_rules.rs, flow/args/branch_rules.rs, template/functions.rs."""
import os
import sys
import z3

sys.path.insert(0, os.path.dirname(os.path.dirname(os.path.abspath(__file__))))
from values import *        # noqa
import chars as C
from models import chars_of, conj
import c06
from models_json import jstr, jnum, jbool

U32 = 2**32 - 1
LABELS = ['alpha', 'beta', 'rc']
MODES = ['tag', 'commit']

# rule sets: (pattern, label, explicit number or None, post mode)
RULESETS = {
    'default': None,     # BranchRules::default_rules() from MIR: develop->beta 1 commit; release/*->rc tag; *->alpha commit
    'short': [('dv', 'beta', 1, 'commit'), ('rl/*', 'rc', None, 'tag'), ('*', 'alpha', None, 'commit')],
    'nested': [('a/b/*', 'rc', None, 'tag'), ('a/*', 'beta', None, 'commit')],
    'shadow': [('a/*', 'beta', None, 'commit'), ('a/b/*', 'rc', None, 'tag'), ('ab', 'rc', 7, 'tag')],
    'no_star': [('m', 'rc', 3, 'tag')],
    'exact_after_wildcard': [('a/*', 'beta', None, 'commit'), ('a/b', 'rc', 7, 'tag'), ('*', 'alpha', None, 'commit'), ('x', 'rc', 2, 'tag')],
}
DEFAULT_RULES = [('develop', 'beta', 1, 'commit'), ('release/*', 'rc', None, 'tag'), ('*', 'alpha', None, 'commit')]


def build_rules(I, name):
    vi = I.prog.variant_index
    if RULESETS[name] is None:
        return I.call('BranchRules::default_rules', []), DEFAULT_RULES
    rules = []
    for pat, lab, num, mode in RULESETS[name]:
        rules.append(Adt('BranchRule', 0, [mkstring(pat), Adt('PreReleaseLabel', LABELS.index(lab), []),
                                            none() if num is None else some(num), Adt('PostMode', MODES.index(mode), [])]))
    r = I.call('BranchRules::new', [VecObj(rules)])
    assert r.variant == 0, 'rule set %s rejected by validate' % name
    return r.fields[0], RULESETS[name]


def branch_chars(w, fam):
    cs = []
    for i, el in enumerate(fam):
        if el == 'ANY':
            c = w.fresh_int('b%d' % i)
            w.assume(C.domain(c))
        elif el == 'PATH':
            c = w.fresh_int('b%d' % i)
            w.assume(z3.Or([c == ord(x) for x in 'abdlrv/-+019x'] + [c == r for r in sorted(C.R)[:2]]))
        elif el == 'DIGIT':
            c = w.fresh_int('b%d' % i)
            w.assume(z3.And(c >= 48, c <= 57))
        else:
            c = ord(el)
        cs.append(c)
    return cs


# ------------------------------------------------------------------ oracle (statement)
def oracle_match(w, rule, cs):
    pat = rule[0]
    if pat == '*':
        return len(cs) > 0
    if pat.endswith('/*'):
        pre = [ord(c) for c in pat[:-1]]          # keeps the slash: only names under "prefix/"
        if len(cs) <= len(pre):
            return False
        return w.branch(conj([cs[i] == pre[i] for i in range(len(pre))]))
    p = [ord(c) for c in pat]
    if len(p) != len(cs):
        return False
    return w.branch(conj([cs[i] == p[i] for i in range(len(p))]))


def oracle_number(w, rule, cs):
    """explicit number, else the first all-digit path segment after the prefix (as u32), else None"""
    if rule[2] is not None:
        return rule[2]
    pat = rule[0]
    rest = cs if pat == '*' else cs[len(pat) - 1:]
    segs = []
    cur = []
    for c in rest:
        if w.branch(c == 47):
            segs.append(cur)
            cur = []
        else:
            cur.append(c)
    segs.append(cur)
    for sg in segs:
        if sg and w.branch(conj([C.p_ascii_digit(c) for c in sg])):
            n = len(sg)
            val = z3.Sum([(c - 48) * 10 ** (n - 1 - i) for i, c in enumerate(sg)]) if n > 1 else sg[0] - 48
            if n > 10 and not w.branch(conj([c == 48 for c in sg[:n - 10]])):
                return None
            if w.branch(val <= U32):
                return val
            return None          # does not fit: falls back to the branch hash
    return None


def path_rules(ctx, arg):
    I, w = ctx.I, ctx.w
    rules_val, rules = build_rules(I, arg['rules'])
    has_branch = arg['branch'] is not None
    cs = branch_chars(w, arg['branch']) if has_branch else []
    # explicit flags
    flag_label = arg.get('label')
    flag_mode = arg.get('mode')
    has_num = w.fresh_int('has_num', 0, 1) if arg.get('num_flag') else 0
    num = w.fresh_int('num', 0, U32)
    cfg = Adt('BranchRulesConfig', 0, [none() if flag_label is None else some(mkstring(flag_label)),
                                       Adt('Option', has_num, [num]) if arg.get('num_flag') else none(),
                                       none() if flag_mode is None else some(mkstring(flag_mode)), rules_val])
    sv = c06.SymVars(w, I, set(), {})
    vars_ = sv.value(I)
    vars_.fields[c06.FIELDS.index('bumped_branch')] = some(StringObj(cs)) if has_branch else none()
    schema = I.call('ZervSchema::new', [VecObj([c06.comp_value(I, ('var', 'Major'))]), VecObj([]), VecObj([])]).fields[0]
    zerv = Adt('Zerv', 0, [schema, vars_])

    def viol(clause, m, detail):
        b = None if not has_branch else [m.eval(c, model_completion=True).as_long() if not isinstance(c, int) else c for c in cs]
        ctx.violation(clause=clause, rules=arg['rules'], branch=b, label=flag_label, mode=flag_mode,
                      num=(m.eval(num, model_completion=True).as_long() if arg.get('num_flag') and m.eval(has_num, model_completion=True).as_long() else None),
                      detail=detail, vkey='%s|%s' % (clause, arg['rules']))
    try:
        r = I.call('BranchRulesConfig::apply_branch_rules', [ValPtr(cfg), ValPtr(zerv)])
    except Panic as e:
        viol('panic', w.get_model(), str(e))
        return
    if r.variant != 0:
        viol('unexpected_error', w.get_model(), 'apply_branch_rules failed')
        return
    ctx.tag('applied')
    # oracle
    rule = None
    if has_branch:
        for rl in rules:
            if oracle_match(w, rl, cs):
                rule = rl
                break
    exp_label = flag_label or (rule[1] if rule else 'alpha')
    exp_mode = flag_mode or (rule[3] if rule else 'commit')
    rnum = oracle_number(w, rule, cs) if rule else None
    ctx.tag('rule:' + (rule[0] if rule else 'none'))
    got_label = ''.join(chr(c) for c in chars_of(cfg.fields[0].fields[0])) if cfg.fields[0].variant == 1 else None
    got_mode = ''.join(chr(c) for c in chars_of(cfg.fields[2].fields[0])) if cfg.fields[2].variant == 1 else None
    m0 = w.get_model()
    ctx.res.witness = dict(rules=arg['rules'], branch=None if not has_branch else ''.join(chr(m0.eval(c, model_completion=True).as_long() if not isinstance(c, int) else c) for c in cs),
                           rule=rule[0] if rule else None, label=got_label, mode=got_mode,
                           flags=dict(label=flag_label, mode=flag_mode, num=(m0.eval(num, model_completion=True).as_long() if arg.get('num_flag') and m0.eval(has_num, model_completion=True).as_long() else None)),
                           num=(lambda o: None if (o.variant if isinstance(o.variant, int) else m0.eval(o.variant, model_completion=True).as_long()) != 1 else
                                (o.fields[0] if isinstance(o.fields[0], int) else m0.eval(o.fields[0], model_completion=True).as_long()))(cfg.fields[1]))
    if got_label != exp_label or got_mode != exp_mode:
        viol('rule_selection', m0, 'label/post-mode %s/%s, the first matching rule gives %s/%s' % (got_label, got_mode, exp_label, exp_mode))
        return
    gn = cfg.fields[1]
    # number: explicit flag, else rule number / extracted, else None (the hash template fills it later)
    from c05 import opt_mismatch
    if rnum is None:
        exp_p, exp_v = (has_num if arg.get('num_flag') else z3.IntVal(0)), num
    else:
        exp_p = z3.IntVal(1)
        exp_v = z3.If(has_num == 1, num, rnum) if arg.get('num_flag') else (z3.IntVal(rnum) if isinstance(rnum, int) else rnum)
    m = w.find(opt_mismatch(gn, exp_p, exp_v))
    if m is not None:
        viol('number', m, 'pre-release number differs from: explicit flag, else rule number, else first all-digit path segment after the prefix')


def path_hash(ctx, arg):
    """hash_int(value, length): at most `length` decimal digits, no leading zero, usable as a u32 pre-release number"""
    I, w = ctx.I, ctx.w
    import models_std as MS
    MS.HASH_RANGE[0] = 0          # the hash contract is decided over the whole u64 range
    n, length, allow0 = arg
    cs = [w.fresh_int('v%d' % i) for i in range(n)]
    for c in cs:
        w.assume(C.domain(c))
    entries = [(mkstring('value'), jstr(cs)), (mkstring('length'), jnum(length))]
    if allow0 is not None:
        entries.append((mkstring('allow_leading_zero'), jbool(allow0)))
    args = MapObj(entries, 'HashMap')

    def viol(clause, m, detail):
        ctx.violation(clause=clause, value=[m.eval(c, model_completion=True).as_long() for c in cs], length=length, allow0=allow0,
                      detail=detail, vkey='%s|%s' % (clause, length))
    try:
        r = I.call('hash_int_function', [ValPtr(args)])
        r2 = I.call('hash_int_function', [ValPtr(args)])
    except Panic as e:
        viol('panic', w.get_model(), str(e))
        return
    if r.variant != 0:
        viol('unexpected_error', w.get_model(), 'hash_int failed')
        return
    out = chars_of(r.fields[0].fields[0])
    out2 = chars_of(r2.fields[0].fields[0])
    ctx.tag('hashed')
    ctx.tag('len%d' % len(out))
    if len(out) > length or len(out) == 0:
        viol('hash_length', w.get_model(), 'hash_int returned %d chars for length %d' % (len(out), length))
        return
    conds = [z3.Not(C.p_ascii_digit(c)) for c in out if not isinstance(c, int)]
    if not allow0 and len(out) > 1:
        conds.append(out[0] == 48)
    if len(out) != len(out2):
        conds.append(z3.BoolVal(True))
    else:
        conds += [a != b for a, b in zip(out, out2) if not (isinstance(a, int) and isinstance(b, int) and a == b)]
    conds = [c for c in conds if c is not False]
    if conds:
        m = w.find(z3.Or([c if not isinstance(c, bool) else z3.BoolVal(c) for c in conds]))
        if m is not None:
            viol('hash_digits', m, 'hash_int result is not plain digits without leading zero / not deterministic')
            return
    # every documented length yields a value the pipeline accepts (Template<u32>: parse::<u32>)
    if not allow0 and length <= 10:
        from models_fmt import parse_int
        pr = parse_int(I, out, 'u32')
        if pr.variant != 0:
            viol('hash_not_u32', w.get_model(), 'hash_int(length=%d) can exceed u32: the flow pipeline rejects it as pre-release number' % length)
            return
        ctx.tag('fits_u32')


def rule_args(tier):
    quick = tier == 'quick'
    N = 5 if quick else 7
    out = []
    for rs in ('short', 'nested', 'shadow', 'no_star', 'exact_after_wildcard'):
        for n in range(0, N + 1):
            out.append(dict(rules=rs, branch=['PATH'] * n, num_flag=(n % 2 == 0)))
        out.append(dict(rules=rs, branch=None))
    # explicit flags override the rules
    for lab, mode in (('rc', None), (None, 'tag'), ('beta', 'commit')):
        for n in (2, 4):
            out.append(dict(rules='short', branch=['PATH'] * n, label=lab, mode=mode, num_flag=True))
    # the default GitFlow rules need longer names: concrete prefixes with symbolic tails
    tails = [0, 1, 2, 3] if quick else [0, 1, 2, 3, 4, 5]
    for k in tails:
        out.append(dict(rules='default', branch=list('release/') + ['PATH'] * k, num_flag=(k == 1)))
        out.append(dict(rules='default', branch=list('release') + ['PATH'] * k))
        out.append(dict(rules='default', branch=list('develop') + ['PATH'] * min(k, 2)))
        out.append(dict(rules='default', branch=list('feature/') + ['PATH'] * k))
        out.append(dict(rules='default', branch=['PATH'] * (k + 1)))
    for k in (9, 10, 11):
        out.append(dict(rules='default', branch=list('release/') + ['DIGIT'] * k))
        out.append(dict(rules='default', branch=list('f/') + ['DIGIT'] * k + list('/7')))
    out.append(dict(rules='default', branch=None, num_flag=True))
    return out


def hash_args(tier):
    quick = tier == 'quick'
    out = []
    for length in list(range(1, 11)) + [19, 20, 21, 24]:
        for n in ((1, 2) if quick else (0, 1, 2, 3)):
            out.append((n, length, None))
        out.append((1, length, True))
        out.append((1, length, False))
    return out
