"""C14 (partial) — output is a function of the inputs, not of the process environment: 2-safety by self-composition.

The same computation is executed twice on the same symbolic inputs; between the two executions the *environment epoch*
is bumped (models_env): local time-zone offset, environment variables and per-process hasher keys are solver variables
private to an epoch, the wall clock is shared (the documented dev-timestamp exception is thereby factored out).  The
obligation is that both executions produce the same output for every value of those variables."""
import os
import sys
import z3

sys.path.insert(0, os.path.dirname(os.path.dirname(os.path.abspath(__file__))))
from values import *        # noqa
import chars as C
from models import chars_of
import models_env as ME
import models_chrono as MC
from models_json import jstr, jnum
import c03
import c06
import c15
import c17

TS_LO, TS_HI = 14 * 3600, MC.END_2199 - 14 * 3600 - 1


def two_envs(fn, I=None):
    """run fn() under two independent process environments -> (result1, result2)"""
    ME.CUR[0] = I
    ME.SHARED_CLOCK[0] = True
    try:
        ME.ENV[0] = 1
        a = fn()
        ME.ENV[0] = 2
        b = fn()
    finally:
        ME.ENV[0] = 0
        ME.SHARED_CLOCK[0] = False
        ME.CUR[0] = None
    return a, b


def env_of(w, m):
    d = w.__dict__.get('_env', {})
    out = {}
    for k, v in d.items():
        if k == 'clock':
            continue
        if len(k) == 2:
            out['%s@%d' % (k[1], k[0])] = m.eval(v, model_completion=True).as_long()
        else:
            pres, c = v
            out['$%s@%d' % (k[2], k[0])] = chr(m.eval(c, model_completion=True).as_long()) if m.eval(pres, model_completion=True).as_long() else None
    if w.__dict__.get('_ho_count'):
        out['hashorder'] = True
    if w.__dict__.get('_rs_count'):
        out['random_state'] = True
    return out


def differ(w, a, b):
    """model under which the two texts differ, or None"""
    if len(a) != len(b):
        return w.get_model()
    return c06.text_diff(w, a, b)


def path_ts(ctx, pattern):
    """resolve_timestamp(pattern, ts) is the same in every process (UTC): any ts 1970..2199, any two time zones"""
    I, w = ctx.I, ctx.w
    ts = w.fresh_int('ts', TS_LO, TS_HI)

    def run():
        r = I.call('resolve_timestamp', [Str([ord(c) for c in pattern]), ts])
        return None if r.variant != 0 else chars_of(r.fields[0])
    try:
        a, b = two_envs(run, I)
    except Panic as e:
        ctx.violation(clause='panic', what='resolve_timestamp', pattern=pattern, detail=str(e), vkey='panic|ts')
        return
    ctx.tag('two_runs')
    if (a is None) != (b is None):
        m = w.get_model()
        ctx.violation(clause='env_dependent', what='resolve_timestamp', pattern=pattern, ts=m.eval(ts, model_completion=True).as_long(), env=env_of(w, m), detail='succeeds in one environment only', vkey='env|ts|' + pattern)
        return
    if a is None:
        return
    m = differ(w, a, b)
    if m is not None:
        ctx.violation(clause='env_dependent', what='resolve_timestamp', pattern=pattern, ts=m.eval(ts, model_completion=True).as_long(), env=env_of(w, m),
                      detail='resolve_timestamp gives different text in two process environments', vkey='env|ts|' + pattern)
    else:
        ctx.tag('same_output')


def path_fn(ctx, arg):
    """template helper functions: hash / hash_int / format_timestamp give the same text in every process"""
    I, w = ctx.I, ctx.w
    kind = arg[0]
    if kind in ('hash', 'hash_int'):
        cs = c15.sym_text(w, arg[1])
        entries = [('value', jstr(cs))] + ([('length', jnum(arg[2]))] if arg[2] is not None else [])
        name = kind + '_function'
        inp = lambda m: dict(value=c15.mvals(m, cs), length=arg[2])
    else:
        ts = w.fresh_int('ts', TS_LO, TS_HI)
        entries = [('value', jnum(ts))] + ([('format', jstr([ord(c) for c in arg[1]]))] if arg[1] is not None else [])
        name = 'format_timestamp_function'
        inp = lambda m: dict(ts=m.eval(ts, model_completion=True).as_long(), format=arg[1])

    def run():
        r = c15.call_fn(I, name, entries)
        return None if r.variant != 0 else chars_of(r.fields[0].fields[0])
    try:
        a, b = two_envs(run, I)
    except Panic as e:
        ctx.violation(clause='panic', what=name, detail=str(e), vkey='panic|fn')
        return
    ctx.tag('two_runs')
    if a is None or b is None:
        if (a is None) != (b is None):
            m = w.get_model()
            ctx.violation(clause='env_dependent', what=name, input=inp(m), env=env_of(w, m), detail='succeeds in one environment only', vkey='env|fn|' + kind)
        return
    m = differ(w, a, b)
    if m is not None:
        ctx.violation(clause='env_dependent', what=name, input=inp(m), env=env_of(w, m), detail='%s gives different text in two process environments' % name, vkey='env|fn|' + kind)
    else:
        ctx.tag('same_output')


def path_flow(ctx, arg):
    """the flow pipeline (sources none/stdin) twice on the same draft variables: same rendering in both formats"""
    I, w = ctx.I, ctx.w
    case = c03.Case(ctx, arg)

    def run():
        r2, fa, cur = c03.run_flow(ctx, arg, case)
        if r2.variant != 0:
            return None
        z = r2.fields[0]
        return [c03.rendered(I, z, f)[1] for f in ('semver', 'pep440')]
    try:
        a, b = two_envs(run, I)
    except Panic as e:
        ctx.violation(clause='panic', what='flow', case=case.concrete(w.get_model()), arg=arg, detail=str(e), vkey='panic|flow')
        return
    ctx.tag('two_runs')
    if a is None or b is None:
        if (a is None) != (b is None):
            m = w.get_model()
            ctx.violation(clause='env_dependent', what='flow', case=case.concrete(m), arg=arg, env=env_of(w, m), detail='succeeds in one environment only', vkey='env|flow')
        return
    for fmt, x, y in zip(('semver', 'pep440'), a, b):
        m = differ(w, x, y)
        if m is not None:
            ctx.violation(clause='env_dependent', what='flow', case=case.concrete(m), arg=arg, fmt=fmt, env=env_of(w, m), out1=c03.mstr(m, x), out2=c03.mstr(m, y),
                          detail='flow output differs between two process environments (same inputs, same clock)', vkey='env|flow|' + fmt)
            return
    ctx.tag('same_output')


def path_render(ctx, arg):
    """rendering of calendar-version schemas: same text in every process"""
    I, w = ctx.I, ctx.w
    schema, fmt = arg['schema'], arg['fmt']
    core, extra, build = [[c06.comp_value(I, c) for c in part] for part in schema]
    r = I.call('ZervSchema::new', [VecObj(core), VecObj(extra), VecObj(build)])
    sv = c06.SymVars(w, I, c06.used_vars(schema), arg.get('cfg', {}))
    zerv = Adt('Zerv', 0, [r.fields[0], sv.value(I)])
    ty = 'SemVer' if fmt == 'semver' else 'PEP440'

    def run():
        v = I.call('<%s as From<Zerv>>::from' % ty, [deep_copy(zerv)])
        return chars_of(I.call('<%s as ToString>::to_string' % ty, [ValPtr(v)]))
    try:
        a, b = two_envs(run, I)
    except Panic as e:
        ctx.violation(clause='panic', what='render', detail=str(e), vkey='panic|render')
        return
    ctx.tag('two_runs')
    m = differ(w, a, b)
    if m is not None:
        ctx.violation(clause='env_dependent', what='render', schema=c06.schema_json(schema), schema_text=c06.schema_repr(schema), fmt=fmt, vars=sv.concrete(m), env=env_of(w, m),
                      out1=c03.mstr(m, a), out2=c03.mstr(m, b), detail='rendering differs between two process environments', vkey='env|render|' + fmt)
    else:
        ctx.tag('same_output')


def path_git(ctx, arg):
    """the git extraction (zerv's side, C02 stub) twice on the same repository summary under two process environments:
    the reported facts must be identical (hash-container iteration order, hasher keys, TZ, variables are epoch-private)"""
    import c02
    I, w = ctx.I, ctx.w
    wd = c02.GitWorld(ctx, arg)
    fmt = arg['fmt']

    def run():
        c02.WORLD[0] = wd
        try:
            vcs = Adt('GitVcs', 0, [mkstring('/repo-under-test')])
            r = I.call('<GitVcs as Vcs>::get_vcs_data', [ValPtr(vcs), Str(c02.txt(fmt))])
        finally:
            c02.WORLD[0] = None
        if r.variant != 0:
            return None
        d = r.fields[0]
        rv = I.call('vcs_data_to_zerv_vars', [deep_copy(d), Str(c02.txt(fmt))])
        return d, rv
    try:
        a, b = two_envs(run, I)
    except Panic as e:
        ctx.violation(clause='panic', what='git', detail=str(e), vkey='panic|git')
        return
    ctx.tag('two_runs')

    def viol(detail):
        m = w.get_model()
        ctx.violation(clause='env_dependent', what='git', world=wd.concrete(m), fmt=fmt, env=env_of(w, m), detail=detail, vkey='env|git|' + arg.get('name', ''))
    if a is None or b is None:
        if (a is None) != (b is None):
            viol('extraction succeeds in one environment only')
        return
    diffs = []

    def cmpv(x, y, path):
        x, y = peel(x), peel(y)
        if isinstance(x, (StringObj, Str)) or isinstance(y, (StringObj, Str)):
            if differ(w, chars_of(x), chars_of(y)) is not None:
                diffs.append(path)
        elif isinstance(x, Adt) and isinstance(y, Adt):
            if isinstance(x.variant, int) and isinstance(y.variant, int):
                if x.variant != y.variant:
                    diffs.append(path)
                    return
            elif w.find(x.variant != y.variant) is not None:
                diffs.append(path)
                return
            for i, (p, q) in enumerate(zip(x.fields, y.fields)):
                cmpv(p, q, '%s.%d' % (path, i))
        elif isinstance(x, (int, bool)) and isinstance(y, (int, bool)):
            if x != y:
                diffs.append(path)
        elif z3.is_expr(x) or z3.is_expr(y):
            if w.find(x != y) is not None:
                diffs.append(path)
        elif hasattr(x, 'items') and hasattr(y, 'items'):
            xs, ys = list(x.items), list(y.items)
            if len(xs) != len(ys):
                diffs.append(path)
            else:
                for i, (p, q) in enumerate(zip(xs, ys)):
                    cmpv(p, q, '%s[%d]' % (path, i))
    for i, n in enumerate(c02.VCS_FIELDS):
        cmpv(a[0].fields[i], b[0].fields[i], n)
    if not diffs:
        cmpv(a[1], b[1], 'vars')
    if diffs:
        viol('the extraction reports different facts in two process environments: %s' % ', '.join(diffs[:4]))
    else:
        ctx.tag('same_output')


def path_root(ctx, arg):
    """repository discovery (`-C <dir>` -> GitVcs::new_with_limit -> find_vcs_root_with_limit, is_available) twice under two
    process environments whose current directories differ (or cannot be read: removed directory): for an ABSOLUTE
    start path the outcome must not depend on the current directory; a relative start path may (the directory is then
    part of the input) but must not panic.  File system: a fixed tree with `.git` at `root` (input shared by both runs)."""
    import models_path as MP
    I, w = ctx.I, ctx.w
    start, depth, root = arg
    MP.FS[0] = {'/', '/r', '/r/s', '/r/s/t', '/x', '/x/y'} | ({root + '/.git'} if root else set())
    md = none() if depth is None else some(depth)

    def run():
        r = I.call('GitVcs::new_with_limit', [MP.PR(start), md])
        if r.variant != 0:
            return ('err',)
        g = r.fields[0]
        avail = I.call("<GitVcs as Vcs>::is_available", [ValPtr(g), MP.PR(start)])
        return ('ok', MP.text(peel(g).fields[0]), bool(avail) if isinstance(avail, bool) else avail)
    import models_misc as MM
    MM.PROCESS_OUTPUT[0] = dict(success=True, stdout=[ord(c) for c in 'git version 2.39.5\n'], stderr=[])     # `git --version` of is_available
    try:
        a, b = two_envs(run, I)
    except Panic as e:
        MM.PROCESS_OUTPUT[0] = None
        ctx.violation(clause='panic', what='find_vcs_root', start=start, depth=depth, root=root, detail=str(e), vkey='panic|root')
        return
    MM.PROCESS_OUTPUT[0] = None
    ctx.tag('two_runs')
    ctx.tag('found' if a[0] == 'ok' else 'not_found')
    if start.startswith('/'):
        if a != b:
            m = w.get_model()
            env = env_of(w, m)
            cw = lambda k: MP.CWD_MENU[env['cwd@%d' % k]] if ('cwd@%d' % k) in env else 'not read'
            ctx.violation(clause='env_dependent', what='vcs_root', start=start, depth=depth, root=root, cwd=[cw(1), cw(2)], results=[list(a), list(b)], env={k: v for k, v in env.items()},
                          detail='repository discovery from the absolute path %s gives %s with current directory %s and %s with %s' % (start, a, cw(1), b, cw(2)), vkey='env|root')
        else:
            ctx.tag('same_output')
    else:
        ctx.tag('relative_start')


def root_args(tier):
    out = []
    for root in ('/r', '/r/s', None):
        for start in ('/r/s/t', '/r', '/x/y', '/', '/r/s/..', 's', '..', '.'):
            for depth in ((None, 0, 1, 3) if tier != 'quick' or start in ('/r/s/t', '..') else (None, 1)):
                out.append((start, depth, root))
    return out


def git_args(tier):
    import c02
    q = tier == 'quick'
    out = []
    for name in (('spelling', 'semver_order') if q else c02.MENUS):
        tags, fmts = c02.MENUS[name]
        for fmt in (fmts[:1] + fmts[-1:] if q else fmts):
            for k in ((1, 2) if q else (1, 2, 3)):
                out.append(dict(name=name, fmt=fmt, commits=k, tags=tags, branch=list('main'), status_len=0))
    out.append(dict(name='equal_precedence', fmt='semver', commits=1, tags=['v1.0.0+a', 'v1.0.0+b', '1.0.0', 'v1.0.0'], branch=None, status_len=1))
    return out


def fn_args(tier):
    out = [('hash', n, ln) for n in (0, 1, 2) for ln in (None, 7, 16)] + [('hash_int', n, ln) for n in (0, 1, 2) for ln in (None, 5, 10)]
    out += [('format_timestamp', f) for f in (None, '%Y%m%d', 'compact_date', 'compact_datetime', '%H:%M:%S', '%y.%-m.%-d', '%Y-%m-%dT%H:%M:%S')]
    return out


def flow_args(tier):
    cs = [a for a in c03.flow_cases('quick') if a.get('name') in ('clean_at_tag', 'moved', 'default_rules', 'flags') and 'PATH' not in (a.get('branch') or [])]
    return cs if tier != 'quick' else cs[:8]
