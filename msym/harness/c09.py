"""C09 — the PEP 440 parser accepts exactly Appendix B (ASCII, case-insensitive) and prints the normal form.
Decided on the MIR of PEP440::from_str / parse_local_segments / normalize / Display / Ord."""
import os
import sys
import z3

sys.path.insert(0, os.path.dirname(os.path.dirname(os.path.abspath(__file__))))
from values import *        # noqa
import chars as C
import models_regex as MR
import relang

# PEP 440 Appendix B (without the surrounding \s*), ASCII-only case folding; my text, compiled by regex-syntax
SPEC_PATTERN = (r'(?i-u)^v?(?:(?:(?P<epoch>[0-9]+)!)?(?P<release>[0-9]+(?:\.[0-9]+)*)'
                r'(?P<pre>[-_\.]?(?P<pre_l>alpha|a|beta|b|preview|pre|c|rc)[-_\.]?(?P<pre_n>[0-9]+)?)?'
                r'(?P<post>(?:-(?P<post_n1>[0-9]+))|(?:[-_\.]?(?P<post_l>post|rev|r)[-_\.]?(?P<post_n2>[0-9]+)?))?'
                r'(?P<dev>[-_\.]?(?P<dev_l>dev)[-_\.]?(?P<dev_n>[0-9]+)?)?)'
                r'(?:\+(?P<local>[a-z0-9]+(?:[-_\.][a-z0-9]+)*))?$')
_SPEC = [None]


def spec_rx():
    if _SPEC[0] is None:
        _SPEC[0] = MR.RegexObj(SPEC_PATTERN, MR.compile_pattern(SPEC_PATTERN))
    return _SPEC[0]


def build_input(w, fam):
    cs = []
    for i, el in enumerate(fam['skeleton']):
        c = z3.Int('c%d' % i)
        if el == 'ANY':
            w.assume(C.domain(c))
        elif el == 'DIGIT':
            w.assume(z3.And(c >= 48, c <= 57))
        elif el == 'GRAMMAR':
            # digits, the letters of the labels in both cases, separators, look-alikes
            allowed = [ord(x) for x in '019.-_+!vVaAbBcCrRpPoOsStTdDeElLhHwWiIxX'] + sorted(C.R)
            w.assume(z3.Or([c == a for a in allowed]))
        elif el == 'SEP':
            w.assume(z3.Or(c == 45, c == 95, c == 46))
        elif el == 'LOCALCH':
            w.assume(z3.Or(z3.And(c >= 48, c <= 57), c == 97, c == 65, c == 122, c == 90, *[c == r for r in sorted(C.R)]))
        elif len(el) > 1 and el.startswith('CI:'):
            # a letter in either case
            ch = el[3:]
            w.assume(z3.Or(c == ord(ch.lower()), c == ord(ch.upper())))
        else:
            c = ord(el)
        cs.append(c)
    return cs


def model_chars(m, cs):
    return [m.eval(c, model_completion=True).as_long() if not isinstance(c, int) else c for c in cs]


def strip_zeros(w, ds):
    """digits without leading zeros (forks on the digits)"""
    k = 0
    while k < len(ds) - 1 and w.branch(ds[k] == 48 if not isinstance(ds[k], int) else ds[k] == 48):
        k += 1
    return ds[k:]


def lower(c):
    return C.ascii_lower(c)


def expected_normal_form(w, cs, caps, names):
    """normal form computed from the *specification* match (independent of zerv): list of chars"""
    def grp(n):
        g = caps[names[n]]
        return None if g is None else cs[g[0]:g[1]]
    out = []
    ep = grp('epoch')
    if ep is not None:
        e = strip_zeros(w, ep)
        if not (len(e) == 1 and w.branch(e[0] == 48)):
            out += e + [33]
    rel = grp('release')
    parts = []
    cur = []
    for c in rel:
        if w.branch(c == 46):
            parts.append(cur)
            cur = []
        else:
            cur.append(c)
    parts.append(cur)
    for i, p in enumerate(parts):
        if i:
            out.append(46)
        out += strip_zeros(w, p)
    pl = grp('pre_l')
    if pl is not None:
        n = len(pl)
        if n == 5:
            out.append(97)                    # alpha
        elif n == 4:
            out.append(98)                    # beta
        elif n in (7, 3, 2):
            out += [114, 99]                  # preview / pre / rc
        else:
            f = lower(pl[0])
            if w.branch(f == 97):
                out.append(97)
            elif w.branch(f == 98):
                out.append(98)
            else:
                out += [114, 99]              # c
        pn = grp('pre_n')
        out += strip_zeros(w, pn) if pn is not None else [48]
    if grp('post') is not None:
        out += [46, 112, 111, 115, 116]
        pn = grp('post_n1')
        if pn is None:
            pn = grp('post_n2')
        out += strip_zeros(w, pn) if pn is not None else [48]
    if grp('dev') is not None:
        out += [46, 100, 101, 118]
        dn = grp('dev_n')
        out += strip_zeros(w, dn) if dn is not None else [48]
    loc = grp('local')
    if loc is not None:
        out.append(43)
        segs = []
        cur = []
        for c in loc:
            if w.branch(z3.Or(c == 45, c == 95, c == 46)):
                segs.append(cur)
                cur = []
            else:
                cur.append(lower(c))
        segs.append(cur)
        for i, sg in enumerate(segs):
            if i:
                out.append(46)
            if w.branch(z3.And([z3.And(c >= 48, c <= 57) for c in sg])):
                out += strip_zeros(w, sg)
            else:
                out += sg
    return out


def differs(w, a, b):
    """model where char lists differ, or None"""
    if len(a) != len(b):
        return w.get_model()
    ds = []
    for x, y in zip(a, b):
        if isinstance(x, int) and isinstance(y, int):
            if x != y:
                return w.get_model()
        else:
            ds.append(x != y)
    if not ds:
        return None
    return w.find(z3.Or(ds))


def path(ctx, fam):
    I, w = ctx.I, ctx.w
    cs = build_input(w, fam)
    fname = fam.get('name', 'any')

    def viol(clause, m, detail, **kw):
        ctx.violation(clause=clause, input=model_chars(m, cs), detail=detail, vkey='%s|%s' % (clause, fname), **kw)
    try:
        r = I.call('<PEP440 as FromStr>::from_str', [Str(cs)])
    except Panic as e:
        viol('panic', w.get_model(), str(e))
        ctx.tag('panic')
        return
    acc = (r.variant == 0)
    ctx.tag('accepted' if acc else 'rejected')
    rx = spec_rx()
    caps = MR.match(I, rx, cs)
    spec = caps is not None
    m0 = w.get_model()
    ctx.res.witness = dict(input=''.join(map(chr, model_chars(m0, cs))), accepted=acc, in_grammar=spec)
    if acc != spec:
        viol('accept_iff_grammar', m0, 'accepted=%s but Appendix B membership=%s' % (acc, spec), accepted=acc)
    if not acc:
        if len(cs) <= 5 or fam.get('name', '').endswith('digits'):
            import c08
            c08.check_cli(ctx, I, w, cs, False, None, 'pep440', fam)
        return
    v = r.fields[0]
    try:
        printed = list(I.call('<PEP440 as ToString>::to_string', [ValPtr(v)]).chars)
        import c08
        c08.check_cli(ctx, I, w, cs, True, printed, 'pep440', fam)
    except Panic as e:
        viol('panic', w.get_model(), 'to_string: ' + str(e))
        return
    if spec:
        exp = expected_normal_form(w, cs, caps, rx.names)
        m = differs(w, printed, exp)
        if m is not None:
            viol('normal_form', m, 'printed text is not the normal form of the input (numbers preserved, spellings normalised)')
            return
    # idempotence + equality of the normal form with the original, on the real code
    try:
        r2 = I.call('<PEP440 as FromStr>::from_str', [Str(printed)])
    except Panic as e:
        viol('panic', w.get_model(), 'reparse: ' + str(e))
        return
    if r2.variant != 0:
        viol('idempotence', w.get_model(), 'the printed form is rejected by the parser')
        return
    v2 = r2.fields[0]
    printed2 = list(I.call('<PEP440 as ToString>::to_string', [ValPtr(v2)]).chars)
    m = differs(w, printed, printed2)
    if m is not None:
        viol('idempotence', m, 'normalising twice changes the text')
    o = I.call('<PEP440 as Ord>::cmp', [ValPtr(v), ValPtr(v2)]).variant
    e = I.call('<PEP440 as PartialEq>::eq', [ValPtr(v), ValPtr(v2)])
    bad = z3.Or((o != 0) if not isinstance(o, int) else z3.BoolVal(o != 0), z3.Not(e) if not isinstance(e, bool) else z3.BoolVal(not e))
    m = w.find(bad)
    if m is not None:
        viol('normal_form_equal', m, 'parse(s) and parse(print(parse(s))) do not compare equal')
    ctx.tag('roundtrip_checked')


def families(tier):
    quick = tier == 'quick'
    N = 5 if quick else 7
    fams = []
    for n in range(0, N + 1):
        fams.append(dict(name='any%d' % n, skeleton=['ANY'] * n))
    for n in range(N + 1, N + (2 if quick else 3)):
        fams.append(dict(name='grammar%d' % n, skeleton=['GRAMMAR'] * n))
    widths = [1, 2, 9, 10, 11] if quick else list(range(1, 13))
    for k in widths:
        D = ['DIGIT'] * k
        fams.append(dict(name='epoch_digits', skeleton=D + list('!1.0')))
        fams.append(dict(name='release_digits', skeleton=list('1.') + D))
        fams.append(dict(name='release_first_digits', skeleton=D + list('.0')))
        fams.append(dict(name='pre_digits', skeleton=list('1.0a') + D))
        fams.append(dict(name='post_digits', skeleton=list('1.0.post') + D))
        fams.append(dict(name='post_implicit_digits', skeleton=list('1.0-') + D))
        fams.append(dict(name='dev_digits', skeleton=list('1.0.dev') + D))
        fams.append(dict(name='local_digits', skeleton=list('1.0+') + D))
        fams.append(dict(name='local_second_digits', skeleton=list('1.0+ab.') + D))
    # spelling families: separators and label spellings in either case, symbolic numbers
    def ciw(word):
        return ['CI:' + ch for ch in word]
    for lab in ('alpha', 'a', 'beta', 'b', 'c', 'rc', 'pre', 'preview'):
        fams.append(dict(name='pre_spelling', skeleton=['DIGIT', '.', 'DIGIT', 'SEP'] + ciw(lab) + ['SEP', 'DIGIT']))
        fams.append(dict(name='pre_spelling', skeleton=['DIGIT'] + ciw(lab)))
        if not quick:
            fams.append(dict(name='pre_spelling', skeleton=['v', 'DIGIT'] + ciw(lab) + ['DIGIT', 'DIGIT']))
    for lab in ('post', 'rev', 'r'):
        fams.append(dict(name='post_spelling', skeleton=['DIGIT', 'SEP'] + ciw(lab) + ['SEP', 'DIGIT']))
        fams.append(dict(name='post_spelling', skeleton=['DIGIT'] + ciw(lab)))
        fams.append(dict(name='post_dev_spelling', skeleton=['DIGIT'] + ciw(lab) + ['DIGIT', 'SEP'] + ciw('dev') + ['DIGIT']))
    fams.append(dict(name='dev_spelling', skeleton=['DIGIT', 'SEP'] + ciw('dev') + ['SEP', 'DIGIT']))
    fams.append(dict(name='dev_spelling', skeleton=['DIGIT'] + ciw('dev')))
    fams.append(dict(name='full_spelling', skeleton=['DIGIT', '!', 'DIGIT', '.', 'DIGIT'] + ciw('rc') + ['DIGIT', '-', 'DIGIT', '.'] + ciw('dev') + ['DIGIT', '+', 'LOCALCH']))
    for k in ([1, 2, 3] if quick else [1, 2, 3, 4, 5]):
        fams.append(dict(name='local_free', skeleton=list('1.0+') + ['LOCALCH'] * k))
        if k >= 3:
            fams.append(dict(name='local_sep', skeleton=list('1+') + ['LOCALCH'] * (k - 2) + ['SEP', 'LOCALCH']))
    fams.append(dict(name='epoch_zero', skeleton=['0', '!', 'DIGIT', '.', 'DIGIT']))
    fams.append(dict(name='epoch_zero', skeleton=['0', '0', '!', 'DIGIT']))
    return fams, N
