"""C08 — the SemVer parser accepts exactly SemVer 2.0.0 (optional v) and prints accepted input back unchanged.
Decided on the MIR of SemVer::from_str / parse_identifiers / parse_build_metadata / Display."""
import os
import sys
import z3

sys.path.insert(0, os.path.dirname(os.path.dirname(os.path.abspath(__file__))))
from values import *        # noqa
import chars as C
import models_regex as MR
import relang

# the specification pattern (SemVer 2.0.0 BNF, ASCII only) in regex syntax; compiled by the same regex-syntax
# helper and matched by the same matcher, but it is *my* text, not zerv's
SPEC_PATTERN = (r'^v?(?:0|[1-9][0-9]*)\.(?:0|[1-9][0-9]*)\.(?:0|[1-9][0-9]*)'
                r'(?:-(?:0|[1-9][0-9]*|[0-9]*[a-zA-Z-][0-9a-zA-Z-]*)(?:\.(?:0|[1-9][0-9]*|[0-9]*[a-zA-Z-][0-9a-zA-Z-]*))*)?'
                r'(?:\+[0-9a-zA-Z-]+(?:\.[0-9a-zA-Z-]+)*)?$')

_SPEC = [None]


def spec_rx():
    if _SPEC[0] is None:
        _SPEC[0] = MR.RegexObj(SPEC_PATTERN, MR.compile_pattern(SPEC_PATTERN))
    return _SPEC[0]


def build_input(w, fam):
    """fam: dict(skeleton=[...]) where each element is a literal char (str) or a class name"""
    cs = []
    for i, el in enumerate(fam['skeleton']):
        if el == 'ANY':
            c = z3.Int('c%d' % i)
            w.assume(C.domain(c))
            cs.append(c)
        elif el == 'DIGIT':
            c = z3.Int('c%d' % i)
            w.assume(z3.And(c >= 48, c <= 57))
            cs.append(c)
        elif el == 'GRAMMAR':
            c = z3.Int('c%d' % i)
            w.assume(z3.Or(z3.And(c >= 48, c <= 57), c == 97, c == 65, c == 122, c == 45, c == 46, c == 43, c == 118,
                           *[c == r for r in sorted(C.R)]))
            cs.append(c)
        else:
            cs.append(ord(el))
    return cs


def model_chars(m, cs):
    return [m.eval(c, model_completion=True).as_long() if not isinstance(c, int) else c for c in cs]


def path(ctx, fam):
    I, w = ctx.I, ctx.w
    cs = build_input(w, fam)
    try:
        r = I.call('<SemVer as FromStr>::from_str', [Str(cs)])
    except Panic as e:
        ctx.violation(clause='panic', input=model_chars(w.get_model(), cs), detail=str(e), vkey='panic')
        ctx.tag('panic')
        return
    acc = (r.variant == 0)
    ctx.tag('accepted' if acc else 'rejected')
    spec = MR.match(I, spec_rx(), cs) is not None
    m0 = w.get_model()
    ctx.res.witness = dict(input=''.join(map(chr, model_chars(m0, cs))), accepted=acc, in_grammar=spec)
    ctx.res.pathinfo = None
    if acc != spec:
        ctx.violation(clause='accept_iff_grammar', input=model_chars(m0, cs), accepted=acc, in_grammar=spec,
                      detail='accepted=%s but grammar membership=%s' % (acc, spec), vkey='accept_iff_grammar|%s|%s' % (acc, fam.get('name', 'any')))
    if acc:
        v = r.fields[0]
        try:
            printed = I.call('<SemVer as ToString>::to_string', [ValPtr(v)])
        except Panic as e:
            ctx.violation(clause='panic', input=model_chars(w.get_model(), cs), detail='to_string: ' + str(e), vkey='panic')
            return
        pc = list(printed.chars)
        has_v = bool(cs) and w.branch(cs[0] == 118)
        exp = cs[1:] if has_v else cs
        if len(pc) != len(exp):
            ctx.violation(clause='lossless_print', input=model_chars(w.get_model(), cs), detail='printed length differs',
                          vkey='lossless_print|' + fam.get('name', 'any'))
        else:
            diffs = [a != b for a, b in zip(pc, exp) if not (isinstance(a, int) and isinstance(b, int) and a == b)]
            diffs = [d for d in diffs if d is not False]
            if diffs:
                m = w.find(z3.Or([d if not isinstance(d, bool) else z3.BoolVal(d) for d in diffs]))
                if m is not None:
                    ctx.violation(clause='lossless_print', input=model_chars(m, cs), detail='printed text differs from input',
                                  vkey='lossless_print|' + fam.get('name', 'any'))
    check_cli(ctx, I, w, cs, acc, printed.chars if acc else None, 'semver', fam)
    # a seeded sample of paths is cross-checked with z3's regular-language solver (independent of the matcher)
    if fam.get('reglan_check'):
        s = z3.Concat(*[z3.StrFromCode(c if not isinstance(c, int) else z3.IntVal(c)) for c in cs]) if len(cs) > 1 else (
            z3.StrFromCode(cs[0] if not isinstance(cs[0], int) else z3.IntVal(cs[0])) if cs else z3.StringVal(''))
        inre = z3.InRe(s, relang.semver_spec())
        w.solver.set('timeout', 20000)
        try:
            m = w.find(z3.Not(inre) if acc else inre)
        except Unsupported:
            m = 'unknown'
        if m == 'unknown':
            ctx.tag('reglan_unknown')
        elif m is not None:
            ctx.violation(clause='accept_iff_grammar', input=model_chars(m, cs), accepted=acc, in_grammar=not acc,
                          detail='z3 RegLan cross-check', vkey='accept_iff_grammar|reglan')
        else:
            ctx.tag('reglan_agrees')


def check_cli(ctx, I, w, cs, acc, printed, fmt, fam):
    """`zerv check --format <fmt>` (run_check_command) gives the same verdict and reports the same normal form"""
    args = Adt('CheckArgs', 0, [StringObj(cs), some(mkstring(fmt))])
    try:
        r = I.call('run_check_command', [args])
    except Panic as e:
        ctx.violation(clause='panic', input=model_chars(w.get_model(), cs), detail='check: ' + str(e), vkey='panic|check')
        return
    ok_ = r.variant == 0
    if ok_ != acc:
        ctx.violation(clause='check_verdict', input=model_chars(w.get_model(), cs), detail='zerv check says %s, from_str says %s' % (ok_, acc), vkey='check_verdict|' + fam.get('name', 'any'))
        return
    if ok_:
        msg = list(r.fields[0].chars)
        same = len(printed) == len(cs) and w.find(z3.Or([a != b for a, b in zip(printed, cs) if not (isinstance(a, int) and isinstance(b, int) and a == b)] or [z3.BoolVal(False)])) is None
        tail = [41] if not same else None          # ")" closes "(normalized: X)"
        if not same:
            exp_tail = [ord(c) for c in '(normalized: '] + list(printed) + [41]
            got_tail = msg[-len(exp_tail):] if len(msg) >= len(exp_tail) else None
            bad = got_tail is None or w.find(z3.Or([a != b for a, b in zip(got_tail, exp_tail) if not (isinstance(a, int) and isinstance(b, int) and a == b)] or [z3.BoolVal(False)])) is not None
            if bad:
                ctx.violation(clause='check_normal_form', input=model_chars(w.get_model(), cs), detail='zerv check reports a different normal form', vkey='check_nf|' + fam.get('name', 'any'))
        ctx.tag('check_agrees')


def families(tier):
    quick = tier == 'quick'
    N = 7 if quick else 9
    fams = []
    for n in range(0, N + 1):
        fams.append(dict(name='any%d' % n, skeleton=['ANY'] * n))
    # longer strings over the grammar-relevant alphabet
    for n in range(N + 1, N + (2 if quick else 3)):
        fams.append(dict(name='grammar%d' % n, skeleton=['GRAMMAR'] * n))
    # structured: numeric fields of every width up to 21 digits (the u64 boundary is 20 digits)
    widths = [1, 2, 19, 20, 21] if quick else list(range(1, 23))
    for k in widths:
        fams.append(dict(name='major_digits', skeleton=['DIGIT'] * k + list('.0.0')))
        fams.append(dict(name='patch_digits', skeleton=list('1.0.') + ['DIGIT'] * k))
        fams.append(dict(name='pre_digits', skeleton=list('1.0.0-') + ['DIGIT'] * k))
        fams.append(dict(name='pre_second_digits', skeleton=list('1.0.0-a.') + ['DIGIT'] * k))
        fams.append(dict(name='build_digits', skeleton=list('1.0.0+') + ['DIGIT'] * k))
        fams.append(dict(name='pre_build_digits', skeleton=list('v1.2.3-rc.1+b.') + ['DIGIT'] * k))
    for k in ([2, 3] if quick else [2, 3, 4, 5]):
        fams.append(dict(name='pre_free', skeleton=list('1.0.0-') + ['GRAMMAR'] * k))
        fams.append(dict(name='build_free', skeleton=list('1.0.0+') + ['GRAMMAR'] * k))
        fams.append(dict(name='pre_build_free', skeleton=list('1.0.0-a+') + ['GRAMMAR'] * k))
    return fams, N
