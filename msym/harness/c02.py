"""C02 (partial) — zerv's side of the git extraction, executed from MIR with `git` as a nondeterministic stub.

Executed: `<GitVcs as Vcs>::get_vcs_data` (get_commits_in_topo_order, get_latest_tag, get_all_tags_from_commit_hash,
calculate_distance, get_*), `GitUtils::{filter_only_valid_tags, find_max_version_tag}`,
`VersionObject::parse_with_format_batch / parse_auto_detect_batch`, and `vcs_data_to_zerv_vars`.
Boundary (stub): `GitVcs::run_git_command` — each git sub-command answers from a symbolic repository *summary*
(the contract of that sub-command as documented by git), `check_shallow_clone` answers false.

Symbolic repository summary
  c0..c(k-1)   the ancestors-or-self of HEAD (c0), with a concrete parent relation per case (chains, a diamond, a merged
               longer side branch) and a *symbolic listing order* pos[]: whatever order the issued rev-list flavour may
               print by git's contract (--topo-order / --date-order: no parent before all of its children; plain
               rev-list: by date, i.e. only "every commit after at least one of its children")
  u            one tagged commit that is *not* reachable from HEAD
  loc[t]       for every tag name t of the menu: absent (-1), on h_i (i), or on u (k)   -- solver variables
  distance     `rev-list --count <tag>..HEAD` = |ancestors(HEAD) minus ancestors(tagged commit)| computed from the shape
               (also with --no-merges / --first-parent as git defines them); one family lets it be any u32 (parse only)
  ts_i / cts   commit times, branch text, status text: solver variables
The oracle is the statement: base tag = a highest-version valid tag of a validly tagged commit with no other validly
tagged commit between it and HEAD (tags on u never count); none -> reported as "no tags"; every other fact is passed through exactly.
Validity and version order of the (concrete) tag names come from my own patterns / comparators (flowlib)."""
import os
import sys
import z3

sys.path.insert(0, os.path.dirname(os.path.dirname(os.path.abspath(__file__))))
sys.path.insert(0, os.path.join(os.path.dirname(os.path.dirname(os.path.abspath(__file__))), 'checks'))
from values import *        # noqa
import chars as C
from models import chars_of
import interp as _interp
import c04

VCS_FIELDS = ['tag_version', 'tag_commit_hash', 'tag_timestamp', 'commit_hash', 'commit_hash_prefix', 'commit_timestamp',
              'current_branch', 'is_dirty', 'distance']
WORLD = [None]          # the repository summary of the path being executed (set by path(), read by the stub)


SHAPES = {
    'lin1': {0: []}, 'lin2': {0: [1], 1: []}, 'lin3': {0: [1], 1: [2], 2: []}, 'lin4': {0: [1], 1: [2], 2: [3], 3: []},
    'lin5': {0: [1], 1: [2], 2: [3], 3: [4], 4: []},
    'diamond': {0: [1, 2], 1: [3], 2: [3], 3: []},                      # c0 merges c1 and c2, both children of c3
    'longside': {0: [1, 2], 1: [4], 2: [3], 3: [4], 4: []},             # c0 merges main (c1) and a two-commit side branch (c2 <- c3) forked at c4
}


def descendants(par):
    """strict descendants of every commit within the summary"""
    anc = {}

    def up(i):
        if i not in anc:
            a = set()
            for p in par[i]:
                a |= {p} | up(p)
            anc[i] = a
        return anc[i]
    for i in par:
        up(i)
    return {i: {j for j in par if i in anc[j]} for i in par}


def hash_of(i):
    return ('%x' % (0xa0 + i)) * 20


def txt(s):
    return [ord(c) for c in s]


def concrete_str(v):
    cs = chars_of(v)
    if not all(isinstance(c, int) for c in cs):
        raise Unsupported('git argument with symbolic text')
    return ''.join(map(chr, cs))


# (state name understood by checks/gitlib.build_repo, untrimmed `git status --porcelain` text, dirty per the statement)
STATUS_MENU = [
    ('clean', '', False),
    ('untracked', '?? new.txt\n', True),
    ('modified', ' M f\n', True),                     # unstaged-only change of a one-character path
    ('staged', 'M  f\n', True),
    ('deleted', ' D f\n', True),
    ('staged_and_modified', 'MM f\n', True),
    ('modified_and_untracked', ' M f\n?? new.txt\n', True),
    ('modified_long_path', ' M sub/file.txt\n', True),
    ('staged_new', 'A  n\n', True),
    ('ignored_only', '', False),
]

class GitWorld:
    def __init__(self, ctx, arg):
        w = ctx.w
        self.w, self.arg = w, arg
        self.shape = arg.get('shape') or 'lin%d' % arg['commits']
        self.par = SHAPES[self.shape]
        self.k = len(self.par)
        self.desc = descendants(self.par)
        self.pos = [w.fresh_int('pos%d' % i, 0, self.k - 1) for i in range(self.k)]
        w.assume(self.pos[0] == 0)
        if self.k > 1:
            w.assume(z3.Distinct(*self.pos))
        self.order = None
        self.tags = list(arg['tags'])
        self.loc = {t: w.fresh_int('loc%d' % i, -1, self.k) for i, t in enumerate(self.tags)}
        # annotated tags are objects of their own: commands that do not peel the ref see the tag object, not the commit
        self.annotated = {t: w.fresh_bool('ann%d' % i) for i, t in enumerate(self.tags)}
        self.hashes = [hash_of(i) for i in range(self.k)]
        self.unreach = hash_of(self.k)
        self.dist = w.fresh_int('D', 0, arg.get('dist_max', 99))
        self.cts = w.fresh_int('cts', 10**9, 2 * 10**9)
        self.ts = [w.fresh_int('ts%d' % i, 10**9, 2 * 10**9) for i in range(self.k)]
        self.branch = c04.branch_chars(w, arg['branch']) if arg.get('branch') is not None else None      # None = detached
        # work-tree state: a solver variable over a menu of `git status --porcelain` answers (the exact texts git prints for
        # the states checks/gitlib.build_repo can realise — verified against real git on every run —, trimmed as
        # run_git_command returns them: an unstaged-only first entry loses its leading blank)
        self.status_kind = w.fresh_int('st_kind', 0, len(STATUS_MENU) - 1) if arg.get('status_len', 0) else 0
        self.log = []

    # ---- the stub: one answer per git sub-command, from the summary
    def git(self, I, argv):
        from models_fmt import int_to_chars
        w = self.w
        self.log.append(argv)
        if argv in (['rev-list', '--topo-order', 'HEAD'], ['rev-list', '--date-order', 'HEAD']):
            # contract: no parent is shown before all of its children
            for c, ps in self.par.items():
                for p in ps:
                    w.assume(self.pos[c] < self.pos[p])
            return txt('\n'.join(self.hashes[i] for i in self.listing()))
        if argv == ['rev-list', 'HEAD'] or argv == ['log', '--format=%H', 'HEAD'] or argv == ['log', '--format=%H']:
            # contract of the default (date) order: a commit is listed only after at least one of its children
            for i in range(1, self.k):
                w.assume(z3.Or([self.pos[c] < self.pos[i] for c in self.par if i in self.par[c]]))
            return txt('\n'.join(self.hashes[i] for i in self.listing()))
        if argv == ['log', '--tags', '--no-walk', '--format=%H']:
            # every commit some tag points at, reachable or not; git orders them by date -- here: u first, then oldest first
            out = []
            for i in [self.k] + list(range(self.k - 1, -1, -1)):
                if w.branch(z3.Or([self.loc[t] == i for t in self.tags])):
                    out.append(self.unreach if i == self.k else self.hashes[i])
            return txt('\n'.join(out))
        sort_flags = [a for a in argv[1:] if a.startswith('--sort=')]
        rest = [a for a in argv if not a.startswith('--sort=')]
        if rest[:2] == ['tag', '--points-at'] and len(rest) == 3:
            h = rest[2]
            if h not in self.hashes and h != self.unreach:
                return None         # git fails on an unknown object
            i = self.k if h == self.unreach else self.hashes.index(h)
            names = [t for t in sorted(self.tags) if w.branch(self.loc[t] == i)]
            if sort_flags and len(names) > 1:
                # a --sort key (version:refname, creatordate, ...) is not modelled: the names come in an order chosen by the
                # solver (an over-approximation of every sort key; counterexamples must reproduce on a real repository)
                perm = [w.fresh_int('sort%d_%d' % (len(self.log), j), 0, len(names) - 1) for j in range(len(names))]
                w.assume(z3.Distinct(*perm))
                out = []
                for j in range(len(names)):
                    for x in range(len(names)):
                        if names[x] not in out and w.branch(perm[x] == j):
                            out.append(names[x])
                            break
                names = out
            return txt('\n'.join(names))
        if argv[:2] == ['rev-list', '--count'] and argv[-1].endswith('..HEAD') and all(a in ('--no-merges', '--first-parent', '--ancestry-path') for a in argv[2:-1]):
            t = argv[-1][:-len('..HEAD')]
            i = self.where(t)
            if i is None:
                return None
            flags = argv[2:-1]
            if self.arg.get('dist_sym') and not flags:
                return int_to_chars(I, self.dist)       # family with an arbitrary (large) count: parse / pass-through only
            return txt(str(self.range_count(i, flags)))
        if argv == ['rev-parse', 'HEAD']:
            return txt(self.hashes[0])
        if argv[0] == 'rev-parse' and len(argv) in (2, 3) and (len(argv) == 2 or argv[1] in ('--verify', '-q', '--quiet')):
            ref = argv[-1]
            peel_it = False
            for suf in ('^{commit}', '^{}', '^0', '~0'):
                if ref.endswith(suf):
                    ref, peel_it = ref[:-len(suf)], True
            if ref.startswith('refs/tags/'):
                ref = ref[len('refs/tags/'):]
            i = self.where(ref)
            if i is None:
                return None
            if not peel_it and w.branch(self.annotated[ref]):
                return txt(hash_of(100 + self.tags.index(ref)))          # the tag object, not a commit
            return txt(self.unreach if i == self.k else self.hashes[i])
        if argv in (['tag', '--merged', 'HEAD'], ['tag', '--merged'], ['tag', '-l', '--merged', 'HEAD']):
            return txt('\n'.join(t for t in sorted(self.tags) if any(w.branch(self.loc[t] == i) for i in range(self.k))))
        if argv in (['tag'], ['tag', '-l'], ['tag', '--list']):
            return txt('\n'.join(t for t in sorted(self.tags) if not w.branch(self.loc[t] == -1)))
        if argv == ['branch', '--show-current']:
            return list(self.branch) if self.branch is not None else []
        if argv == ['log', '-1', '--format=%ct']:
            return int_to_chars(I, self.cts)
        if argv == ['status', '--porcelain']:
            return [ord(c) for c in STATUS_MENU[self.status_index()][1].strip()]
        if argv[:3] == ['show', '-s', '--format=%ct'] and len(argv) == 4 and argv[3].endswith('^{commit}'):
            t = argv[3][:-len('^{commit}')]
            i = self.where(t)
            return None if i is None else int_to_chars(I, self.ts_of(i))
        if argv[:3] == ['rev-list', '-n', '1'] and len(argv) == 4:
            i = self.where(argv[3])
            return None if i is None else txt(self.unreach if i == self.k else self.hashes[i])
        raise Unsupported('git sub-command without a stub: %r' % (argv,))

    def ancestors_or_self(self, i):
        if i == self.k:
            return {self.k, max(self.par)}          # u is a child of the root
        seen, todo = set(), [i]
        while todo:
            c = todo.pop()
            if c not in seen:
                seen.add(c)
                todo += self.par[c]
        return seen

    def range_count(self, i, flags=()):
        """|commits reachable from HEAD but not from the tagged commit c_i| as git counts it with the given flags"""
        rng = self.ancestors_or_self(0) - self.ancestors_or_self(i)
        if '--first-parent' in flags:
            chain, c = [], 0
            while True:
                chain.append(c)
                if not self.par[c]:
                    break
                c = self.par[c][0]
            rng = {c for c in chain if c in rng}
        if '--ancestry-path' in flags:
            # git: only commits that are both descendants of the excluded commit and ancestors of HEAD
            rng = {c for c in rng if i < self.k and c in self.desc[i]}
        if '--no-merges' in flags:
            rng = {c for c in rng if len(self.par[c]) < 2}
        return len(rng)

    def true_distance(self, i):
        return self.range_count(i)

    def listing(self):
        """the concrete listing order of this path (forks over the orders the contract allows)"""
        if self.order is None:
            order = []
            for j in range(self.k):
                for i in range(self.k):
                    if i not in order and self.w.branch(self.pos[i] == j):
                        order.append(i)
                        break
                else:
                    raise Infeasible()
            self.order = order
        return self.order

    def where(self, t):
        """concrete location of tag t on this path (forks until decided); None when absent / unknown name"""
        if t not in self.tags:
            return None
        for i in range(self.k + 1):
            if self.w.branch(self.loc[t] == i):
                return i
        return None

    def status_index(self):
        if isinstance(self.status_kind, int):
            return self.status_kind
        for i in range(len(STATUS_MENU)):
            if self.w.branch(self.status_kind == i):
                return i
        raise Infeasible()

    def ts_of(self, i):
        return self.ts[i] if i < self.k else z3.IntVal(10**9)

    def concrete(self, m):
        def ev(x):
            return x if isinstance(x, int) else m.eval(x, model_completion=True).as_long()
        return dict(commits=self.k, shape=self.shape, order=sorted(range(self.k), key=lambda i: ev(self.pos[i])), tags={t: ev(self.loc[t]) for t in self.tags}, annotated=[t for t in self.tags if z3.is_true(m.eval(self.annotated[t], model_completion=True))], distance=ev(self.dist), commit_ts=ev(self.cts),
                    ts=[ev(x) for x in self.ts], branch=None if self.branch is None else ''.join(chr(ev(c)) for c in self.branch),
                    status=STATUS_MENU[ev(self.status_kind)][0] if ev(self.status_kind) else '')


def _run_git_command(I, ci, this, args):
    wd = WORLD[0]
    if wd is None:
        raise Unsupported('git stub without a world')
    items = peel(args)
    items = items.items() if hasattr(items, 'items') and callable(items.items) else items.items
    argv = [concrete_str(peel(a)) for a in items]
    fa = getattr(wd, 'fail_at', None)
    if fa is not None:
        # C13 fault injection: the git call with this index (in issue order) fails; index and command are solver-chosen
        n = len(wd.log)
        if wd.w.branch(fa == n):
            wd.log.append(argv)
            wd.failed = (n, argv)
            return err(Adt('ZervError', I.prog.variant_index('ZervError', 'CommandFailed'), [mkstring('git failed (injected)')]))
    out = wd.git(I, argv)
    if out is None:
        return err(Adt('ZervError', I.prog.variant_index('ZervError', 'CommandFailed'), [mkstring('git failed')]))
    return ok(StringObj(list(out)))


def _check_shallow_clone(I, ci, this):
    return False


_interp.OVERRIDES['GitVcs::run_git_command'] = _run_git_command
_interp.OVERRIDES['GitVcs::check_shallow_clone'] = _check_shallow_clone


# ------------------------------------------------------------------ oracle tables (concrete tag names)
def valid(fmt, t):
    import flowlib
    return (flowlib.semver_key(t) if fmt == 'semver' else flowlib.pep_key(t)) is not None


def le(fmt, a, b):
    import flowlib
    return flowlib.vcmp(fmt, a, b) <= 0


def allowed_formula(wd, fmt, R):
    """z3 formula over loc[]: R is an admissible base tag under the statement"""
    k, tags, loc = wd.k, wd.tags, wd.loc
    fmts = ['semver', 'pep440'] if fmt == 'auto' else [fmt]
    anyvalid = lambda t: any(valid(f, t) for f in fmts)
    has_valid = lambda i: z3.Or([loc[t] == i for t in tags if anyvalid(t)] or [z3.BoolVal(False)])
    alts = []
    for f in fmts:
        if not valid(f, R):
            continue
        for i in range(k):
            # nearest: no validly tagged commit strictly between c_i and HEAD (= among the descendants of c_i)
            first = z3.And([z3.Not(has_valid(j)) for j in sorted(wd.desc[i])] + [loc[R] == i])
            maximal = z3.And([z3.Implies(loc[t] == i, z3.BoolVal(le(f, t, R))) for t in tags if valid(f, t)] or [z3.BoolVal(True)])
            alts.append(z3.And(first, maximal))
    return z3.Or(alts or [z3.BoolVal(False)])


def none_formula(wd, fmt):
    """no reachable commit carries a valid tag"""
    fmts = ['semver', 'pep440'] if fmt == 'auto' else [fmt]
    return z3.And([z3.Or(wd.loc[t] == -1, wd.loc[t] == wd.k) for t in wd.tags if any(valid(f, t) for f in fmts)] or [z3.BoolVal(True)])


def sval(m, cs):
    return ''.join(chr(c if isinstance(c, int) else m.eval(c, model_completion=True).as_long()) for c in cs)


def path(ctx, arg):
    I, w = ctx.I, ctx.w
    fmt = arg['fmt']
    wd = GitWorld(ctx, arg)
    WORLD[0] = wd
    name = arg.get('name', '')

    def viol(clause, m, detail, **kw):
        ctx.violation(clause=clause, world=wd.concrete(m), fmt=fmt, arg=arg, detail=detail, vkey='%s|%s|%s' % (clause, fmt, name), **kw)
    vcs = Adt('GitVcs', 0, [mkstring('/repo-under-test')])
    try:
        r = I.call('<GitVcs as Vcs>::get_vcs_data', [ValPtr(vcs), Str(txt(fmt))])
    except Panic as e:
        viol('panic', w.get_model(), str(e))
        return
    finally:
        WORLD[0] = None
    if r.variant != 0:
        # with every sub-command answering per contract, extraction must not fail
        viol('extraction_failed', w.get_model(), 'get_vcs_data returned an error although every git command succeeded')
        return
    d = r.fields[0]
    f = lambda n: d.fields[VCS_FIELDS.index(n)]
    tv = peel(f('tag_version'))
    ctx.tag('extracted')
    from c05 import opt_mismatch
    from c06 import text_diff
    if tv.variant == 0:
        m = w.find(z3.Not(none_formula(wd, fmt)))
        if m is not None:
            viol('tag_missed', m, 'no base tag reported although a reachable commit carries a valid version tag')
            return
        ctx.tag('no_tag')
        R = None
    else:
        R = concrete_str(tv.fields[0])
        if R not in wd.tags:
            viol('tag_invented', w.get_model(), 'reported tag %r is not a tag of the repository' % R, reported=R)
            return
        m = w.find(z3.Not(allowed_formula(wd, fmt, R)))
        if m is not None:
            viol('wrong_base_tag', m, 'reported base tag %r is not a highest-version valid tag of the nearest validly tagged commit' % R, reported=R)
            return
        ctx.tag('base_tag_ok')
    # pass-through facts
    bad = []
    if text_diff(w, chars_of(f('commit_hash')), txt(wd.hashes[0])) is not None:
        bad.append('commit_hash')
    if text_diff(w, chars_of(f('commit_hash_prefix')), txt('g')) is not None:
        bad.append('commit_hash_prefix')
    if w.find(f('commit_timestamp') != wd.cts) is not None:
        bad.append('commit_timestamp')
    dirty = f('is_dirty')
    want_dirty = STATUS_MENU[wd.status_index()][2]
    if (w.find(dirty != z3.BoolVal(want_dirty)) is not None) if not isinstance(dirty, bool) else dirty != want_dirty:
        bad.append('is_dirty')
    br = peel(f('current_branch'))
    if wd.branch is None or len(wd.branch) == 0:
        if br.variant != 0:
            bad.append('current_branch')
    elif br.variant != 1 or text_diff(w, chars_of(br.fields[0]), wd.branch) is not None:
        bad.append('current_branch')
    if R is None:
        if w.find(f('distance') != 0) is not None or peel(f('tag_timestamp')).variant != 0 or peel(f('tag_commit_hash')).variant != 0:
            bad.append('tag_facts_without_tag')
    else:
        i = wd.where(R)
        want_dist = wd.dist if arg.get('dist_sym') else wd.true_distance(i)
        if w.find(f('distance') != want_dist) is not None:
            bad.append('distance')
        tt, th = peel(f('tag_timestamp')), peel(f('tag_commit_hash'))
        if tt.variant != 1 or w.find(tt.fields[0] != wd.ts_of(i)) is not None:
            bad.append('tag_timestamp')
        if th.variant != 1 or text_diff(w, chars_of(th.fields[0]), txt(wd.hashes[i] if i < wd.k else wd.unreach)) is not None:
            bad.append('tag_commit_hash')
    if bad:
        viol('fact_altered', w.get_model(), 'facts differ from what git reported: %s' % ', '.join(bad), fields=bad)
        return
    ctx.tag('facts_exact')
    # second stage: the variables
    try:
        rv = I.call('vcs_data_to_zerv_vars', [deep_copy(d), Str(txt(fmt))])
    except Panic as e:
        viol('panic', w.get_model(), 'vcs_data_to_zerv_vars: ' + str(e))
        return
    if R is None:
        if rv.variant == 0:
            viol('version_without_tag', w.get_model(), 'a repository without a valid version tag was given a version')
        elif rv.fields[0].variant != I.prog.variant_index('ZervError', 'NoTagsFound'):
            viol('version_without_tag', w.get_model(), 'missing tags are not reported as NoTagsFound')
        else:
            ctx.tag('no_tags_reported')
        return
    if rv.variant != 0:
        viol('vars_failed', w.get_model(), 'vcs_data_to_zerv_vars failed on the selected tag %r' % R, reported=R)
        return
    import c06
    import flowlib
    vars_ = rv.fields[0]
    g = lambda n: vars_.fields[c06.FIELDS.index(n)]
    bad = []
    i = wd.where(R)
    if w.find(opt_mismatch(g('distance'), 1, want_dist)) is not None:
        bad.append('distance')
    dv = peel(g('dirty'))
    if dv.variant != 1 or ((w.find(dv.fields[0] != z3.BoolVal(want_dirty)) is not None) if not isinstance(dv.fields[0], bool) else dv.fields[0] != want_dirty):
        bad.append('dirty')
    if w.find(opt_mismatch(g('bumped_timestamp'), 1, wd.cts)) is not None:
        bad.append('bumped_timestamp')
    if w.find(opt_mismatch(g('last_timestamp'), 1, wd.ts_of(i))) is not None:
        bad.append('last_timestamp')

    def opt_text(v, exp):
        v = peel(v)
        if exp is None:
            return v.variant == 0
        return v.variant == 1 and text_diff(w, chars_of(v.fields[0]), exp) is None
    if not opt_text(g('bumped_commit_hash'), txt('g' + wd.hashes[0])):
        bad.append('bumped_commit_hash')
    if not opt_text(g('last_commit_hash'), txt('g' + (wd.hashes[i] if i < wd.k else wd.unreach))):
        bad.append('last_commit_hash')
    if not opt_text(g('bumped_branch'), wd.branch if wd.branch else None):
        bad.append('bumped_branch')
    if not opt_text(g('last_tag_version'), txt(R)):
        bad.append('last_tag_version')
    # the version numbers of the tag (concrete tag: judged with my own parse)
    sk = flowlib.semver_key(R) if fmt in ('semver', 'auto') else None
    if sk is not None:
        for nm, val in zip(('major', 'minor', 'patch'), sk[0]):
            if w.find(opt_mismatch(g(nm), 1, val)) is not None:
                bad.append(nm)
    elif flowlib.pep_key(R) is not None:
        import re
        rel = [int(x) for x in relang_release(R)]
        for nm, val in zip(('major', 'minor', 'patch'), rel + [None] * 3):
            if val is not None and w.find(opt_mismatch(g(nm), 1, val)) is not None:
                bad.append(nm)
    if bad:
        viol('vars_altered', w.get_model(), 'variables differ from the extracted facts: %s' % ', '.join(bad), fields=bad, reported=R)
        return
    ctx.tag('vars_exact')


def relang_release(s):
    import relang
    return relang.PEP440_PY.fullmatch(s).group('release').split('.')


# ------------------------------------------------------------------ case menu
MENUS = {
    # name: (tags, formats)
    'semver_order': (['v1.2.3', 'v1.10.0', 'v1.9.0', 'nightly'], ['semver', 'auto']),
    'semver_pre': (['v2.0.0', 'v2.0.0-rc.1', 'v2.0.0-rc.10', '2.0.0-alpha'], ['semver']),
    'spelling': (['1.2.3', 'v1.2.3', 'v1.2', 'release-1'], ['semver', 'pep440', 'auto']),
    'pep_order': (['1.0.0rc1', '1.0.0', '1.0.0.post1', '1.0.0.dev1'], ['pep440', 'auto']),
    'mixed': (['v1.0.0', '1.0.0a1', '1.1.0b2', 'v0.9.0-beta.1'], ['semver', 'pep440', 'auto']),
    'invalid_only': (['latest', 'v1', 'x.y.z'], ['semver']),
}


def cases(tier):
    q = tier == 'quick'
    out = []
    for name, (tags, fmts) in MENUS.items():
        for fmt in fmts:
            for k in ((1, 2) if q else (1, 2, 3, 4)):
                out.append(dict(name=name, fmt=fmt, commits=k, tags=tags, branch=list('main') if k == 1 else None, status_len=(k % 2) * 2))
    for name in ('semver_order', 'mixed', 'spelling'):
        tags, fmts = MENUS[name]
        for fmt in fmts[:1] if q else fmts:
            out.append(dict(name=name, fmt=fmt, commits=3 if q else 5, tags=tags, branch=list('dv'), status_len=1))
    # merges: the listing order is whatever the rev-list flavour zerv uses may print
    for name in (('semver_order', 'mixed') if q else MENUS):
        tags, fmts = MENUS[name]
        for fmt in (fmts[:1] if q else fmts):
            out.append(dict(name=name, fmt=fmt, shape='diamond', commits=4, tags=tags if not q else tags[:3], branch=list('main'), status_len=0))
            if not q or name == 'semver_order':
                out.append(dict(name=name, fmt=fmt, shape='longside', commits=5, tags=tags[:3], branch=list('main'), status_len=0))
    if not q:
        out.append(dict(name='five_tags', fmt='semver', commits=2, tags=['v1.0.0', 'v1.0.1', 'v1.0.1-rc.1', '1.0.1', 'stable'], branch=None, status_len=0))
        out.append(dict(name='five_tags', fmt='auto', commits=2, tags=['v1.0.0', '1.0.0.post1', '1.0.1a1', 'v1.0.1-alpha.1', 'v1'], branch=None, status_len=0))
    out.append(dict(name='branch_text', fmt='semver', commits=1, tags=['v1.0.0'], branch=list('f/') + ['PATH', 'PATH'], status_len=1, dist_max=4294967295, dist_sym=True))
    out.append(dict(name='detached', fmt='semver', commits=1, tags=['v1.0.0'], branch=[], status_len=0))
    return out
