"""C12 (decided part) — schema placement rules: invalid schemas are refused, valid ones accepted.
MIR of src/version/zerv/schema/{core,validation}.rs and Zerv::new."""
import os
import sys
import z3

sys.path.insert(0, os.path.dirname(os.path.dirname(os.path.abspath(__file__))))
from values import *        # noqa
from models import chars_of
import chars as C
import c06
import c17

VARS = ['Major', 'Minor', 'Patch', 'Epoch', 'PreRelease', 'Post', 'Dev', 'Distance', 'Dirty', 'BumpedBranch', 'BumpedCommitHash',
        'BumpedCommitHashShort', 'BumpedTimestamp', 'LastBranch', 'LastCommitHash', 'LastCommitHashShort', 'LastTimestamp']


def make_section(I, w, kinds, tag):
    """kinds: list of 'V' (any of the 17 plain variables, symbolic), 'S', 'U', ('T', pattern text or n symbolic chars)"""
    vi = I.prog.variant_index
    assert [vi('Var', v) for v in VARS] == list(range(17))
    comps, syms = [], []
    for i, k in enumerate(kinds):
        if k == 'V':
            v = w.fresh_int('%s%d' % (tag, i), 0, 16)
            comps.append(Adt('Component', vi('Component', 'Var'), [Adt('Var', v, [])]))
            syms.append(('var', v))
        elif k == 'S':
            comps.append(Adt('Component', vi('Component', 'Str'), [mkstring('x')]))
            syms.append(('lit', None))
        elif k == 'U':
            comps.append(Adt('Component', vi('Component', 'UInt'), [w.fresh_int('%s%d_u' % (tag, i), 0, 2**64 - 1)]))
            syms.append(('lit', None))
        else:
            pat = k[1]
            if isinstance(pat, int):
                cs = [w.fresh_int('%s%d_t%d' % (tag, i, j)) for j in range(pat)]
                for c in cs:
                    w.assume(z3.Or([c == ord(x) for x in 'YMD0HmSW%y_c'] ))
            else:
                cs = [ord(x) for x in pat]
            comps.append(Adt('Component', vi('Component', 'Var'), [Adt('Var', vi('Var', 'Timestamp'), [StringObj(cs)])]))
            syms.append(('ts', cs))
    return comps, syms


def ts_valid(w, cs):
    """documented names or a custom format starting with %"""
    from models import seq_eq_cond, disj
    conds = [seq_eq_cond(cs, [ord(x) for x in p]) for p in c17.PATTERNS]
    if cs:
        conds.append(cs[0] == 37)
    return disj(conds)


def zb(c):
    return z3.BoolVal(c) if isinstance(c, bool) else c


def rules_hold(w, core, extra, build):
    """the statement's placement rules as a z3 formula over the symbolic variable choices"""
    conds = [z3.BoolVal(bool(core or extra or build))]
    prim = lambda v: v <= 2
    sec = lambda v: z3.And(v >= 3, v <= 6)
    cv = [s[1] for s in core if s[0] == 'var']
    ev = [s[1] for s in extra if s[0] == 'var']
    bv = [s[1] for s in build if s[0] == 'var']
    for v in cv:
        conds.append(z3.Not(sec(v)))
    # primaries in core: no duplicates, in order major -> minor -> patch
    for i in range(len(cv)):
        for j in range(i + 1, len(cv)):
            conds.append(z3.Implies(z3.And(prim(cv[i]), prim(cv[j])), cv[i] < cv[j]))
    for v in ev:
        conds.append(z3.Not(prim(v)))
    for i in range(len(ev)):
        for j in range(i + 1, len(ev)):
            conds.append(z3.Implies(z3.And(sec(ev[i]), sec(ev[j])), ev[i] != ev[j]))
    for v in bv:
        conds.append(z3.And(z3.Not(prim(v)), z3.Not(sec(v))))
    for part in (core, extra, build):
        for s in part:
            if s[0] == 'ts':
                conds.append(zb(ts_valid(w, s[1])))
    return z3.And(conds)


def concrete(m, syms):
    out = []
    for s in syms:
        if s[0] == 'var':
            out.append({'var': VARS[m.eval(s[1], model_completion=True).as_long()]})
        elif s[0] == 'ts':
            out.append({'ts': [m.eval(c, model_completion=True).as_long() if not isinstance(c, int) else c for c in s[1]]})
        else:
            out.append({'str': [120]})
    return out


def path(ctx, arg):
    I, w = ctx.I, ctx.w
    how, kc, ke, kb = arg
    core, sc = make_section(I, w, kc, 'c')
    extra, se = make_section(I, w, ke, 'e')
    build, sb = make_section(I, w, kb, 'b')
    try:
        if how == 'new':
            r = I.call('ZervSchema::new', [VecObj(core), VecObj(extra), VecObj(build)])
        elif how == 'zerv_new':
            # a schema value assembled field by field (as a deserialiser would), then Zerv::new must validate it
            order = I.call('<PrecedenceOrder as Default>::default', [])
            schema = Adt('ZervSchema', 0, [VecObj(core), VecObj(extra), VecObj(build), order])
            sv = c06.SymVars(w, I, set(), {})
            r = I.call('Zerv::new', [schema, sv.value(I)])
        else:
            # start from a valid schema and replace one section through the validating setter
            base = I.call('ZervSchema::new', [VecObj([c06.comp_value(I, ('var', 'Major'))]), VecObj([c06.comp_value(I, ('var', 'Epoch'))]),
                                              VecObj([c06.comp_value(I, ('var', 'Distance'))])]).fields[0]
            if how == 'set_core':
                r = I.call('ZervSchema::set_core', [ValPtr(base), VecObj(core)])
                extra, se, build, sb = [1], [('var', z3.IntVal(3))], [1], [('var', z3.IntVal(7))]
            elif how == 'set_extra_core':
                r = I.call('ZervSchema::set_extra_core', [ValPtr(base), VecObj(extra)])
                core, sc, build, sb = [1], [('var', z3.IntVal(0))], [1], [('var', z3.IntVal(7))]
            else:
                r = I.call('ZervSchema::set_build', [ValPtr(base), VecObj(build)])
                core, sc, extra, se = [1], [('var', z3.IntVal(0))], [1], [('var', z3.IntVal(3))]
    except Panic as e:
        m = w.get_model()
        ctx.violation(clause='panic', how=how, schema=[concrete(m, sc), concrete(m, se), concrete(m, sb)], detail=str(e), vkey='panic|' + how)
        return
    okv = r.variant == 0
    ctx.tag('accepted' if okv else 'refused')
    valid = rules_hold(w, sc, se, sb)
    m0 = w.get_model()
    ctx.res.witness = dict(how=how, schema=[concrete(m0, sc), concrete(m0, se), concrete(m0, sb)], accepted=okv)
    m = w.find(z3.Not(valid) if okv else valid)
    if m is not None:
        ctx.violation(clause='accepts_invalid' if okv else 'refuses_valid', how=how, schema=[concrete(m, sc), concrete(m, se), concrete(m, sb)],
                      detail='schema %s although the placement rules %s' % ('accepted' if okv else 'refused', 'are violated' if okv else 'hold'),
                      vkey='%s|%s' % ('accepts_invalid' if okv else 'refuses_valid', how))


def args_for(tier):
    q = tier == 'quick'
    out = []
    mc, me, mb = (3, 3, 1) if q else (4, 4, 2)
    for a in range(0, mc + 1):
        for b in range(0, me + 1):
            for c in range(0, mb + 1):
                if q and a + b + c > 5:
                    continue
                out.append(('new', ['V'] * a, ['V'] * b, ['V'] * c))
    # literals and timestamps mixed in
    out += [('new', ['V', 'S', 'V', 'U', 'V'], ['V'], []), ('new', ['U', 'V'], ['S', 'V', 'V'], ['U']), ('new', [('T', 2)], [], []),
            ('new', ['V', ('T', 3)], [('T', 2)], [('T', 4)]), ('new', [('T', 'compact_date')], [('T', 'compact_datetime')], [('T', '%Y')]),
            ('new', [('T', 'YYY')], [], []), ('new', [], [], [('T', '')])]
    for how in ('zerv_new',):
        for a, b, c in ((3, 2, 1), (2, 3, 0), (0, 0, 0), (1, 1, 1), (3, 0, 2)):
            out.append((how, ['V'] * a, ['V'] * b, ['V'] * c))
    for n in range(0, 4):
        out.append(('set_core', ['V'] * n, [], []))
        out.append(('set_extra_core', [], ['V'] * n, []))
        out.append(('set_build', [], [], ['V'] * min(n, 2)))
    return out


# ------------------------------------------------------------------ serialisation is injective (necessary for a lossless round trip)
PRECS = ['Epoch', 'Major', 'Minor', 'Patch', 'Core', 'PreReleaseLabel', 'PreReleaseNum', 'Post', 'Dev', 'ExtraCore', 'Build']


def prec_orders(tier):
    """menu of precedence orders: the default, every adjacent swap, reversed, a prefix, empty"""
    out = [('default', list(PRECS))]
    for i in range(0, len(PRECS) - 1, 1 if tier != 'quick' else 3):
        p = list(PRECS)
        p[i], p[i + 1] = p[i + 1], p[i]
        out.append(('swap%d' % i, p))
    out.append(('reversed', list(reversed(PRECS))))
    out.append(('prefix3', PRECS[:3]))
    out.append(('empty', []))
    return out


def val_eq(a, b):
    """structural identity of two interpreter values (order of map entries included) as a z3 formula / python bool —
    independent of zerv's PartialEq impls and of serde"""
    from models_serde import conj_, _t, _b
    a, b = peel(a), peel(b)
    if isinstance(a, (StringObj, Str)) and isinstance(b, (StringObj, Str)):
        if len(a.chars) != len(b.chars):
            return False
        return conj_([(_t(x) == _t(y)) if (z3.is_expr(x) or z3.is_expr(y)) else x == y for x, y in zip(a.chars, b.chars)])
    if isinstance(a, VecObj) and isinstance(b, VecObj):
        if len(a.items) != len(b.items):
            return False
        return conj_([val_eq(x, y) for x, y in zip(a.items, b.items)])
    if isinstance(a, MapObj) and isinstance(b, MapObj):
        if len(a.entries) != len(b.entries):
            return False
        return conj_([conj_([val_eq(x[0], y[0]), val_eq(x[1], y[1])]) for x, y in zip(a.entries, b.entries)])
    if isinstance(a, Adt) and isinstance(b, Adt):
        if a.name != b.name:
            return False
        va, vb = a.variant, b.variant
        if isinstance(va, int) and isinstance(vb, int):
            if va != vb:
                return False
            if a.name == 'Option' and va == 0:
                return True
            return conj_([val_eq(x, y) for x, y in zip(a.fields, b.fields)])
        inner = conj_([val_eq(x, y) for x, y in zip(a.fields, b.fields)])
        if a.name == 'Option':
            return z3.And(_t(va) == _t(vb), z3.Or(_t(va) == 0, _b(inner)))
        return conj_([_t(va) == _t(vb), inner])
    if z3.is_expr(a) or z3.is_expr(b):
        return _t(a) == _t(b)
    return a == b


def path_ser(ctx, arg):
    """two Zerv objects with independent symbolic contents; zerv's own Serialize impls (MIR) run against a recording
    serializer; z3 is asked for contents where the two objects differ but their serde documents coincide"""
    import models_serde as MSD
    I, w = ctx.I, ctx.w
    vi = I.prog.variant_index
    (na, oa), (nb, ob) = arg['orders']
    spec_a = arg['schema']
    spec_b = arg.get('schema_b') or spec_a

    def build(order, tag):
        spec = spec_a if tag == 'A' else spec_b
        def comp(i, c):
            if c[0] == 'uint':
                return Adt('Component', vi('Component', 'UInt'), [w.fresh_int('%s_u%d' % (tag, i), 0, 2**64 - 1)])
            if c[0] == 'custom':
                return Adt('Component', vi('Component', 'Var'), [Adt('Var', vi('Var', 'Custom'), [mkstring(c[1])])])
            if c[0] == 'str' and len(c[1]) > 1:
                return c06.comp_value(I, ('str', [ord(x) for x in c[1]]))
            if c[0] == 'str':
                ch = w.fresh_int('%s_s%d' % (tag, i))
                w.assume(C.domain(ch))
                return Adt('Component', vi('Component', 'Str'), [StringObj([ch])])
            return c06.comp_value(I, c)
        parts = [VecObj([comp(10 * k + i, c) for i, c in enumerate(part)]) for k, part in enumerate(spec)]
        po = I.call('PrecedenceOrder::from_precedences', [VecObj([Adt('Precedence', vi('Precedence', p), []) for p in order])])
        r = I.call('ZervSchema::new_with_precedence', parts + [po])
        if r.variant != 0:
            raise Unsupported('menu schema rejected')
        used = set(c06.NUMVARS) | {'pre_release', 'dirty', 'bumped_timestamp', 'last_timestamp'} | set(c06.TEXTVARS)
        sv = c06.SymVars(w, I, used, dict(num_max=2**64 - 1, text_len=1))
        svs.append(sv)
        vars_ = sv.value(I)
        # last_tag_version is not part of the rendering menus' SymVars: symbolic here (presence + one character)
        lp, lc = w.fresh_int(tag + '_has_ltv', 0, 1), w.fresh_int(tag + '_ltv')
        w.assume(C.domain(lc))
        vars_.fields[c06.FIELDS.index('last_tag_version')] = Adt('Option', lp, [StringObj([lc])])
        ltv.append((lp, lc))
        return Adt('Zerv', 0, [r.fields[0], vars_])
    svs, ltv = [], []

    def conc(k, m):
        d = svs[k].concrete(m)
        lp, lc = ltv[k]
        d['last_tag_version'] = [m.eval(lc, model_completion=True).as_long()] if m.eval(lp, model_completion=True).as_long() else None
        return d
    A, B = build(oa, 'A'), build(ob, 'B')
    try:
        ta, tb = MSD.ser_value(I, A), MSD.ser_value(I, B)
    except Panic as e:
        ctx.violation(clause='panic', what='serialize', detail=str(e), vkey='panic|ser')
        return
    ctx.tag('serialized')
    for name, keys in MSD.struct_keys(ta):
        if len(set(keys)) != len(keys):
            ctx.violation(clause='duplicate_key', what=name, keys=keys, orders=[na, nb], detail='struct %s emits a key twice: %r' % (name, keys), vkey='dup|' + name)
            return
    same_doc = MSD.tree_eq(ta, tb)
    same_obj = val_eq(A, B)
    if same_doc is False:
        ctx.tag('documents_differ')
        return
    ctx.tag('documents_can_coincide')
    cond = z3.Not(MSD._b(same_obj)) if same_obj is not True else z3.BoolVal(False)
    m = w.find(z3.And(MSD._b(same_doc), cond))
    if m is not None:
        # which part differs while the document is the same
        what = 'precedence_order' if oa != ob else ('schema' if spec_a != spec_b else 'contents')
        ctx.violation(clause='not_injective', what=what, orders=[na, nb], order_a=oa, order_b=ob, schema=None, kinds=[repr(spec_a[2][-1]), repr(spec_b[2][-1])],
                      vars_a=conc(0, m), vars_b=conc(1, m),
                      detail='two different Zerv objects (%s: %s vs %s) serialise to the same document' % (what, na, nb), vkey='inj|' + what)
    else:
        ctx.tag('injective')


def _build_zerv(ctx, order, tag, spec):
    """a Zerv object over `spec` with every ZervVars field symbolic (presence and contents), built through zerv's own
    constructors in MIR; returns (object, SymVars, (last_tag_version presence, char))"""
    I, w = ctx.I, ctx.w
    vi = I.prog.variant_index

    def comp(i, c):
        if c[0] == 'uint':
            return Adt('Component', vi('Component', 'UInt'), [w.fresh_int('%s_u%d' % (tag, i), 0, 2**64 - 1)])
        if c[0] == 'custom':
            return Adt('Component', vi('Component', 'Var'), [Adt('Var', vi('Var', 'Custom'), [mkstring(c[1])])])
        if c[0] == 'str' and len(c[1]) > 1:
            return c06.comp_value(I, ('str', [ord(x) for x in c[1]]))
        if c[0] == 'str':
            ch = w.fresh_int('%s_s%d' % (tag, i))
            w.assume(C.domain(ch))
            return Adt('Component', vi('Component', 'Str'), [StringObj([ch])])
        return c06.comp_value(I, c)
    parts = [VecObj([comp(10 * k + i, c) for i, c in enumerate(part)]) for k, part in enumerate(spec)]
    po = I.call('PrecedenceOrder::from_precedences', [VecObj([Adt('Precedence', vi('Precedence', p), []) for p in order])])
    r = I.call('ZervSchema::new_with_precedence', parts + [po])
    if r.variant != 0:
        raise Unsupported('menu schema rejected')
    used = set(c06.NUMVARS) | {'pre_release', 'dirty', 'bumped_timestamp', 'last_timestamp'} | set(c06.TEXTVARS)
    sv = c06.SymVars(w, I, used, dict(num_max=2**64 - 1, text_len=2))
    vars_ = sv.value(I)
    lp, lc = w.fresh_int(tag + '_has_ltv', 0, 1), w.fresh_int(tag + '_ltv')
    w.assume(C.domain(lc))
    vars_.fields[c06.FIELDS.index('last_tag_version')] = Adt('Option', lp, [StringObj([lc])])
    return Adt('Zerv', 0, [r.fields[0], vars_]), sv, (lp, lc)


def path_de(ctx, arg):
    """emit -> parse at the serde data-model level: zerv's Serialize impls record the tree of a Zerv object with
    symbolic contents, zerv's Deserialize impls (derived visitors, field matchers, defaults, hand-written impls; all from
    MIR) rebuild an object from that tree through a replaying deserializer; z3 is asked for contents where the rebuilt
    object is not identical to the original or does not re-emit the same tree"""
    import models_serde as MSD
    I, w = ctx.I, ctx.w
    name, order = arg['order']
    built = _build_zerv(ctx, order, 'A', arg['schema'])
    A, sv, (lp, lc) = built

    def conc(m):
        d = sv.concrete(m)
        d['last_tag_version'] = [m.eval(lc, model_completion=True).as_long()] if m.eval(lp, model_completion=True).as_long() else None
        return d
    try:
        ta = MSD.ser_value(I, A)
        r = MSD.de_value(I, 'Zerv', ta)
    except Panic as e:
        ctx.violation(clause='panic', what='roundtrip', detail=str(e), vkey='panic|de')
        return
    ctx.tag('emitted')
    if r.variant != 0:
        m = w.get_model()
        ctx.violation(clause='roundtrip_de', what='rejected', orders=[name, name], order_a=order, vars=conc(m), schema_spec=repr(arg['schema']),
                      detail='the document zerv emits for this object is refused by its own Deserialize impls: %r' % (peel(r.fields[0]).state,), vkey='de|rejected')
        return
    ctx.tag('parsed_back')
    B = peel(r.fields[0])
    same = val_eq(A, B)
    m = None
    if same is False:
        m = w.get_model()
    elif same is not True:
        m = w.find(z3.Not(MSD._b(same)))
    if m is not None:
        diff = _first_diff(A, B, m)
        ctx.violation(clause='roundtrip_de', what='object_changed', orders=[name, name], order_a=order, vars=conc(m), schema_spec=repr(arg['schema']), differs_at=diff,
                      detail='emit -> parse changes the object at %s (precedence order %s)' % (diff, name), vkey='de|changed|' + diff.split('[')[0])
        return
    try:
        tb = MSD.ser_value(I, B)
    except Panic as e:
        ctx.violation(clause='panic', what='re-emit', detail=str(e), vkey='panic|de')
        return
    same_doc = MSD.tree_eq(ta, tb)
    if same_doc is False or (same_doc is not True and w.find(z3.Not(MSD._b(same_doc))) is not None):
        ctx.violation(clause='roundtrip_de', what='reemit_differs', orders=[name, name], order_a=order, vars=conc(w.get_model()), schema_spec=repr(arg['schema']),
                      detail='emit -> parse -> emit gives a different document', vkey='de|reemit')
        return
    ctx.tag('identical')


def path_pipe(ctx, arg):
    """pipe equivalence in-process: the object a direct run ends with (ZervDraft::to_zerv with default arguments on a
    symbolic draft) is emitted (zerv's Display -> ron), handed to the stdin source (process_cached_stdin_source ->
    parse_and_validate_zerv_ron -> ron::from_str::<Zerv>) and taken through ZervDraft::to_zerv again — all from MIR;
    the second object must be identical to the first (hence every rendering of it is the same)"""
    import models_serde as MSD
    I, w = ctx.I, ctx.w
    name, order = arg['order']
    A, sv, (lp, lc) = _build_zerv(ctx, order, 'A', arg['schema'])

    def conc(m):
        d = sv.concrete(m)
        d['last_tag_version'] = [m.eval(lc, model_completion=True).as_long()] if m.eval(lp, model_completion=True).as_long() else None
        return d
    import models_env as ME
    ME.SHARED_CLOCK[0] = True        # both stages read the same wall clock: the documented dirty-state timestamp is factored out
    try:
        va = I.call('<VersionArgs as Default>::default', [])
        d0 = I.call('ZervDraft::new', [deep_copy(A.fields[1]), some(deep_copy(A.fields[0]))])
        r1 = I.call('ZervDraft::to_zerv', [d0, ValPtr(va)])
        if r1.variant != 0:
            ctx.tag('direct_rejected')
            return
        Z1 = peel(r1.fields[0])
        ctx.tag('direct_ok')
        text = I.call('<Zerv as ToString>::to_string', [ValPtr(Z1)])
        rd = I.call('process_cached_stdin_source', [ValPtr(va), some(Str(list(chars_of(text))))])
        if rd.variant != 0:
            ctx.violation(clause='pipe', what='stdin_rejected', orders=[name, name], order_a=order, vars=conc(w.get_model()), schema_spec=repr(arg['schema']),
                          detail='the document a direct run emits is refused by the stdin source', vkey='pipe|rejected')
            return
        r2 = I.call('ZervDraft::to_zerv', [rd.fields[0], ValPtr(va)])
    except Panic as e:
        ctx.violation(clause='panic', what='pipe', detail=str(e), vkey='panic|pipe')
        return
    finally:
        ME.SHARED_CLOCK[0] = False
    if r2.variant != 0:
        ctx.violation(clause='pipe', what='second_stage_failed', orders=[name, name], order_a=order, vars=conc(w.get_model()), schema_spec=repr(arg['schema']),
                      detail='the piped document is accepted but the second stage fails', vkey='pipe|stage2')
        return
    ctx.tag('piped')
    Z2 = peel(r2.fields[0])
    same = val_eq(Z1, Z2)
    m = w.get_model() if same is False else (None if same is True else w.find(z3.Not(MSD._b(same))))
    if m is not None:
        diff = _first_diff(Z1, Z2, m)
        ctx.violation(clause='pipe', what='object_changed', orders=[name, name], order_a=order, vars=conc(m), schema_spec=repr(arg['schema']), differs_at=diff,
                      detail='zerv version | zerv version --source stdin changes the object at %s' % diff, vkey='pipe|changed|' + diff.split('[')[0])
    else:
        ctx.tag('identical')


def _first_diff(a, b, m, path='zerv'):
    """where two interpreter values differ under a model (for the report and the class key)"""
    a, b = peel(a), peel(b)
    ev = lambda x: m.eval(x, model_completion=True).as_long() if z3.is_expr(x) and not z3.is_bool(x) else (bool(m.eval(x, model_completion=True)) if z3.is_expr(x) else x)
    if isinstance(a, (StringObj, Str)) and isinstance(b, (StringObj, Str)):
        return '' if [ev(x) for x in a.chars] == [ev(x) for x in b.chars] else path
    if isinstance(a, VecObj) and isinstance(b, VecObj):
        if len(a.items) != len(b.items):
            return path + '.len'
        for i, (x, y) in enumerate(zip(a.items, b.items)):
            d = _first_diff(x, y, m, '%s[%d]' % (path, i))
            if d:
                return d
        return ''
    if isinstance(a, MapObj) and isinstance(b, MapObj):
        if len(a.entries) != len(b.entries):
            return path + '.len'
        for i, (x, y) in enumerate(zip(a.entries, b.entries)):
            d = _first_diff(x[0], y[0], m, '%s.key%d' % (path, i)) or _first_diff(x[1], y[1], m, '%s.val%d' % (path, i))
            if d:
                return d
        return ''
    if isinstance(a, Adt) and isinstance(b, Adt):
        if a.name != b.name or ev(a.variant) != ev(b.variant):
            return path + ':' + a.name
        if a.name == 'Option' and ev(a.variant) == 0:
            return ''
        names = None
        for i, (x, y) in enumerate(zip(a.fields, b.fields)):
            fn = c06.FIELDS[i] if a.name == 'ZervVars' and i < len(c06.FIELDS) else str(i)
            d = _first_diff(x, y, m, '%s.%s' % (path, fn))
            if d:
                return d
        return '' if len(a.fields) == len(b.fields) else path + ':' + a.name
    if type(a) is not type(b) and not (z3.is_expr(a) or z3.is_expr(b) or isinstance(a, (int, bool)) and isinstance(b, (int, bool))):
        return path + ':type'
    return '' if ev(a) == ev(b) else path


def de_args(tier):
    orders = prec_orders(tier)
    spec = ser_args(tier)[0]['schema']
    out = [dict(order=o, schema=spec) for o in orders]
    kinds = [('var', 'Distance'), ('var', 'Dirty'), ('ts', 'YYYY'), ('custom', 'YYYY'), ('str', 'YYYY'), ('uint', 0), ('var', 'BumpedCommitHashShort'), ('var', 'LastCommitHashShort'),
             ('var', 'BumpedCommitHash'), ('var', 'LastBranch'), ('var', 'LastTimestamp'), ('var', 'BumpedTimestamp'), ('ts', 'compact_datetime')]
    for k in kinds:
        out.append(dict(order=orders[0], schema=(spec[0], spec[1], [('var', 'BumpedBranch'), k])))
    out.append(dict(order=orders[0], schema=([], [], [('var', 'Distance')])))
    out.append(dict(order=orders[0], schema=([('var', 'Major')], [], [])))
    return out


def ser_args(tier):
    orders = prec_orders(tier)
    spec = ([('var', 'Major'), ('var', 'Minor'), ('var', 'Patch')], [('var', 'Epoch'), ('var', 'PreRelease'), ('var', 'Post'), ('var', 'Dev'), ('str', 'x')],
            [('var', 'BumpedBranch'), ('uint', 0), ('var', 'Distance')])
    out = [dict(orders=(orders[0], orders[0]), schema=spec)]
    # two schemas that differ in the kind of one build component (same payload text): the documents must differ
    kinds = [('var', 'Distance'), ('var', 'Dirty'), ('ts', 'YYYY'), ('custom', 'YYYY'), ('str', 'YYYY'), ('uint', 0), ('var', 'BumpedCommitHashShort'), ('var', 'LastCommitHashShort')]
    for i in range(len(kinds)):
        for j in range(i + 1, len(kinds)):
            mk = lambda k: (spec[0], spec[1], [('var', 'BumpedBranch'), k])
            out.append(dict(orders=(orders[0], orders[0]), schema=mk(kinds[i]), schema_b=mk(kinds[j])))
    for i in range(len(orders)):
        for j in range(i + 1, len(orders)):
            if tier == 'quick' and i > 0 and j != i + 1:
                continue
            out.append(dict(orders=(orders[i], orders[j]), schema=spec))
    return out
