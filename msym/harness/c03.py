"""C03 / C04 (composed law) — the flow pipeline on sources none/stdin, executed from MIR:
FlowArgs::{create_version_args, validate, create_bumped_version_args, bump_*}, ZervDraft::to_zerv
(apply_context_overrides, schema choice, ResolvedArgs::resolve, apply_component_processing, normalize) and the two
renderers.  Model boundary: Tera (models_tera) and the RON text hand-over between the two passes (the second pass is
run on the same draft variables, which is what re-reading the same source yields)."""
import os
import sys
import z3

sys.path.insert(0, os.path.dirname(os.path.dirname(os.path.abspath(__file__))))
from values import *        # noqa
import chars as C
from models import chars_of
import c04
import c06
import c10
import c11

FLOW_FIELDS = ['input', 'output', 'branch_config', 'overrides', 'hash_branch_len', 'schema', 'schema_ron']
COMMON_FIELDS = ['tag_version', 'distance', 'dirty', 'no_dirty', 'clean', 'bumped_branch', 'bumped_commit_hash', 'bumped_timestamp',
                 'major', 'minor', 'patch', 'epoch', 'post']
BRC_FIELDS = ['pre_release_label', 'pre_release_num', 'post_mode', 'branch_rules']
U32 = 2**32 - 1
NOW_MIN = 1_600_000_000


def fget(adt, names, n):
    return adt.fields[names.index(n)]


def fset(adt, names, n, v):
    adt.fields[names.index(n)] = v


class Case:
    """symbolic flow situation: final-release tag X.Y.Z (optionally with a tag post), distance, dirty, branch, flags"""

    def __init__(self, ctx, arg):
        I, w = ctx.I, ctx.w
        self.I, self.w, self.arg = I, w, arg
        nm = arg.get('num_max', 9)
        self.x = w.fresh_int('X', 1, nm) if arg.get('sym_xy') else 1
        self.y = w.fresh_int('Y', 1, nm) if arg.get('sym_xy') else 2
        self.z = w.fresh_int('Z', *arg['z_range']) if arg.get('z_range') else w.fresh_int('Z', arg.get('z_min', 1), nm)
        self.has_dist = w.fresh_int('has_dist', 0, 1)
        self.dist = w.fresh_int('dist', 0, arg.get('dist_max', 9))
        self.has_dirty = w.fresh_int('has_dirty', 0, 1)
        self.dirty = w.fresh_bool('dirty')
        self.has_post = w.fresh_int('has_post', 0, 1) if arg.get('tag_post') else 0
        self.post = w.fresh_int('tag_post', 0, nm)
        self.pre = arg.get('tag_pre')          # None or (label, has_number)
        self.pre_n = w.fresh_int('tag_pre_n', 0, nm)
        self.branch = arg.get('branch')         # None | list of chars/classes (c04.branch_chars)
        self.bcs = c04.branch_chars(w, self.branch) if self.branch is not None else None
        if arg.get('state') == 'clean_at_tag':
            w.assume(z3.Or(self.has_dist == 0, self.dist == 0))
            if not arg.get('no_dirty_flag'):
                w.assume(z3.Or(self.has_dirty == 0, z3.Not(self.dirty)))
        elif arg.get('state') == 'moved':
            ahead = z3.And(self.has_dist == 1, self.dist > 0)
            if arg.get('no_dirty_flag'):
                w.assume(ahead)                      # --no-dirty: only commits after the tag move the state
            elif not arg.get('dirty_flag'):
                w.assume(z3.Or(ahead, z3.And(self.has_dirty == 1, self.dirty)))
            if arg.get('known_dirty', True):
                # git and stdin sources always report dirty as Some(..); `None` only arises with --source none
                pass

    def vars(self):
        I = self.I
        sv = c06.SymVars(self.w, I, set(), {})
        v = sv.value(I)
        F = c06.FIELDS

        def put(n, val):
            v.fields[F.index(n)] = val
        put('major', some(self.x))
        put('minor', some(self.y))
        put('patch', some(self.z))
        put('post', Adt('Option', self.has_post, [self.post]) if self.arg.get('tag_post') else none())
        if self.pre is not None:
            lab = c06.LABELS.index(self.pre[0])
            put('pre_release', some(Adt('PreReleaseVar', 0, [Adt('PreReleaseLabel', lab, []), some(self.pre_n) if self.pre[1] else none()])))
        put('distance', Adt('Option', self.has_dist, [self.dist]))
        put('dirty', Adt('Option', self.has_dirty, [self.dirty]))
        put('bumped_branch', some(StringObj(self.bcs)) if self.bcs is not None else none())
        put('bumped_commit_hash', some(mkstring('g1a2b3c4d5e')))
        put('bumped_timestamp', some(1_700_000_000))
        put('last_timestamp', some(1_690_000_000))
        put('last_commit_hash', some(mkstring('g0f0f0f0f0f')))
        return v

    def concrete(self, m):
        def ev(x):
            if isinstance(x, (int, bool)):
                return x
            r = m.eval(x, model_completion=True)
            return z3.is_true(r) if z3.is_bool(r) else r.as_long()
        d = dict(tag='%d.%d.%d' % (ev(self.x), ev(self.y), ev(self.z)), distance=ev(self.dist) if ev(self.has_dist) else None,
                 dirty=ev(self.dirty) if ev(self.has_dirty) else None,
                 branch=None if self.bcs is None else ''.join(chr(ev(c)) for c in self.bcs))
        if self.arg.get('tag_post') and ev(self.has_post):
            d['tag_post'] = ev(self.post)
        if self.pre is not None:
            d['tag_pre'] = [self.pre[0], ev(self.pre_n) if self.pre[1] else None]
        return d


def flow_args(I, w, arg):
    fa = I.call('<FlowArgs as Default>::default', [])
    brc = fget(fa, FLOW_FIELDS, 'branch_config')
    if arg.get('rules', 'default') != 'default':
        rv, _ = c04.build_rules(I, arg['rules'])
        fset(brc, BRC_FIELDS, 'branch_rules', rv)
    if arg.get('label'):
        fset(brc, BRC_FIELDS, 'pre_release_label', some(mkstring(arg['label'])))
    if arg.get('mode'):
        fset(brc, BRC_FIELDS, 'post_mode', some(mkstring(arg['mode'])))
    if arg.get('num') is not None:
        fset(brc, BRC_FIELDS, 'pre_release_num', some(arg['num']))
    fset(fa, FLOW_FIELDS, 'hash_branch_len', arg.get('hash_len', 5))
    if arg.get('schema'):
        fset(fa, FLOW_FIELDS, 'schema', some(mkstring(arg['schema'])))
    common = fget(fa, FLOW_FIELDS, 'overrides').fields[0]
    if arg.get('dirty_flag'):
        fset(common, COMMON_FIELDS, 'dirty', True)
    if arg.get('no_dirty_flag'):
        fset(common, COMMON_FIELDS, 'no_dirty', True)
    # the source is `stdin`-like: the draft variables stand for what the source yields on both passes
    inp = fget(fa, FLOW_FIELDS, 'input')
    return fa


def run_flow(ctx, arg, case):
    """-> (result Zerv, FlowArgs after validate) ; raises PathAbort after recording a violation on errors"""
    I, w = ctx.I, ctx.w
    import models_chrono as MC
    MC.NOW_MAX[0] = MC.END_2199 - 1 if arg.get('now_full') else 2**32 - 1
    import models_std as MS
    MS.HASH_RANGE[0] = arg.get('hash_min', 0)
    fa = flow_args(I, w, arg)
    common = fget(fa, FLOW_FIELDS, 'overrides').fields[0]
    bumps0 = I.call('<BumpsConfig as Default>::default', [])
    va1 = I.call('FlowArgs::create_version_args', [ValPtr(fa), bumps0, fget(common, COMMON_FIELDS, 'dirty')])
    d1 = I.call('ZervDraft::new', [deep_copy(case.vars()), none()])
    r1 = I.call('ZervDraft::to_zerv', [d1, ValPtr(va1)])
    if r1.variant != 0:
        ctx.violation(clause='flow_error', case=case.concrete(w.get_model()), arg=arg, detail='first pass failed', vkey='flow_error|pass1')
        raise PathAbort()
    cur = r1.fields[0]
    brc = fget(fa, FLOW_FIELDS, 'branch_config')
    rv = I.call('BranchRulesConfig::apply_branch_rules', [ValPtr(brc), ValPtr(cur)])
    for fn in ('validate_pre_release_label', 'validate_hash_branch_len', 'validate_post_mode'):
        r = I.call('FlowArgs::' + fn, [ValPtr(fa)])
        if r.variant != 0:
            ctx.tag('flow_rejected')
            raise PathAbort()
    rva = I.call('FlowArgs::create_bumped_version_args', [ValPtr(fa), ValPtr(cur)])
    if rva.variant != 0:
        ctx.violation(clause='flow_error', case=case.concrete(w.get_model()), arg=arg, detail='create_bumped_version_args failed', vkey='flow_error|args')
        raise PathAbort()
    d2 = I.call('ZervDraft::new', [deep_copy(case.vars()), none()])
    r2 = I.call('ZervDraft::to_zerv', [d2, ValPtr(rva.fields[0])])
    return r2, fa, cur


def rendered(I, zerv, fmt, text=True):
    ty = 'SemVer' if fmt == 'semver' else 'PEP440'
    v = I.call('<%s as From<Zerv>>::from' % ty, [deep_copy(zerv)])
    if not text:
        # the order obligations are judged on the record; the text is only rendered (concretely) for a report
        return v, None
    return v, chars_of(I.call('<%s as ToString>::to_string' % ty, [ValPtr(v)]))


def mstr(m, cs):
    return ''.join(chr(m.eval(c, model_completion=True).as_long() if not isinstance(c, int) else c) for c in cs)


def semver_spec_cmp_to_core(v, x, y, z):
    """independent SemVer precedence of record v against the final release x.y.z (as z3 Int: -1/0/1)"""
    mj, mn, pt = v.fields[0], v.fields[1], v.fields[2]
    pre = peel(v.fields[3])
    has_pre = pre.variant == 1
    core = z3.If(mj != x, z3.If(mj < x, -1, 1), z3.If(mn != y, z3.If(mn < y, -1, 1), z3.If(pt != z, z3.If(pt < z, -1, 1), 0)))
    # equal cores: a pre-release sorts below the release
    return z3.If(core != 0, core, z3.IntVal(-1 if has_pre else 0))


def path_order(ctx, arg):
    """C03: clean at tag -> exactly X.Y.Z; otherwise X.Y.Z < V < X.Y.(Z+1) in both formats"""
    I, w = ctx.I, ctx.w
    case = Case(ctx, arg)
    try:
        r2, fa, cur = run_flow(ctx, arg, case)
    except Panic as e:
        ctx.violation(clause='panic', case=case.concrete(w.get_model()), arg=arg, detail=str(e), vkey='panic|flow')
        return
    if r2.variant != 0:
        # the known u32 limitation of hash length 10 is C04's finding; everything else is unexpected
        ctx.tag('flow_error')
        from models_fmt import render_display
        try:
            msg = ''.join(chr(c) if isinstance(c, int) else '?' for c in render_display(I, r2.fields[0]))
        except Exception as e:
            msg = repr(r2.fields[0])[:200]
        ctx.violation(clause='flow_error', case=case.concrete(w.get_model()), arg=arg, detail='second pass failed: ' + msg[:300], vkey='flow_error|pass2|len%s' % arg.get('hash_len', 5))
        return
    zerv = r2.fields[0]
    ctx.tag('flow_ok')
    for fmt in arg.get('fmts', ('semver', 'pep440')):
        clean = arg.get('state') == 'clean_at_tag'
        v, txt = rendered(I, zerv, fmt, text=clean)
        m0 = w.get_model()
        ctx.res.witness = dict(case=case.concrete(m0), out=mstr(m0, txt) if clean else None, fmt=fmt, arg=arg)
        base = [case.x, case.y, case.z]
        if arg.get('state') == 'clean_at_tag':
            from models_fmt import int_to_chars
            exp = int_to_chars(I, case.x) + [46] + int_to_chars(I, case.y) + [46] + int_to_chars(I, case.z)
            if case.pre is not None:
                # a pre-release tag of flow's own shape X.Y.Z-<label>.<n>[.post.<p>] comes back unchanged
                lab = case.pre[0]
                if fmt == 'semver':
                    exp = exp + [45] + [ord(c) for c in lab] + [46] + int_to_chars(I, case.pre_n)
                    post_txt = [ord(c) for c in '.post.']
                else:
                    exp = exp + [ord(c) for c in {'alpha': 'a', 'beta': 'b', 'rc': 'rc'}[lab]] + int_to_chars(I, case.pre_n)
                    post_txt = [ord(c) for c in '.post']
                if arg.get('tag_post') and w.branch(case.has_post == 1):
                    exp = exp + post_txt + int_to_chars(I, case.post)
                m = c06.text_diff(w, txt, exp)
                if m is not None:
                    ctx.violation(clause='clean_pre_tag_changed', case=case.concrete(m), arg=arg, fmt=fmt, out=mstr(m, txt),
                                  detail='clean checkout at a pre-release tag of flow\'s shape does not yield the tag unchanged', vkey='clean_pre|' + fmt)
                else:
                    ctx.tag('clean_pre_exact')
                continue
            if (arg.get('schema') or '').endswith('context') and arg.get('schema') != 'standard-no-context':
                # an explicit *-context schema appends build metadata by request: the version proper must be X.Y.Z
                cut = [i for i, c in enumerate(txt) if isinstance(c, int) and c == 43]
                if cut:
                    txt = txt[:cut[0]]
            m = c06.text_diff(w, txt, exp)
            if m is not None:
                ctx.violation(clause='clean_tag_changed', case=case.concrete(m), arg=arg, fmt=fmt, out=mstr(m, txt),
                              detail='clean checkout at the tag does not yield exactly X.Y.Z', vkey='clean|' + fmt)
            else:
                ctx.tag('clean_exact')
            continue
        # moved: strictly between X.Y.Z and X.Y.(Z+1)
        if fmt == 'semver':
            lo = semver_spec_cmp_to_core(v, case.x, case.y, case.z)
            hi = semver_spec_cmp_to_core(v, case.x, case.y, case.z + 1)
            bad = z3.Or(lo <= 0, hi >= 0)
        else:
            # PEP 440 key against the plain releases X.Y.Z and X.Y.(Z+1) (epoch 0, no pre/post/dev/local)
            rel = peel(v.fields[1]).items
            ep = v.fields[0]
            def cmp_rel(target):
                e = z3.IntVal(0)
                pads = list(rel) + [0] * (3 - len(rel))
                tg = list(target) + [0] * (len(pads) - 3)
                for a, b in reversed(list(zip(pads, tg))):
                    e = z3.If(a != b, z3.If(a < b, -1, 1), e)
                return e
            has_pre = peel(v.fields[2]).variant == 1
            has_post = peel(v.fields[4]).variant == 1
            has_dev = peel(v.fields[6]).variant == 1
            has_local = peel(v.fields[8]).variant == 1
            # order of v against a bare release with equal numbers: pre-release below; else post above; else dev below; else local above
            tail = -1 if has_pre else (1 if has_post else (-1 if has_dev else (1 if has_local else 0)))
            def cmp_to(target):
                r = cmp_rel(target)
                return z3.If(ep != 0, 1, z3.If(r != 0, r, tail))
            lo = cmp_to([case.x, case.y, case.z])
            hi = cmp_to([case.x, case.y, case.z + 1])
            bad = z3.Or(lo <= 0, hi >= 0)
        m = w.find(bad)
        if m is not None:
            ctx.violation(clause='not_between', case=case.concrete(m), arg=arg, fmt=fmt, out=None,
                          detail='V is not strictly between X.Y.Z and X.Y.(Z+1)', vkey='between|' + fmt)
        else:
            ctx.tag('between')


def path_monotone(ctx, arg):
    """C03: commit post-mode, same tag/branch, clean: more commits -> strictly greater version (two runs, one query)"""
    I, w = ctx.I, ctx.w
    case1 = Case(ctx, dict(arg, state=None))
    w.assume(z3.And(case1.has_dist == 1, case1.dist >= 1, case1.has_dirty == 1, z3.Not(case1.dirty)))
    try:
        r1, _, _ = run_flow(ctx, arg, case1)
        d2 = w.fresh_int('dist2', 0, arg.get('dist_max', 9))
        w.assume(d2 > case1.dist)
        old = case1.dist
        case1.dist = d2
        r2, _, _ = run_flow(ctx, arg, case1)
        case1.dist = old
    except Panic as e:
        ctx.violation(clause='panic', case=case1.concrete(w.get_model()), arg=arg, detail=str(e), vkey='panic|flow')
        return
    if r1.variant != 0 or r2.variant != 0:
        ctx.tag('flow_error')
        return
    ctx.tag('flow_ok')
    for fmt in ('semver', 'pep440'):
        ty = 'SemVer' if fmt == 'semver' else 'PEP440'
        a = I.call('<%s as From<Zerv>>::from' % ty, [deep_copy(r1.fields[0])])
        b = I.call('<%s as From<Zerv>>::from' % ty, [deep_copy(r2.fields[0])])
        # independent comparators of C10 / C11 are record-level oracles over symbolic records built by hand; here both
        # records come from the code, so compare post numbers directly: same everything else, post strictly larger
        if fmt == 'semver':
            pa, pb = peel(a.fields[3]), peel(b.fields[3])
            if pa.variant != 1 or pb.variant != 1:
                ctx.violation(clause='not_monotone', case=case1.concrete(w.get_model()), arg=arg, fmt=fmt, detail='no pre-release part after commits', vkey='monotone|' + fmt)
                continue
            ia, ib = peel(pa.fields[0]).items, peel(pb.fields[0]).items
            if len(ia) != len(ib):
                ctx.violation(clause='not_monotone', case=case1.concrete(w.get_model()), arg=arg, fmt=fmt, detail='different identifier lists', vkey='monotone|' + fmt)
                continue
            # lexicographic comparison of identifier lists per SemVer §11 (numeric by value, equal strings equal)
            e = z3.IntVal(0)
            vi = I.prog.variant_index
            for x, y in reversed(list(zip(ia, ib))):
                x, y = peel(x), peel(y)
                if x.variant != y.variant:
                    e = None
                    break
                if x.variant == vi('PreReleaseIdentifier', 'UInt'):
                    e = z3.If(x.fields[0] != y.fields[0], z3.If(x.fields[0] < y.fields[0], -1, 1), e)
                else:
                    cx, cy = chars_of(x.fields[0]), chars_of(y.fields[0])
                    from c10 import o_str
                    e = z3.If(o_str(cx, cy) != 0, o_str(cx, cy), e)
            if e is None:
                ctx.violation(clause='not_monotone', case=case1.concrete(w.get_model()), arg=arg, fmt=fmt, detail='identifier kinds differ', vkey='monotone|' + fmt)
                continue
            m = w.find(e >= 0)
        else:
            na, nb = peel(a.fields[5]), peel(b.fields[5])
            same = [a.fields[0] == b.fields[0]]
            m = w.find(z3.Or(na.variant != 1, nb.variant != 1, na.fields[0] >= nb.fields[0]) if na.fields and nb.fields else z3.BoolVal(True))
        if m is not None:
            ctx.violation(clause='not_monotone', case=case1.concrete(m), arg=arg, fmt=fmt, distance2=m.eval(d2, model_completion=True).as_long(),
                          detail='more commits did not give a strictly greater version', vkey='monotone|' + fmt)
        else:
            ctx.tag('monotone')


def path_law(ctx, arg):
    """C04 composed law: resulting variables = statement's function of (tag, rule, distance, dirty, flags)"""
    I, w = ctx.I, ctx.w
    case = Case(ctx, arg)
    try:
        r2, fa, cur = run_flow(ctx, arg, case)
    except Panic as e:
        ctx.violation(clause='panic', case=case.concrete(w.get_model()), arg=arg, detail=str(e), vkey='panic|flow')
        return
    if r2.variant != 0:
        ctx.tag('flow_error')
        ctx.violation(clause='flow_error', case=case.concrete(w.get_model()), arg=arg, detail='second pass failed', vkey='flow_error|pass2|len%s' % arg.get('hash_len', 5))
        return
    ctx.tag('flow_ok')
    vars_ = r2.fields[0].fields[1]
    F = c06.FIELDS
    g = lambda n: vars_.fields[F.index(n)]
    # ---- oracle
    brc = fget(fa, FLOW_FIELDS, 'branch_config')
    label = ''.join(chr(c) for c in chars_of(fget(brc, BRC_FIELDS, 'pre_release_label').fields[0]))
    mode = ''.join(chr(c) for c in chars_of(fget(brc, BRC_FIELDS, 'post_mode').fields[0]))
    numo = fget(brc, BRC_FIELDS, 'pre_release_num')       # Option<u32> after rule application (C04 rule part decides it)
    dirty_known = z3.And(case.has_dirty == 1, case.dirty)
    if arg.get('dirty_flag'):
        dirty_known = z3.BoolVal(True)
    if arg.get('no_dirty_flag'):
        dirty_known = z3.BoolVal(False)
    ahead = z3.And(case.has_dist == 1, case.dist > 0)
    # tag post-mode treats an ahead checkout as dirty for the bump conditions and the dev part
    eff_dirty = z3.Or(dirty_known, z3.And(z3.BoolVal(mode == 'tag'), ahead)) if not (arg.get('dirty_flag') or arg.get('no_dirty_flag')) else dirty_known
    moved = z3.Or(eff_dirty, ahead)
    has_tag_pre = case.pre is not None
    exp_patch = z3.If(z3.And(moved, z3.BoolVal(not has_tag_pre)), case.z + 1, case.z)
    from c05 import opt_mismatch
    conds = [opt_mismatch(g('major'), 1, case.x), opt_mismatch(g('minor'), 1, case.y), opt_mismatch(g('patch'), 1, exp_patch)]
    m0 = w.get_model()
    ctx.res.witness = dict(case=case.concrete(m0), label=label, mode=mode)
    pr = g('pre_release')
    # nothing changes at a clean tagged commit
    # moved: label from flags/rule; number = explicit/rule/extracted, else the branch hash (not re-derived here: C04 hash contract)
    if isinstance(pr.variant, int) and pr.variant == 0:
        conds.append(z3.And(moved, z3.BoolVal(True)))
    else:
        lab = pr.fields[0].fields[0].variant
        if has_tag_pre:
            keep = c06.LABELS.index(case.pre[0])
            conds.append(z3.And(z3.Not(moved), z3.Or(pr.variant != 1, lab != keep)))
        else:
            conds.append(z3.And(z3.Not(moved), pr.variant == 1))
        conds.append(z3.And(moved, z3.Or(pr.variant != 1, lab != c06.LABELS.index(label))))
        if numo.variant == 1 and not has_tag_pre:
            nn = pr.fields[0].fields[1]
            conds.append(z3.And(moved, opt_mismatch(nn, 1, numo.fields[0])))
    # post
    tag_post = z3.If(case.has_post == 1, case.post, 0) if arg.get('tag_post') else z3.IntVal(0)
    if mode == 'commit':
        # the bump amount is the distance *when it is known*; a dirty checkout with unknown distance adds nothing
        exp_post_p = z3.If(z3.And(moved, case.has_dist == 1), 1, case.has_post if arg.get('tag_post') else 0)
        exp_post_v = z3.If(z3.And(moved, case.has_dist == 1), tag_post + case.dist, tag_post)
    else:
        exp_post_p = z3.If(moved, 1, case.has_post if arg.get('tag_post') else 0)
        exp_post_v = z3.If(moved, tag_post + 1, tag_post)
    conds.append(opt_mismatch(g('post'), exp_post_p, exp_post_v))
    # dev: a timestamp iff dirty (commit mode) or dirty/ahead (tag mode)
    dv = g('dev')
    want_dev = z3.Or(dirty_known, ahead) if mode == 'tag' else dirty_known
    if dv.fields:
        conds.append(z3.Xor(dv.variant == 1 if not isinstance(dv.variant, int) else z3.BoolVal(dv.variant == 1), want_dev))
    else:
        conds.append(want_dev)
    m = w.find(z3.Or(conds))
    if m is not None:
        ctx.violation(clause='composed_law', case=case.concrete(m), arg=arg, label=label, mode=mode,
                      detail='flow result differs from: patch+1 iff no pre-release and moved; label/number per rule; post = tag post + distance | +1; dev iff dirty[/ahead]',
                      vkey='law|%s|%s' % (mode, arg.get('name', '')))
    else:
        ctx.tag('law_holds')


def flow_cases(tier):
    q = tier == 'quick'
    out = []
    branches = [None, list('main'), list('dv'), list('rl/') + ['PATH'], list('rl/2')] + ([] if q else [list('f/') + ['PATH', 'PATH']])
    for st in ('clean_at_tag', 'moved'):
        for b in branches:
            for mode in (None, 'tag', 'commit'):
                if q and b is not None and 'PATH' in b and mode is not None:
                    continue        # quick: free branch characters only with the rule-derived post mode
                if q and mode is not None and b != list('main'):
                    continue
                if q and st == 'clean_at_tag' and (mode is not None or b not in (None, list('main'), list('rl/2'))):
                    continue
                out.append(dict(name='%s' % st, state=st, rules='short', branch=b, mode=mode, tag_post=(b is None)))
    for schema in ('standard', 'standard-base-prerelease-post-dev-context', 'standard-no-context', 'standard-context'):
        out.append(dict(name='schema', state='moved', rules='short', branch=list('rl/7'), schema=schema))
        if not q or schema == 'standard':
            out.append(dict(name='schema', state='clean_at_tag', rules='short', branch=list('main'), schema=schema))
    out.append(dict(name='default_rules', state='moved', rules='default', branch=list('release/') + ['DIGIT']))
    out.append(dict(name='default_rules', state='moved', rules='default', branch=list('develop')))
    out.append(dict(name='flags', state='moved', rules='short', branch=list('main'), label='rc', num=4, mode='tag'))
    out.append(dict(name='flags', state='moved', rules='short', branch=list('main'), dirty_flag=True))
    out.append(dict(name='flags', state='moved', rules='short', branch=list('rl/1'), no_dirty_flag=True))
    # patch numbers around the u32 boundary (SemVer output; PEP 440 cannot carry them: C07's recorded finding)
    for st in ('clean_at_tag', 'moved'):
        out.append(dict(name='big_patch', state=st, rules='short', branch=list('main'), z_range=(2**32 - 3, 2**32 + 2), fmts=('semver',)))
    # clean checkout at a pre-release tag of flow's own shapes
    for lab in ('alpha', 'beta', 'rc'):
        for b in ([list('main')] if q else [None, list('main'), list('rl/2'), list('dv')]):
            for mode in ((None,) if q else (None, 'tag', 'commit')):
                out.append(dict(name='pre_tag', state='clean_at_tag', rules='short', branch=b, mode=mode, tag_pre=(lab, True), tag_post=True))
    if not q:
        out = [dict(a, sym_xy=True) for a in out]
    else:
        out = [dict(a, hash_min=10**19) for a in out]
    for hl in ((1, 9) if q else range(1, 10)):
        out.append(dict(name='hashlen', state='moved', rules='short', branch=list('main'), hash_len=hl))
    return out
