"""C15 (decided part) — template variables agree with the rendered version; custom functions keep their contracts.
MIR of semver/pep440 core.rs accessors, template/context.rs::from_zerv, template/functions.rs."""
import os
import sys
import z3

sys.path.insert(0, os.path.dirname(os.path.dirname(os.path.abspath(__file__))))
from values import *        # noqa
import chars as C
from models import chars_of, conj
from models_json import jstr, jnum, jbool
import c06
import c10
import c11
import c16
import c17
import models_chrono as MC


def zb(c):
    return z3.BoolVal(c) if isinstance(c, bool) else c


def text_diff(w, a, b):
    return c06.text_diff(w, a, b)


def opt_chars(I, o):
    o = peel(o)
    return None if o.variant == 0 else chars_of(o.fields[0])


def recompose_semver(I, w, v):
    base = chars_of(I.call('SemVer::to_base_part', [ValPtr(v)]))
    pre = opt_chars(I, I.call('SemVer::to_pre_release_part', [ValPtr(v)]))
    build = opt_chars(I, I.call('SemVer::to_build_part', [ValPtr(v)]))
    docker = chars_of(I.call('SemVer::to_docker_format', [ValPtr(v)]))
    full = chars_of(I.call('<SemVer as ToString>::to_string', [ValPtr(v)]))
    rec = base + ([45] + pre if pre is not None else []) + ([43] + build if build is not None else [])
    return full, rec, docker


def path_semver_parts(ctx, shape):
    I, w = ctx.I, ctx.w
    a = c10.SymVer(w, I, 'a', shape)
    # number contents do not matter for recomposition: two digit-length classes per number (bound)
    for x in a.nums + [it[1] for it in (a.pre or []) + (a.build or []) if it[0] == 'u']:
        w.restrict(x, 0, 99)
    full, rec, docker = recompose_semver(I, w, a.value)
    ctx.tag('parts')
    m = text_diff(w, full, rec)
    if m is not None:
        ctx.violation(clause='semver_parts', v=a.concrete(m), detail='base_part[-pre_release_part][+build_part] != to_string', vkey='semver_parts')
    exp_docker = [45 if (isinstance(c, int) and c == 43) else c for c in full]
    # '+' only ever appears as the build separator (identifier chars are [0-9A-Za-z-]) so the literal replacement is exact
    m = text_diff(w, docker, exp_docker)
    if m is not None:
        ctx.violation(clause='docker', v=a.concrete(m), detail="docker form != SemVer string with '+' replaced by '-'", vkey='docker')
    ctx.res.witness = dict(v=a.concrete(w.get_model()))


def path_pep_parts(ctx, shape):
    I, w = ctx.I, ctx.w
    a = c11.SymPep(w, I, 'a', shape)
    # records as the parser / normalize() produce them: a present label always has its number
    w.assume(z3.Implies(a.has_pre == 1, a.has_pre_n == 1))
    w.assume(z3.Implies(a.has_post == 1, a.has_post_n == 1))
    w.assume(z3.Implies(a.has_dev == 1, a.has_dev_n == 1))
    for x in [a.epoch, a.pre_n, a.post_n, a.dev_n] + list(a.release) + [it[1] for it in (a.local or []) if it[0] == 'u']:
        w.restrict(x, 0, 99)
    v = a.value
    base = chars_of(I.call('PEP440::to_base_part', [ValPtr(v)]))
    pre = opt_chars(I, I.call('PEP440::to_pre_release_part', [ValPtr(v)]))
    build = opt_chars(I, I.call('PEP440::to_build_part', [ValPtr(v)]))
    full = chars_of(I.call('<PEP440 as ToString>::to_string', [ValPtr(v)]))
    rec = base + (pre or []) + ([43] + build if build is not None else [])
    ctx.tag('parts')
    m = text_diff(w, full, rec)
    if m is not None:
        ctx.violation(clause='pep440_parts', p=a.concrete(m), detail='base_part + pre_release_part [+ "+" + build_part] != to_string', vkey='pep440_parts')
    ctx.res.witness = dict(p=a.concrete(w.get_model()))


def path_context(ctx, arg):
    """ZervTemplateContext::from_zerv: semver / pep440 strings and scalars equal the conversions of the same Zerv"""
    I, w = ctx.I, ctx.w
    schema, cfg = arg['schema'], arg.get('cfg', {})
    core, extra, build = [[c06.comp_value(I, c) for c in part] for part in schema]
    r = I.call('ZervSchema::new', [VecObj(core), VecObj(extra), VecObj(build)])
    sv = c06.SymVars(w, I, c06.used_vars(schema), cfg)
    zerv = Adt('Zerv', 0, [r.fields[0], sv.value(I)])
    try:
        c = I.call('ZervTemplateContext::from_zerv', [ValPtr(zerv)])
        s = chars_of(I.call('<SemVer as ToString>::to_string', [ValPtr(I.call('<SemVer as From<Zerv>>::from', [deep_copy(zerv)]))]))
        p = chars_of(I.call('<PEP440 as ToString>::to_string', [ValPtr(I.call('<PEP440 as From<Zerv>>::from', [deep_copy(zerv)]))]))
    except Panic as e:
        ctx.violation(clause='panic', vars=sv.concrete(w.get_model()), detail=str(e), vkey='panic|context')
        return
    names = I.prog.fields['ZervTemplateContext']
    g = lambda n: c.fields[names.index(n)]
    ctx.tag('context')
    for nm, exp in (('semver', s), ('pep440', p)):
        m = text_diff(w, chars_of(g(nm)), exp)
        if m is not None:
            ctx.violation(clause='context_' + nm, vars=sv.concrete(m), schema=c06.schema_json(schema), detail='{{ %s }} differs from the %s rendering' % (nm, nm), vkey='context|' + nm)
    so = g('semver_obj')
    sn = I.prog.fields['SemVerContext']
    base = chars_of(so.fields[sn.index('base_part')])
    pre = opt_chars(I, so.fields[sn.index('pre_release_part')])
    bld = opt_chars(I, so.fields[sn.index('build_part')])
    rec = base + ([45] + pre if pre is not None else []) + ([43] + bld if bld is not None else [])
    m = text_diff(w, rec, s)
    if m is not None:
        ctx.violation(clause='context_semver_obj', vars=sv.concrete(m), schema=c06.schema_json(schema), detail='semver_obj parts do not recompose to {{ semver }}', vkey='context|semver_obj')
    po = g('pep440_obj')
    pn = I.prog.fields['PEP440Context']
    base = chars_of(po.fields[pn.index('base_part')])
    pre = opt_chars(I, po.fields[pn.index('pre_release_part')])
    bld = opt_chars(I, po.fields[pn.index('build_part')])
    rec = base + (pre or []) + ([43] + bld if bld is not None else [])
    m = text_diff(w, rec, p)
    if m is not None:
        ctx.violation(clause='context_pep440_obj', vars=sv.concrete(m), schema=c06.schema_json(schema), detail='pep440_obj parts do not recompose to {{ pep440 }}', vkey='context|pep440_obj')
    # scalar variables equal the Zerv variables
    from c05 import opt_mismatch
    conds = []
    for f in ('major', 'minor', 'patch', 'epoch', 'post', 'dev', 'distance'):
        if f in sv.present:
            conds.append(opt_mismatch(g(f), sv.present[f], sv.v[f]))
    if conds:
        m = w.find(z3.Or(conds))
        if m is not None:
            ctx.violation(clause='context_scalars', vars=sv.concrete(m), schema=c06.schema_json(schema), detail='a scalar template variable differs from the Zerv variable', vkey='context|scalars')


TEMPLATES = [('{{ semver }}', 'semver'), ('{{ pep440 }}', 'pep440'), ('{{ semver_obj.docker }}', 'docker'), ('v{{ semver_obj.base_part }}', 'semver_base'),
             ('{{ pep440_obj.base_part }}', 'pep440_base'), ('{{ major }}.{{ minor }}.{{ patch }}', 'scalars')]


def path_template(ctx, arg):
    """the CLI's template branch end to end: OutputFormatter::format_output(zerv, fmt, prefix, Some(Template)) through
    Template::render_string (Tera subset model, context built by the real from_zerv) against format_output without a
    template on the same object: `{{ semver }}` / `{{ pep440 }}` print what --output-format prints, docker = semver with
    `+` -> `-`, base parts are prefixes of the renderings"""
    I, w = ctx.I, ctx.w
    schema, cfg, (text, kind) = arg['schema'], arg.get('cfg', {}), arg['template']
    core, extra, build = [[c06.comp_value(I, c) for c in part] for part in schema]
    r = I.call('ZervSchema::new', [VecObj(core), VecObj(extra), VecObj(build)])
    sv = c06.SymVars(w, I, c06.used_vars(schema), cfg)
    zerv = Adt('Zerv', 0, [r.fields[0], sv.value(I)])
    tpl = I.call('Template::<std::string::String>::new', [mkstring(text)])
    try:
        ro = I.call('OutputFormatter::format_output', [ValPtr(zerv), Str([ord(c) for c in 'semver']), none(), ValPtr(some(tpl))])
        outs = {}
        for fmt in ('semver', 'pep440'):
            rf = I.call('OutputFormatter::format_output', [ValPtr(deep_copy(zerv)), Str([ord(c) for c in fmt]), none(), ValPtr(none())])
            outs[fmt] = chars_of(rf.fields[0]) if rf.variant == 0 else None
    except Panic as e:
        ctx.violation(clause='panic', vars=sv.concrete(w.get_model()), detail=str(e), vkey='panic|template')
        return
    ctx.tag('template:' + kind)
    if ro.variant != 0 or outs['semver'] is None or outs['pep440'] is None:
        if kind == 'scalars' and ro.variant != 0:
            ctx.tag('template_error')          # an absent scalar is null in the context: nothing to compare
            return
        ctx.violation(clause='template_output', template=text, vars=sv.concrete(w.get_model()), schema=c06.schema_json(schema), detail='format_output failed with template %r' % text, vkey='template|failed|' + kind)
        return
    out = chars_of(ro.fields[0])
    m = None
    if kind in ('semver', 'pep440'):
        m = text_diff(w, out, outs[kind])
    elif kind == 'docker':
        exp = [c if isinstance(c, int) and c != 43 else (45 if isinstance(c, int) else z3.If(c == 43, 45, c)) for c in outs['semver']]
        m = text_diff(w, out, exp)
    elif kind == 'semver_base':
        full = [118] + outs['semver']
        m = w.get_model() if len(out) > len(full) else text_diff(w, out, full[:len(out)])
    elif kind == 'pep440_base':
        full = outs['pep440']
        m = w.get_model() if len(out) > len(full) else text_diff(w, out, full[:len(out)])
    else:
        ctx.tag('same_output')
        return
    if m is not None:
        ctx.violation(clause='template_output', template=text, vars=sv.concrete(m), schema=c06.schema_json(schema), detail='template %r prints %r; --output-format semver prints %r, pep440 %r' % (text, c06.mstr(m, out), c06.mstr(m, outs['semver']), c06.mstr(m, outs['pep440'])), vkey='template|' + kind)
    else:
        ctx.tag('same_output')


# ------------------------------------------------------------------ functions
def call_fn(I, name, entries):
    args = MapObj([(mkstring(k), v) for k, v in entries], 'HashMap')
    return I.call(name, [ValPtr(args)])


def sym_text(w, n, tag='v', alphabet=None):
    cs = [w.fresh_int('%s%d' % (tag, i)) for i in range(n)]
    for c in cs:
        w.assume(C.domain(c, alphabet=alphabet))
    return cs


def mvals(m, cs):
    return [m.eval(c, model_completion=True).as_long() if not isinstance(c, int) else c for c in cs]


def path_fn(ctx, arg):
    I, w = ctx.I, ctx.w
    kind = arg[0]

    def viol(clause, m, detail, **kw):
        ctx.violation(clause=clause, fn=kind, arg=list(arg), detail=detail, vkey='%s|%s' % (clause, kind), **kw)
    try:
        if kind == 'prefix':
            _, n, length = arg
            cs = sym_text(w, n)
            r = call_fn(I, 'prefix_function', [('value', jstr(cs)), ('length', jnum(length))])
            out = chars_of(r.fields[0].fields[0])
            ctx.tag('fn_returned')
            # at most `length` characters, and a prefix of the value
            if len(out) > length or len(out) > len(cs):
                viol('prefix', w.get_model(), 'prefix longer than length', value=mvals(w.get_model(), cs))
            else:
                m = text_diff(w, out, cs[:len(out)])
                if m is not None:
                    viol('prefix', m, 'not a prefix of the value', value=mvals(m, cs))
                # when the value has at least `length` characters that fit, the whole allowance is used for ASCII
                if len(out) < min(length, len(cs)):
                    m = w.find(z3.And([c < 128 for c in cs]))
                    if m is not None:
                        viol('prefix', m, 'prefix shorter than min(length, len) on ASCII input', value=mvals(m, cs))
        elif kind == 'prefix_if':
            _, n, pn = arg
            cs = sym_text(w, n)
            ps = sym_text(w, pn, 'p')
            r = call_fn(I, 'prefix_if_function', [('value', jstr(cs)), ('prefix', jstr(ps))])
            out = chars_of(r.fields[0].fields[0])
            ctx.tag('fn_returned')
            exp = (ps + cs) if cs else []
            m = text_diff(w, out, exp)
            if m is not None:
                viol('prefix_if', m, 'prefix_if must add the prefix exactly when the value is non-empty', value=mvals(m, cs))
        elif kind == 'hash':
            _, n, length = arg
            cs = sym_text(w, n)
            r = call_fn(I, 'hash_function', [('value', jstr(cs))] + ([('length', jnum(length))] if length is not None else []))
            out = chars_of(r.fields[0].fields[0])
            ctx.tag('fn_returned')
            L = 7 if length is None else length
            if len(out) > L:
                viol('hash', w.get_model(), 'hash longer than length', value=mvals(w.get_model(), cs))
            bad = [z3.Not(z3.Or(z3.And(c >= 48, c <= 57), z3.And(c >= 97, c <= 102))) for c in out if not isinstance(c, int)]
            if bad:
                m = w.find(z3.Or(bad))
                if m is not None:
                    viol('hash', m, 'hash is not lower-case hex', value=mvals(m, cs))
        elif kind == 'sanitize':
            _, n, cfgname = arg
            cs = sym_text(w, n)
            entries = [('value', jstr(cs))]
            presets = {'dotted': ('.', False), 'semver': ('.', False), 'semver_str': ('.', False), 'pep440': ('.', True),
                       'lower_dotted': ('.', True), 'pep440_local_str': ('.', True), 'default': ('.', False)}
            if cfgname in presets:
                if cfgname != 'default':
                    entries.append(('preset', jstr([ord(c) for c in cfgname])))
                sep, lower, keep = presets[cfgname][0], presets[cfgname][1], False
            else:
                sep, lower, keep = cfgname
                entries += [('separator', jstr([ord(sep)])), ('lowercase', jbool(lower)), ('keep_zeros', jbool(keep))]
            r = call_fn(I, 'sanitize_function', entries)
            out = chars_of(r.fields[0].fields[0])
            ctx.tag('fn_returned')
            runs = c16.ref_runs(w, cs, lower, keep)
            exp = []
            for k, rn in enumerate(runs):
                if k:
                    exp.append(ord(sep))
                exp += rn
            m = text_diff(w, out, exp)
            if m is not None:
                viol('sanitize', m, 'sanitize(...) differs from the sanitiser contract for %r' % (cfgname,), value=mvals(m, cs))
        elif kind == 'format_timestamp':
            _, fmt, toks = arg
            ts = w.fresh_int('ts', 0, MC.END_2199 - 1)
            entries = [('value', jnum(ts))] + ([('format', jstr([ord(c) for c in fmt]))] if fmt is not None else [])
            r = call_fn(I, 'format_timestamp_function', entries)
            out = chars_of(r.fields[0].fields[0])
            ctx.tag('fn_returned')
            exp = []
            for t in toks:
                exp += [ord(t)] if len(t) == 1 else c17.expected_chars(w, ts, [t])
            m = text_diff(w, out, exp)
            if m is not None:
                viol('format_timestamp', m, 'format_timestamp differs from UTC calendar formatting', ts=m.eval(ts, model_completion=True).as_long())
    except Panic as e:
        m = w.get_model()
        vals = [m.eval(z3.Int('v%d!%d' % (i, i + 1)), model_completion=True).as_long() for i in range(arg[1])] if kind in ('prefix', 'prefix_if', 'hash', 'sanitize') and isinstance(arg[1], int) else []
        viol('panic', m, str(e), value=vals)
        ctx.tag('panic')


def fn_args(tier):
    q = tier == 'quick'
    out = []
    for n in ((0, 1, 2, 3) if q else (0, 1, 2, 3, 4)):
        for length in (0, 1, 2, 5):
            out.append(('prefix', n, length))
    for n in (0, 1, 2):
        for pn in (0, 1, 2):
            out.append(('prefix_if', n, pn))
    for n in (0, 1, 2):
        for length in (None, 1, 7, 16, 20):
            out.append(('hash', n, length))
    for cfgname in ('dotted', 'semver', 'semver_str', 'pep440', 'lower_dotted', 'pep440_local_str', 'default', ('-', True, False), ('_', False, True)):
        for n in ((0, 1, 2, 3) if q else (0, 1, 2, 3, 4)):
            out.append(('sanitize', n, cfgname))
    out += [('format_timestamp', None, ['YYYY', '-', '0M', '-', '0D']), ('format_timestamp', '%Y%m%d', ['YYYY', '0M', '0D']),
            ('format_timestamp', 'compact_date', ['YYYY', '0M', '0D']), ('format_timestamp', 'compact_datetime', ['YYYY', '0M', '0D', '0H', '0m', '0S']),
            ('format_timestamp', '%H:%M:%S', ['0H', ':', '0m', ':', '0S']), ('format_timestamp', '%y.%-m.%-d', ['YY', '.', 'MM', '.', 'DD'])]
    return out
