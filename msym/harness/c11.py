"""C11 — PEP 440 comparison is a total order on the documented key (MIR of src/version/pep440/ordering.rs)."""
import itertools
import os
import sys
import z3

sys.path.insert(0, os.path.dirname(os.path.dirname(os.path.abspath(__file__))))
from values import *        # noqa
from models import conj, disj

U32 = 2**32 - 1
LABELS = ['Alpha', 'Beta', 'Rc']


def seg_char_ok(c):
    return z3.Or(z3.And(c >= 48, c <= 57), z3.And(c >= 97, c <= 122))


class SymPep:
    """symbolic PEP440 record: optional parts have *symbolic presence* (Option with a symbolic discriminant)"""

    def __init__(self, w, I, tag, shape):
        rel_len, local_shape = shape
        vi = I.prog.variant_index
        self.epoch = w.fresh_int(tag + '_epoch', 0, U32)
        self.release = [w.fresh_int('%s_r%d' % (tag, i), 0, U32) for i in range(rel_len)]
        self.has_pre = w.fresh_int(tag + '_haspre', 0, 1)
        self.label = w.fresh_int(tag + '_label', 0, 2)          # discriminant of PreReleaseLabel
        self.has_pre_n = w.fresh_int(tag + '_hasprn', 0, 1)
        self.pre_n = w.fresh_int(tag + '_pren', 0, U32)
        self.has_post = w.fresh_int(tag + '_haspost', 0, 1)
        self.has_post_n = w.fresh_int(tag + '_haspostn', 0, 1)
        self.post_n = w.fresh_int(tag + '_postn', 0, U32)
        self.has_dev = w.fresh_int(tag + '_hasdev', 0, 1)
        self.has_dev_n = w.fresh_int(tag + '_hasdevn', 0, 1)
        self.dev_n = w.fresh_int(tag + '_devn', 0, U32)
        assert [vi('PreReleaseLabel', x) for x in LABELS] == [0, 1, 2]
        # numbers only exist together with their label (what the parser and normalize() produce)
        w.assume(z3.Implies(self.has_pre == 0, self.has_pre_n == 0))
        w.assume(z3.Implies(self.has_post == 0, self.has_post_n == 0))
        w.assume(z3.Implies(self.has_dev == 0, self.has_dev_n == 0))
        self.local = None
        if local_shape is not None:
            self.local = []
            for i, k in enumerate(local_shape):
                if k == 0:
                    self.local.append(('u', w.fresh_int('%s_l%d' % (tag, i), 0, U32)))
                else:
                    cs = [w.fresh_int('%s_l%d_c%d' % (tag, i, j)) for j in range(k)]
                    for c in cs:
                        w.assume(seg_char_ok(c))
                    w.assume(z3.Not(z3.And([z3.And(c >= 48, c <= 57) for c in cs])))
                    self.local.append(('s', cs))

        def seg(it):
            if it[0] == 'u':
                return Adt('LocalSegment', vi('LocalSegment', 'UInt'), [it[1]])
            return Adt('LocalSegment', vi('LocalSegment', 'Str'), [StringObj(it[1])])
        self.value = Adt('PEP440', 0, [
            self.epoch, VecObj(list(self.release)),
            Adt('Option', self.has_pre, [Adt('PreReleaseLabel', self.label, [])]),
            Adt('Option', self.has_pre_n, [self.pre_n]),
            Adt('Option', self.has_post, [Adt('PostLabel', 0, [])]),
            Adt('Option', self.has_post_n, [self.post_n]),
            Adt('Option', self.has_dev, [Adt('DevLabel', 0, [])]),
            Adt('Option', self.has_dev_n, [self.dev_n]),
            none() if self.local is None else some(VecObj([seg(x) for x in self.local]))])

    def concrete(self, m):
        def ev(x):
            return m.eval(x, model_completion=True).as_long()
        hp, hpo, hd = ev(self.has_pre), ev(self.has_post), ev(self.has_dev)
        return dict(epoch=ev(self.epoch), release=[ev(x) for x in self.release],
                    pre_label=['a', 'b', 'rc'][ev(self.label)] if hp else None,
                    pre_number=ev(self.pre_n) if hp and ev(self.has_pre_n) else None,
                    post_label=bool(hpo), post_number=ev(self.post_n) if hpo and ev(self.has_post_n) else None,
                    dev_label=bool(hd), dev_number=ev(self.dev_n) if hd and ev(self.has_dev_n) else None,
                    local=None if self.local is None else [({'u': ev(x[1])} if x[0] == 'u' else {'s': [ev(c) for c in x[1]]})
                                                           for x in self.local])


# ------------------------------------------------------------------ oracle: the lexicographic key of the statement
def o_num(a, b):
    return z3.If(a < b, -1, z3.If(a > b, 1, 0))


def o_then(first, second):
    return z3.If(first != 0, first, second)


def o_chain(parts):
    e = z3.IntVal(0)
    for p in reversed(parts):
        e = o_then(p, e)
    return e


def o_str(a, b):
    e = z3.IntVal((len(a) > len(b)) - (len(a) < len(b)))
    for x, y in reversed(list(zip(a, b))):
        e = z3.If(x < y, -1, z3.If(x > y, 1, e))
    return e


def o_seg(x, y):
    if x[0] == 'u' and y[0] == 'u':
        return o_num(x[1], y[1])
    if x[0] == 's' and y[0] == 's':
        return o_str(x[1], y[1])
    return z3.IntVal(-1 if x[0] == 'u' else 1)


def o_local(p, q):
    if p is None and q is None:
        return z3.IntVal(0)
    if p is None:
        return z3.IntVal(-1)
    if q is None:
        return z3.IntVal(1)
    e = z3.IntVal((len(p) > len(q)) - (len(p) < len(q)))
    for x, y in reversed(list(zip(p, q))):
        e = o_then(o_seg(x, y), e)
    return e


def oracle(a, b):
    n = max(len(a.release), len(b.release))
    ra = list(a.release) + [0] * (n - len(a.release))
    rb = list(b.release) + [0] * (n - len(b.release))
    parts = [o_num(a.epoch, b.epoch)] + [o_num(x, y) for x, y in zip(ra, rb)]
    # pre-release phase a < b < rc < none, then number (implicit 0)
    pha = z3.If(a.has_pre == 1, a.label, 3)
    phb = z3.If(b.has_pre == 1, b.label, 3)
    parts.append(o_num(pha, phb))
    parts.append(o_num(z3.If(z3.And(a.has_pre == 1, a.has_pre_n == 1), a.pre_n, 0),
                       z3.If(z3.And(b.has_pre == 1, b.has_pre_n == 1), b.pre_n, 0)))
    # post: none lowest
    parts.append(o_num(a.has_post, b.has_post))
    parts.append(o_num(z3.If(z3.And(a.has_post == 1, a.has_post_n == 1), a.post_n, 0),
                       z3.If(z3.And(b.has_post == 1, b.has_post_n == 1), b.post_n, 0)))
    # dev: none highest
    parts.append(o_num(1 - a.has_dev, 1 - b.has_dev))
    parts.append(o_num(z3.If(z3.And(a.has_dev == 1, a.has_dev_n == 1), a.dev_n, 0),
                       z3.If(z3.And(b.has_dev == 1, b.has_dev_n == 1), b.dev_n, 0)))
    parts.append(o_local(a.local, b.local))
    return o_chain(parts)


def as_expr(v):
    return z3.IntVal(v) if isinstance(v, int) else v


def boolv(x):
    return z3.BoolVal(x) if isinstance(x, bool) else x


def path_pair(ctx, arg):
    I, w = ctx.I, ctx.w
    sa, sb = arg
    a = SymPep(w, I, 'a', sa)
    b = SymPep(w, I, 'b', sb)
    orc = oracle(a, b)
    pa, pb = ValPtr(a.value), ValPtr(b.value)
    r_ab = I.call('<PEP440 as Ord>::cmp', [pa, pb]).variant
    r_ba = I.call('<PEP440 as Ord>::cmp', [pb, pa]).variant
    eq = I.call('<PEP440 as PartialEq>::eq', [pa, pb])
    ctx.tag('cmp_returned')
    obligations = [
        ('cmp_vs_key', as_expr(r_ab) != orc, 'cmp(a,b) differs from the documented lexicographic key'),
        ('antisymmetry', as_expr(r_ab) != -as_expr(r_ba), 'cmp(b,a) != reverse of cmp(a,b)'),
        ('eq_consistency', boolv(eq) != (as_expr(r_ab) == 0), 'a == b disagrees with cmp(a,b) == Equal'),
    ]
    m0 = w.get_model()
    ctx.res.witness = dict(a=a.concrete(m0), b=b.concrete(m0))
    for v in (-1, 0, 1):
        if w.feasible(orc == v):
            ctx.tag('oracle%+d' % v)
    if w.find(z3.Or([c for _, c, _ in obligations])) is None:
        return
    for name, cond, detail in obligations:
        m = w.find(cond)
        if m is not None:
            ctx.violation(clause=name, a=a.concrete(m), b=b.concrete(m), detail=detail, vkey=name)


def path_triple(ctx, arg):
    I, w = ctx.I, ctx.w
    sa, sb, sc = arg
    a = SymPep(w, I, 'a', sa)
    b = SymPep(w, I, 'b', sb)
    c = SymPep(w, I, 'c', sc)
    pa, pb, pc = ValPtr(a.value), ValPtr(b.value), ValPtr(c.value)
    ab = as_expr(I.call('<PEP440 as Ord>::cmp', [pa, pb]).variant)
    bc = as_expr(I.call('<PEP440 as Ord>::cmp', [pb, pc]).variant)
    ac = as_expr(I.call('<PEP440 as Ord>::cmp', [pa, pc]).variant)
    ctx.tag('cmp_returned')
    bad = z3.Or(z3.And(ab <= 0, bc <= 0, ac > 0), z3.And(ab >= 0, bc >= 0, ac < 0),
                z3.And(ab == 0, bc == 0, ac != 0), z3.And(ab <= 0, bc <= 0, z3.Or(ab < 0, bc < 0), ac >= 0))
    m0 = w.get_model()
    ctx.res.witness = dict(a=a.concrete(m0), b=b.concrete(m0), c=c.concrete(m0))
    m = w.find(bad)
    if m is not None:
        ctx.violation(clause='transitivity', a=a.concrete(m), b=b.concrete(m), c=c.concrete(m),
                      detail='order is not transitive', vkey='transitivity')


def local_shapes(max_segs, max_len):
    kinds = list(range(0, max_len + 1))
    out = [None]
    for n in range(1, max_segs + 1):
        out += [tuple(x) for x in itertools.product(kinds, repeat=n)]
    return out


# ------------------------------------------------------------------ concrete oracle (replay side)
def c_key(v):
    ph = {'a': 0, 'b': 1, 'rc': 2, None: 3}[v['pre_label']]
    return (v['epoch'], ph, v['pre_number'] or 0, 1 if v['post_label'] else 0, v['post_number'] or 0,
            0 if v['dev_label'] else 1, v['dev_number'] or 0)


def c_seg(x, y):
    if 'u' in x and 'u' in y:
        return (x['u'] > y['u']) - (x['u'] < y['u'])
    if 's' in x and 's' in y:
        return (x['s'] > y['s']) - (x['s'] < y['s'])
    return -1 if 'u' in x else 1


def c_oracle(a, b):
    if a['epoch'] != b['epoch']:
        return -1 if a['epoch'] < b['epoch'] else 1
    n = max(len(a['release']), len(b['release']))
    ra = a['release'] + [0] * (n - len(a['release']))
    rb = b['release'] + [0] * (n - len(b['release']))
    if ra != rb:
        return -1 if ra < rb else 1
    ka, kb = c_key(a)[1:], c_key(b)[1:]
    if ka != kb:
        return -1 if ka < kb else 1
    p, q = a['local'], b['local']
    if p is None and q is None:
        return 0
    if p is None:
        return -1
    if q is None:
        return 1
    for x, y in zip(p, q):
        r = c_seg(x, y)
        if r:
            return r
    return (len(p) > len(q)) - (len(p) < len(q))
