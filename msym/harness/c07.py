"""C07 — format conversion is faithful (MIR of semver/pep440 to_zerv + from_zerv)."""
import itertools
import os
import sys
import z3

sys.path.insert(0, os.path.dirname(os.path.dirname(os.path.abspath(__file__))))
from values import *        # noqa
from models import conj, disj, chars_of

U64 = 2**64 - 1
U32 = 2**32 - 1
LABELS = {'alpha': 'Alpha', 'beta': 'Beta', 'rc': 'Rc'}


def mk_ident(I, enum, it):
    vi = I.prog.variant_index
    if it[0] == 'u':
        return Adt(enum, vi(enum, 'UInt'), [it[1]])
    return Adt(enum, vi(enum, 'Str'), [StringObj(it[1])])


class CanonSemVer:
    """canonical-shape SemVer X.Y.Z[-[epoch.E.][label.N.][post.P.][dev.D]][+ids], numbers symbolic"""

    def __init__(self, w, I, shape, hi=U64, big=None, small=9, rng=None):
        has_epoch, label, has_post, has_dev, build_shape = shape
        self.shape = shape
        self._k = 0

        def num(tag, lo=0):
            # exactly one designated number ranges over the whole machine range; the others stay small (stated bound)
            is_big = (big is None or self._k == big) and big != 'none'
            h = hi if is_big else small
            # when one number is designated, the others are small and non-zero (zero is covered by the all-small family)
            l = lo if (is_big or big == 'none') else max(lo, 1)
            if is_big and rng is not None:
                l, h = max(l, rng[0]), min(h, rng[1])
            self._k += 1
            return w.fresh_int(tag, l, h)
        self.nums = [num('n%d' % i) for i in range(3)]
        self.epoch = num('epoch', 1) if has_epoch else None
        self.label = label
        self.pre_n = num('pre_n') if label else None
        self.post = num('post') if has_post else None
        self.dev = num('dev') if has_dev else None
        pre = []
        if has_epoch:
            pre += [('s', [ord(c) for c in 'epoch']), ('u', self.epoch)]
        if label:
            pre += [('s', [ord(c) for c in label]), ('u', self.pre_n)]
        if has_post:
            pre += [('s', [ord(c) for c in 'post']), ('u', self.post)]
        if has_dev:
            pre += [('s', [ord(c) for c in 'dev']), ('u', self.dev)]
        self.pre = pre or None
        self.build = None
        if build_shape is not None:
            self.build = []
            for i, k in enumerate(build_shape):
                if k == 0:
                    self.build.append(('u', num('b%d' % i)))
                else:
                    cs = [w.fresh_int('b%d_c%d' % (i, j)) for j in range(k)]
                    for c in cs:
                        w.assume(z3.Or(z3.And(c >= 48, c <= 57), z3.And(c >= 97, c <= 122)))
                    # lower-case alphanumerics, not purely numeric (so: no leading-zero numeric reading)
                    w.assume(z3.Not(z3.And([z3.And(c >= 48, c <= 57) for c in cs])))
                    self.build.append(('s', cs))
        self.value = self.make(I)
        self.all_nums = [x for x in self.nums + [self.epoch, self.pre_n, self.post, self.dev] if x is not None] + \
                        [b[1] for b in (self.build or []) if b[0] == 'u']

    def make(self, I):
        return Adt('SemVer', 0, [self.nums[0], self.nums[1], self.nums[2],
                                 none() if self.pre is None else some(VecObj([mk_ident(I, 'PreReleaseIdentifier', x) for x in self.pre])),
                                 none() if self.build is None else some(VecObj([mk_ident(I, 'BuildMetadata', x) for x in self.build]))])

    def concrete(self, m):
        def ev(x):
            return m.eval(x, model_completion=True).as_long()

        def cid(it):
            return {'u': ev(it[1])} if it[0] == 'u' else {'s': [ev(c) if not isinstance(c, int) else c for c in it[1]]}
        return dict(major=ev(self.nums[0]), minor=ev(self.nums[1]), patch=ev(self.nums[2]),
                    pre=None if self.pre is None else [cid(x) for x in self.pre],
                    build=None if self.build is None else [cid(x) for x in self.build])


def ident_diff(I, got, exp_items, enum):
    """condition: the Vec<enum> `got` differs from the expected item list (list of ('u',v)|('s',chars))"""
    vi = I.prog.variant_index
    items = peel(got).items
    if len(items) != len(exp_items):
        return True
    conds = []
    for g, e in zip(items, exp_items):
        g = peel(g)
        is_u = g.variant == vi(enum, 'UInt')
        if not is_u and e[0] == 'u' and enum == 'LocalSegment':
            # a numeric local id above u32 is kept as the same digits in a string segment (prints identically): only a
            # string for a number that fits, or different digits, is a difference
            from models_fmt import int_to_chars
            gc = chars_of(g.fields[0])
            ec = int_to_chars(I, e[1])
            if len(gc) != len(ec):
                return True
            conds.append(z3.Or([e[1] <= U32] + [a != b for a, b in zip(gc, ec) if not (isinstance(a, int) and isinstance(b, int) and a == b)]))
            continue
        if is_u != (e[0] == 'u'):
            return True
        if is_u:
            conds.append(g.fields[0] != e[1])
        else:
            gc = chars_of(g.fields[0])
            if len(gc) != len(e[1]):
                return True
            conds += [a != b for a, b in zip(gc, e[1]) if not (isinstance(a, int) and isinstance(b, int) and a == b)]
    conds = [c for c in conds if c is not False]
    if any(c is True for c in conds):
        return True
    return z3.Or(conds) if conds else False


def opt_list_diff(I, got_opt, exp_items, enum):
    g = peel(got_opt)
    if (g.variant == 1) != (exp_items is not None):
        return True
    if exp_items is None:
        return False
    return ident_diff(I, g.fields[0], exp_items, enum)


def semver_diff(I, got, orig):
    """condition for the SemVer record `got` to differ from the symbolic original"""
    got = peel(got)
    conds = [got.fields[i] != orig.nums[i] for i in range(3)]
    for c in (opt_list_diff(I, got.fields[3], orig.pre, 'PreReleaseIdentifier'),
              opt_list_diff(I, got.fields[4], orig.build, 'BuildMetadata')):
        if c is True:
            return True
        if c is not False:
            conds.append(c)
    conds = [c for c in conds if not (isinstance(c, bool) and not c)]
    return z3.Or(conds) if conds else False


def opt_num_diff(o, exp):
    """Option<num> vs expected (None or term)"""
    o = peel(o)
    if isinstance(o.variant, int):
        if (o.variant == 1) != (exp is not None):
            return True
        return False if exp is None else (o.fields[0] != exp)
    if exp is None:
        return o.variant != 0
    return z3.Or(o.variant != 1, o.fields[0] != exp)


def pep_diff(I, p, orig):
    """PEP440 built from a canonical SemVer must be [E!]X.Y.Z[{a|b|rc}N][.postP][.devD][+ids]"""
    p = peel(p)
    vi = I.prog.variant_index
    conds = []
    conds.append(p.fields[0] != (orig.epoch if orig.epoch is not None else 0))
    rel = peel(p.fields[1]).items
    if len(rel) != 3:
        return True
    conds += [rel[i] != orig.nums[i] for i in range(3)]
    pl = peel(p.fields[2])
    if (pl.variant == 1) != bool(orig.label):
        return True
    if orig.label:
        lab = peel(pl.fields[0])
        if lab.variant != vi('PreReleaseLabel', LABELS[orig.label]):
            return True
    conds.append(opt_num_diff(p.fields[3], orig.pre_n))
    if (peel(p.fields[4]).variant == 1) != (orig.post is not None):
        return True
    conds.append(opt_num_diff(p.fields[5], orig.post))
    if (peel(p.fields[6]).variant == 1) != (orig.dev is not None):
        return True
    conds.append(opt_num_diff(p.fields[7], orig.dev))
    c = opt_list_diff(I, p.fields[8], orig.build, 'LocalSegment')
    conds.append(c)
    if any(c is True for c in conds):
        return True
    conds = [c for c in conds if c is not False]
    return z3.Or(conds) if conds else False


def zb(c):
    return z3.BoolVal(c) if isinstance(c, bool) else c


def path_semver(ctx, arg):
    I, w = ctx.I, ctx.w
    shape, mode, big, small, rng = arg
    a = CanonSemVer(w, I, shape, U64, big, small, rng)
    fname = 'shape=%r' % (shape,)

    def viol(clause, cond, detail):
        if cond is False:
            return
        m = w.find(zb(cond))
        if m is not None:
            ctx.violation(clause=clause, a=a.concrete(m), detail=detail, vkey=clause)

    def call(name, args, what):
        try:
            return I.call(name, args)
        except Panic as e:
            ctx.violation(clause='panic', a=a.concrete(w.get_model()), detail='%s: %s' % (what, e), vkey='panic|' + what)
            ctx.tag('panic')
            raise PathAbort()
    z = call('<Zerv as From<SemVer>>::from', [deep_copy(a.value)], 'Zerv::from(SemVer)')
    back = call('<SemVer as From<Zerv>>::from', [deep_copy(z)], 'SemVer::from(Zerv)')
    ctx.tag('converted')
    ctx.res.witness = dict(a=a.concrete(w.get_model()), shape=list(map(str, shape)))
    def printed(v):
        return chars_of(I.call('<SemVer as ToString>::to_string', [ValPtr(v)]))

    def text_diff(x, y):
        if len(x) != len(y):
            return True
        ds = [p != q for p, q in zip(x, y) if not (isinstance(p, int) and isinstance(q, int) and p == q)]
        ds = [d for d in ds if d is not False]
        if any(d is True for d in ds):
            return True
        return z3.Or(ds) if ds else False
    orig_text = printed(a.value)
    viol('semver_identity', text_diff(printed(back), orig_text), 'SemVer -> Zerv -> SemVer prints a different version')
    if mode == 'semver_only':
        return
    # PEP 440 leg: exact fields when everything fits in u32; never a silently different number otherwise
    p = call('<PEP440 as From<Zerv>>::from', [deep_copy(z)], 'PEP440::from(Zerv)')
    fits = z3.And([x <= U32 for x in a.all_nums])
    d = pep_diff(I, p, a)
    viol('pep440_fields', z3.And(fits, zb(d)), 'SemVer -> PEP 440 does not have the stated fields')
    viol('silent_number_change', z3.And(z3.Not(fits), zb(d)), 'a number above 2^32-1 was not rejected but moved/replaced')
    # and back: PEP440 -> Zerv -> SemVer == original (claimed for the u32 range)
    if w.feasible(fits):
        w2 = w
        z2 = call('<Zerv as From<PEP440>>::from', [deep_copy(p)], 'Zerv::from(PEP440)')
        back2 = call('<SemVer as From<Zerv>>::from', [z2], 'SemVer::from(Zerv from PEP440)')
        # the SemVer rendering of a PEP 440 version spells the epoch even when canonical shape has none: compare through shape
        viol('pep440_roundtrip', z3.And(fits, zb(text_diff(printed(back2), orig_text))), 'SemVer -> PEP 440 -> SemVer prints a different version')
        ctx.tag('roundtrip')


class SymPep3:
    """PEP 440 version with <= 3 release numbers, all parts optional, numbers any u32"""

    def __init__(self, w, I, shape, big=None, small=9, rng=None):
        rel_len, has_epoch, label, has_post, has_dev, local_shape = shape
        vi = I.prog.variant_index
        self._k = 0

        def num(tag, lo=0):
            is_big = (big is None or self._k == big) and big != 'none'
            h = U32 if is_big else small
            l = lo if (is_big or big == 'none') else max(lo, 1)
            if is_big and rng is not None:
                l, h = max(l, rng[0]), min(h, rng[1])
            self._k += 1
            return w.fresh_int(tag, l, h)
        self.epoch = num('epoch', 1) if has_epoch else 0
        self.release = [num('r%d' % i) for i in range(rel_len)]
        self.label = label
        self.pre_n = num('pre_n') if label else None
        self.post = num('post') if has_post else None
        self.dev = num('dev') if has_dev else None
        self.local = None
        if local_shape is not None:
            self.local = []
            for i, k in enumerate(local_shape):
                if k == 0:
                    self.local.append(('u', num('l%d' % i)))
                else:
                    cs = [w.fresh_int('l%d_c%d' % (i, j)) for j in range(k)]
                    for c in cs:
                        w.assume(z3.Or(z3.And(c >= 48, c <= 57), z3.And(c >= 97, c <= 122)))
                    w.assume(z3.Not(z3.And([z3.And(c >= 48, c <= 57) for c in cs])))
                    self.local.append(('s', cs))

        def opt(x):
            return none() if x is None else some(x)
        self.value = Adt('PEP440', 0, [
            self.epoch, VecObj(list(self.release)),
            opt(Adt('PreReleaseLabel', vi('PreReleaseLabel', LABELS[label]), []) if label else None), opt(self.pre_n),
            opt(Adt('PostLabel', 0, []) if has_post else None), opt(self.post),
            opt(Adt('DevLabel', 0, []) if has_dev else None), opt(self.dev),
            opt(None if self.local is None else VecObj([mk_ident(I, 'LocalSegment', x) for x in self.local]))])

    def concrete(self, m):
        def ev(x):
            return x if isinstance(x, int) else m.eval(x, model_completion=True).as_long()
        return dict(epoch=ev(self.epoch), release=[ev(x) for x in self.release],
                    pre_label={'alpha': 'a', 'beta': 'b', 'rc': 'rc', None: None}[self.label],
                    pre_number=None if self.pre_n is None else ev(self.pre_n), post_label=self.post is not None,
                    post_number=None if self.post is None else ev(self.post), dev_label=self.dev is not None,
                    dev_number=None if self.dev is None else ev(self.dev),
                    local=None if self.local is None else [({'u': ev(x[1])} if x[0] == 'u' else {'s': [ev(c) for c in x[1]]}) for x in self.local])


def path_pep(ctx, arg):
    """any PEP 440 version with at most three release numbers converts to SemVer and back to an equal version"""
    I, w = ctx.I, ctx.w
    shape, big, small, rng = arg
    a = SymPep3(w, I, shape, big, small, rng)

    def call(name, args, what):
        try:
            return I.call(name, args)
        except Panic as e:
            ctx.violation(clause='panic', p=a.concrete(w.get_model()), detail='%s: %s' % (what, e), vkey='panic|' + what)
            ctx.tag('panic')
            raise PathAbort()
    z = call('<Zerv as From<PEP440>>::from', [deep_copy(a.value)], 'Zerv::from(PEP440)')
    sv = call('<SemVer as From<Zerv>>::from', [z], 'SemVer::from(Zerv)')
    z2 = call('<Zerv as From<SemVer>>::from', [deep_copy(sv)], 'Zerv::from(SemVer)')
    back = call('<PEP440 as From<Zerv>>::from', [z2], 'PEP440::from(Zerv)')
    ctx.tag('converted')
    ctx.res.witness = dict(p=a.concrete(w.get_model()))
    o = I.call('<PEP440 as Ord>::cmp', [ValPtr(a.value), ValPtr(back)]).variant
    e = I.call('<PEP440 as PartialEq>::eq', [ValPtr(a.value), ValPtr(back)])
    s1 = chars_of(I.call('<PEP440 as ToString>::to_string', [ValPtr(a.value)]))
    s2 = chars_of(I.call('<PEP440 as ToString>::to_string', [ValPtr(back)]))
    # "an equal PEP 440 version": equality under the real ordering (1.1 and 1.1.0 print differently and are equal)
    conds = [zb(o != 0) if not isinstance(o, int) else z3.BoolVal(o != 0), z3.Not(e) if not isinstance(e, bool) else z3.BoolVal(not e)]
    m = w.find(z3.Or(conds))
    if m is not None:
        ctx.violation(clause='pep440_via_semver', p=a.concrete(m), detail='PEP 440 -> SemVer -> PEP 440 is not equal / prints differently',
                      vkey='pep440_via_semver')
    # fixed point of the SemVer rendering: converting the SemVer again gives the same SemVer
    sv2 = call('<SemVer as From<Zerv>>::from', [call('<Zerv as From<SemVer>>::from', [deep_copy(sv)], 'Zerv::from(SemVer)')], 'SemVer::from')
    t1 = chars_of(I.call('<SemVer as ToString>::to_string', [ValPtr(sv)]))
    t2 = chars_of(I.call('<SemVer as ToString>::to_string', [ValPtr(sv2)]))
    if len(t1) != len(t2):
        ctx.violation(clause='semver_rendering_fixed_point', p=a.concrete(w.get_model()), detail='re-conversion changes the SemVer rendering', vkey='fixed_point')
    else:
        ds = [zb(x != y) for x, y in zip(t1, t2) if not (isinstance(x, int) and isinstance(y, int) and x == y)]
        if ds:
            m = w.find(z3.Or(ds))
            if m is not None:
                ctx.violation(clause='semver_rendering_fixed_point', p=a.concrete(m), detail='re-conversion changes the SemVer rendering', vkey='fixed_point')


def semver_shapes(build_shapes):
    out = []
    for e in (False, True):
        for lab in (None, 'alpha', 'beta', 'rc'):
            for po in (False, True):
                for de in (False, True):
                    for b in build_shapes:
                        out.append((e, lab, po, de, b))
    return out


def pep_shapes(local_shapes, rels=(1, 2, 3)):
    out = []
    for r in rels:
        for e in (False, True):
            for lab in (None, 'alpha', 'beta', 'rc'):
                for po in (False, True):
                    for de in (False, True):
                        for l in local_shapes:
                            out.append((r, e, lab, po, de, l))
    return out


def count_numbers_semver(shape):
    has_epoch, label, has_post, has_dev, build_shape = shape
    return 3 + int(has_epoch) + int(bool(label)) + int(has_post) + int(has_dev) + sum(1 for k in (build_shape or ()) if k == 0)


def count_numbers_pep(shape):
    rel_len, has_epoch, label, has_post, has_dev, local_shape = shape
    return rel_len + int(has_epoch) + int(bool(label)) + int(has_post) + int(has_dev) + sum(1 for k in (local_shape or ()) if k == 0)
