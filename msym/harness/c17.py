"""C17 — timestamp patterns are the UTC calendar fields (MIR of src/version/zerv/utils/timestamp.rs + validation)."""
import os
import sys
import z3

sys.path.insert(0, os.path.dirname(os.path.dirname(os.path.abspath(__file__))))
from values import *        # noqa
import models_chrono as MC

# the statement: pattern -> (field, fixed width or None for unpadded)
SPEC = {'YYYY': ('year', 4), 'YY': ('year100', 2), 'MM': ('month', None), '0M': ('month', 2), 'DD': ('day', None),
        '0D': ('day', 2), 'HH': ('hour', None), '0H': ('hour', 2), 'mm': ('minute', None), '0m': ('minute', 2),
        'SS': ('second', None), '0S': ('second', 2), 'WW': ('week_mon', None), '0W': ('week_mon', 2)}
COMPOUND = {'compact_date': ['YYYY', '0M', '0D'], 'compact_datetime': ['YYYY', '0M', '0D', '0H', '0m', '0S']}
PATTERNS = list(SPEC) + list(COMPOUND)


def expected_chars(w, ts, tokens):
    f = MC.fields(ts)
    f['year100'] = f['year'] % 100
    out = []
    for t in tokens:
        field, width = SPEC[t]
        v = f[field]
        if width == 4:
            out += MC.four(v)
        elif width == 2:
            out += MC.two(v)
        else:
            out += MC.unpadded(w, v)
    return out


def tokens_of(pattern_tokens):
    out = []
    for t in pattern_tokens:
        out += COMPOUND.get(t, [t])
    return out


def path(ctx, arg):
    """arg: list of documented pattern names concatenated into one pattern string"""
    I, w = ctx.I, ctx.w
    pat = ''.join(arg)
    ts = w.fresh_int('ts', 0, MC.END_2199 - 1)
    try:
        r = I.call('resolve_timestamp', [mkstr(pat), ts])
    except Panic as e:
        ctx.violation(clause='panic', pattern=pat, ts=w.get_model().eval(ts, model_completion=True).as_long(), detail=str(e), vkey='panic|' + pat)
        return
    m0 = w.get_model()
    if r.variant != 0:
        # a compound name is only valid on its own; concatenations containing it are not documented patterns
        if len(arg) > 1 and any(a in COMPOUND for a in arg):
            ctx.tag('rejected_compound_concat')
            return
        ctx.violation(clause='pattern_rejected', pattern=pat, ts=m0.eval(ts, model_completion=True).as_long(),
                      detail='documented pattern rejected', vkey='rejected|' + pat)
        return
    ctx.tag('resolved')
    got = list(r.fields[0].chars)
    if len(arg) > 1 and any(a in COMPOUND for a in arg):
        return
    exp = expected_chars(w, ts, tokens_of(arg))
    ctx.res.witness = dict(pattern=pat, ts=m0.eval(ts, model_completion=True).as_long(), digits=len(got))
    if len(got) != len(exp):
        ctx.violation(clause='field_value', pattern=pat, ts=w.get_model().eval(ts, model_completion=True).as_long(),
                      detail='wrong number of digits', vkey='field|' + pat)
        return
    diffs = [a != b for a, b in zip(got, exp)]
    diffs = [d for d in diffs if not (isinstance(d, bool) and not d)]
    if diffs:
        m = w.find(z3.Or([d if not isinstance(d, bool) else z3.BoolVal(d) for d in diffs]))
        if m is not None:
            ctx.violation(clause='field_value', pattern=pat, ts=m.eval(ts, model_completion=True).as_long(),
                          detail='resolved digits differ from the UTC calendar field', vkey='field|' + pat)


def path_schema(ctx, arg):
    """each documented name is accepted by schema validation as var(ts(name)); Var::Timestamp prefers bumped_timestamp"""
    I, w = ctx.I, ctx.w
    name = arg
    vi = I.prog.variant_index
    var = Adt('Var', vi('Var', 'Timestamp'), [mkstring(name)])
    comp = Adt('Component', vi('Component', 'Var'), [var])
    r = I.call('ZervSchema::new', [VecObj([comp]), VecObj([]), VecObj([])])
    if r.variant != 0:
        ctx.violation(clause='schema_rejects_pattern', pattern=name, ts=0, detail='ZervSchema::new rejects var(ts(%r))' % name, vkey='schema|' + name)
        return
    ctx.tag('schema_accepts')
