"""C13 (decided part) — in-process panic freedom of library kernels reachable from the CLI."""
import itertools
import os
import sys
import z3

sys.path.insert(0, os.path.dirname(os.path.dirname(os.path.abspath(__file__))))
from values import *        # noqa
import chars as C
from models import chars_of
from models_json import jstr, jnum, jbool
import c06
import c05
import c10
import c15

U64 = 2**64 - 1
U32 = 2**32 - 1


def mv(m, cs):
    return [m.eval(c, model_completion=True).as_long() if not isinstance(c, int) else c for c in cs]


def path_short_hash(ctx, n):
    I, w = ctx.I, ctx.w
    cs = c15.sym_text(w, n)
    sv = c06.SymVars(w, I, set(), {})
    vars_ = sv.value(I)
    vars_.fields[c06.FIELDS.index('bumped_commit_hash')] = some(StringObj(cs))
    vars_.fields[c06.FIELDS.index('last_commit_hash')] = some(StringObj(list(cs)))
    try:
        I.call('ZervVars::get_bumped_commit_hash_short', [ValPtr(vars_)])
        I.call('ZervVars::get_last_commit_hash_short', [ValPtr(vars_)])
        ctx.tag('returned')
    except Panic as e:
        ctx.violation(clause='panic', site='derive_short_hash', value=mv(w.get_model(), cs), detail=str(e), vkey='panic|derive_short_hash')


def path_fn(ctx, arg):
    """custom template functions never panic, whatever the argument values"""
    I, w = ctx.I, ctx.w
    fn, n, extra = arg
    import models_chrono as MC
    MC.LENIENT[0] = True
    cs = c15.sym_text(w, n)
    entries = [('value', jstr(cs))]
    info = {}
    if fn in ('prefix_function', 'hash_function', 'hash_int_function'):
        L = w.fresh_int('length', 0, 40)
        entries.append(('length', jnum(L)))
        info['length'] = L
    if fn == 'sanitize_function':
        ML = w.fresh_int('max_length', 0, 6)
        entries.append(('max_length', jnum(ML)))
        info['max_length'] = ML
        if extra:
            entries.append(('separator', jstr([ord(extra)])))
    if fn == 'format_timestamp_function':
        ts = w.fresh_int('ts', 0, 7_258_118_399)
        entries = [('value', jnum(ts)), ('format', jstr(cs))]
        info['ts'] = ts
    try:
        c15.call_fn(I, fn, entries)
        ctx.tag('returned')
    except Panic as e:
        m = w.get_model()
        ctx.violation(clause='panic', site=fn, value=mv(m, cs), extra={k: m.eval(v, model_completion=True).as_long() for k, v in info.items()},
                      sep=extra, detail=str(e), vkey='panic|' + fn)


def path_resolve_ts(ctx, arg):
    """resolve_timestamp (the resolver behind every `ts("…")` schema component) on EVERY pattern string of n chars,
    optionally behind a fixed prefix such as `%`, and any second 1970-2199: Ok or Err, never a panic"""
    I, w = ctx.I, ctx.w
    prefix, n = arg
    import models_chrono as MC
    MC.LENIENT[0] = True
    cs = [ord(c) for c in prefix] + c15.sym_text(w, n)
    ts = w.fresh_int('ts', 0, 7_258_118_399)
    try:
        r = I.call('resolve_timestamp', [Str(cs), ts])
        ctx.tag('ok' if peel(r).variant == 0 else 'err')
    except Panic as e:
        m = w.get_model()
        ctx.violation(clause='panic', site='resolve_timestamp', value=mv(m, cs), extra={'ts': m.eval(ts, model_completion=True).as_long()}, detail=str(e), vkey='panic|resolve_timestamp')


IDENTS = ['epoch', 'post', 'dev', 'alpha', 'rc', 'x']


def path_from_semver(ctx, shape):
    """Zerv::from(SemVer) (an infallible From with an expect inside) on records the parser can produce"""
    I, w = ctx.I, ctx.w
    vi = I.prog.variant_index
    pre = []
    for i, k in enumerate(shape):
        if k == 'N':
            pre.append(Adt('PreReleaseIdentifier', vi('PreReleaseIdentifier', 'UInt'), [w.fresh_int('n%d' % i, 0, 99)]))
        else:
            pre.append(Adt('PreReleaseIdentifier', vi('PreReleaseIdentifier', 'Str'), [mkstring(k)]))
    v = Adt('SemVer', 0, [w.fresh_int('major', 0, 9), 0, 0, some(VecObj(pre)) if pre else none(), none()])
    try:
        I.call('<Zerv as From<SemVer>>::from', [v])
        ctx.tag('returned')
    except Panic as e:
        ctx.violation(clause='panic', site='Zerv::from(SemVer)', shape=list(shape), detail=str(e), vkey='panic|from_semver|' + '.'.join(shape))


def path_bump_overflow(ctx, level):
    """bump additions at the top of the u64 range"""
    I, w = ctx.I, ctx.w
    arg = dict(schema='std', live=['bp_' + level], name='overflow:' + level)
    schema = c05.SCHEMAS['std']
    core, extra, build = [[c06.comp_value(I, c) for c in part] for part in schema]
    sr = I.call('ZervSchema::new', [VecObj(core), VecObj(extra), VecObj(build)])
    sv = c06.SymVars(w, I, {'major', 'minor', 'patch', 'epoch', 'post', 'dev', 'pre_release'}, dict(num_max=U64))
    w.restrict(sv.v['pre_number'], 0, U64)
    zerv = Adt('Zerv', 0, [sr.fields[0], sv.value(I)])
    ov = I.call('<ResolvedOverrides as Default>::default', [])
    bp = I.call('<ResolvedBumps as Default>::default', [])
    amount = w.fresh_int('amount', 0, U32)
    c05.setf(I, bp, 'bump_' + level, some(some(amount)))
    args_adt = Adt('ResolvedArgs', 0, [ov, bp, Adt('InputConfig', 0, []), Adt('OutputConfig', 0, [])])
    try:
        I.call('Zerv::apply_component_processing', [ValPtr(zerv), ValPtr(args_adt)])
        ctx.tag('returned')
    except Panic as e:
        m = w.get_model()
        ctx.violation(clause='panic', site='bump_' + level, start=sv.concrete(m), amount=m.eval(amount, model_completion=True).as_long(), detail=str(e),
                      vkey='panic|bump|' + level)


def path_uint_literal_overflow(ctx, _):
    I, w = ctx.I, ctx.w
    n = w.fresh_int('lit', 0, U64)
    core = [c06.comp_value(I, ('var', 'Major')), c06.comp_value(I, ('uint', n))]
    sr = I.call('ZervSchema::new', [VecObj(core), VecObj([]), VecObj([])])
    sv = c06.SymVars(w, I, {'major'}, {})
    zerv = Adt('Zerv', 0, [sr.fields[0], sv.value(I)])
    ov = I.call('<ResolvedOverrides as Default>::default', [])
    bp = I.call('<ResolvedBumps as Default>::default', [])
    c05.setf(I, bp, 'bump_core', VecObj([mkstring('1=4294967295')]))
    args_adt = Adt('ResolvedArgs', 0, [ov, bp, Adt('InputConfig', 0, []), Adt('OutputConfig', 0, [])])
    try:
        I.call('Zerv::apply_component_processing', [ValPtr(zerv), ValPtr(args_adt)])
        ctx.tag('returned')
    except Panic as e:
        m = w.get_model()
        ctx.violation(clause='panic', site='bump_uint_literal', literal=m.eval(n, model_completion=True).as_long(), detail=str(e), vkey='panic|bump|uint_literal')


def from_semver_shapes(tier):
    k = 3 if tier == 'quick' else 4
    menu = IDENTS + ['N']
    out = []
    for n in range(1, k + 1):
        out += [tuple(x) for x in itertools.product(menu, repeat=n)]
    return out


def path_custom_value(ctx, arg):
    """ZervVars::get_custom_value on nested JSON (objects, arrays, scalars) with a symbolic dotted key"""
    I, w = ctx.I, ctx.w
    from models_json import jobj, jstr, jnum, jbool, jnull
    n = arg
    custom = jobj([(mkstring('a'), Adt('Value', 4, [VecObj([jstr([120]), jnum(7)])])),
                   (mkstring('b'), jobj([(mkstring('c'), jstr([121])), (mkstring('0'), jbool(True))])),
                   (mkstring('s'), jstr([122])), (mkstring('n'), jnull())])
    sv = c06.SymVars(w, I, set(), {})
    vars_ = sv.value(I)
    vars_.fields[c06.FIELDS.index('custom')] = custom
    key = [w.fresh_int('k%d' % i) for i in range(n)]
    for c in key:
        w.assume(z3.Or([c == ord(x) for x in 'abcsn.0129x']))
    try:
        I.call('ZervVars::get_custom_value', [ValPtr(vars_), Str(key)])
        ctx.tag('returned')
    except Panic as e:
        ctx.violation(clause='panic', site='get_custom_value', value=mv(w.get_model(), key), detail=str(e), vkey='panic|get_custom_value')


MAX_GIT_CALLS = 40


def path_git_fault(ctx, arg):
    """any single git sub-command failing: `get_vcs_data` (+ `vcs_data_to_zerv_vars`) against the C02 git stub, where the
    git call with a solver-chosen index returns Err(CommandFailed) — the extraction must return Ok or Err, never panic,
    and must not write to standard output (only cli::app prints the result)"""
    import c02
    I, w = ctx.I, ctx.w
    wd = c02.GitWorld(ctx, arg)
    wd.fail_at = w.fresh_int('fail_at', 0, MAX_GIT_CALLS)
    wd.failed = None
    c02.WORLD[0] = wd
    fmt = arg['fmt']

    def viol(stage, e, site='git_fault'):
        m = w.get_model()
        ctx.violation(clause='panic' if site == 'git_fault' else 'stdout_write', site=site, stage=stage, world=wd.concrete(m), fmt=fmt, failed=wd.failed,
                      fail_at=m.eval(wd.fail_at, model_completion=True).as_long(), calls=len(wd.log), detail=str(e),
                      vkey='%s|%s|%s' % (site, stage, (wd.failed or (0, ['none']))[1][0]))

    def body():
        vcs = Adt('GitVcs', 0, [mkstring('/repo-under-test')])
        try:
            r = I.call('<GitVcs as Vcs>::get_vcs_data', [ValPtr(vcs), Str(c02.txt(fmt))])
        except Panic as e:
            viol('get_vcs_data', e)
            return
        finally:
            c02.WORLD[0] = None
        if len(wd.log) > MAX_GIT_CALLS:
            raise Unsupported('more git calls than the fault index range covers')
        if wd.failed is None:
            ctx.tag('no_fault_reached')
        else:
            ctx.tag('fault:' + ' '.join(a for a in wd.failed[1][:2] if not a.startswith('v') and len(a) < 14))
        if r.variant != 0:
            if wd.failed is None:
                ctx.violation(clause='panic', site='git_fault', stage='spurious_error', world=wd.concrete(w.get_model()), fmt=fmt, failed=None, fail_at=-1, calls=len(wd.log),
                              detail='extraction failed although no git command failed', vkey='panic|git_fault|spurious')
            ctx.tag('returned_err')
            return
        ctx.tag('returned_ok')
        try:
            I.call('vcs_data_to_zerv_vars', [deep_copy(r.fields[0]), Str(c02.txt(fmt))])
            ctx.tag('vars_returned')
        except Panic as e:
            viol('vcs_data_to_zerv_vars', e)
    body()
    if w.stdout:
        viol('extraction', 'library code printed to standard output: %r' % ''.join(chr(c) if isinstance(c, int) else '?' for c in w.stdout)[:160], site='stdout_write')


def git_fault_cases(tier):
    import c02
    q = tier == 'quick'
    out = []
    for name, (tags, fmts) in c02.MENUS.items():
        if q and name not in ('semver_order', 'mixed', 'invalid_only'):
            continue
        for fmt in (fmts[:1] if q else fmts):
            for k in ((2,) if q else (1, 2, 3)):
                out.append(dict(name=name, fmt=fmt, commits=k, tags=tags[:3] if q else tags, branch=list('main'), status_len=k % 2))
    out.append(dict(name='mixed', fmt='auto', shape='diamond', commits=4, tags=c02.MENUS['mixed'][0][:2 if q else 4], branch=None, status_len=0))
    return out


def path_branch_rules(ctx, arg):
    """flow's branch-rule resolution never panics, whatever the branch name (C04's harness; only the panic clause is
    judged here — rule selection and numbers are C04's obligations)"""
    import c04

    class PanicOnly:
        def __init__(self, inner):
            self.inner = inner

        def __getattr__(self, k):
            return getattr(self.inner, k)

        def violation(self, **kw):
            if kw.get('clause') == 'panic':
                kw['site'] = 'branch_rules'
                kw['vkey'] = 'panic|branch_rules'
                self.inner.violation(**kw)
    c04.path_rules(PanicOnly(ctx), arg)
    ctx.tag('returned')


def branch_rule_args(tier):
    q = tier == 'quick'
    out = []
    for k in ((1, 9, 10, 11, 20) if q else (1, 2, 9, 10, 11, 19, 20, 21)):
        out.append(dict(rules='default', branch=list('release/') + ['DIGIT'] * k))
        out.append(dict(rules='default', branch=list('f/') + ['DIGIT'] * k + list('/7')))
        out.append(dict(rules='default', branch=['DIGIT'] * k))
    for n in range(0, 4 if q else 6):
        out.append(dict(rules='default', branch=list('release/') + ['PATH'] * n))
        out.append(dict(rules='short', branch=['PATH'] * n, num_flag=True))
    out.append(dict(rules='default', branch=None))
    return out


GIT_STDOUT = [b'', b'main\n', b' v1.0.0 \n', b'caf\xe9\n', b'\xff\xfe', 'é\n'.encode(), b'1700000000\n']
GIT_STDERR = [b'', b'fatal: not a git repository', b"fatal: ambiguous argument 'HEAD'", b'\xff bad object', b'Permission denied (publickey)', b'warning: shallow']


def path_run_git(ctx, arg):
    """the boundary function itself, `GitVcs::run_git_command`, executed from MIR against a stub of
    std::process::Command: the child's exit status is a solver variable, its stdout / stderr bytes come from a menu that
    includes invalid UTF-8 — whatever git prints, the function returns Ok or Err and never panics"""
    import models_misc as MM
    import interp as _interp
    I, w = ctx.I, ctx.w
    so, se = arg
    succ = w.fresh_bool('git_exit_success')
    saved = _interp.OVERRIDES.pop('GitVcs::run_git_command', None)
    MM.PROCESS_OUTPUT[0] = dict(success=succ, stdout=list(GIT_STDOUT[so]), stderr=list(GIT_STDERR[se]))
    try:
        vcs = Adt('GitVcs', 0, [mkstring('/repo-under-test')])
        r = I.call('GitVcs::run_git_command', [ValPtr(vcs), Slice([Str([ord(c) for c in 'status']), Str([ord(c) for c in '--porcelain'])])])
        ctx.tag('returned_ok' if r.variant == 0 else 'returned_err')
    except Panic as e:
        m = w.get_model()
        ctx.violation(clause='panic', site='run_git_command', stdout=list(GIT_STDOUT[so]), stderr=list(GIT_STDERR[se]), success=z3.is_true(m.eval(succ, model_completion=True)),
                      detail=str(e), vkey='panic|run_git_command')
    finally:
        MM.PROCESS_OUTPUT[0] = None
        if saved is not None:
            _interp.OVERRIDES['GitVcs::run_git_command'] = saved
    if w.stdout:
        ctx.violation(clause='stdout_write', site='stdout_write', stage='run_git_command', text=''.join(chr(c) if isinstance(c, int) else '?' for c in w.stdout)[:120], detail='run_git_command printed to stdout', vkey='stdout|run_git')
