"""C05 — override / bump / reset semantics follow the precedence order (MIR of src/version/zerv/bump/*)."""
import itertools
import os
import sys
import z3

sys.path.insert(0, os.path.dirname(os.path.dirname(os.path.abspath(__file__))))
from values import *        # noqa
from models import chars_of
import c06
from c06_schemas import V, S, U, T

LEVELS = ['epoch', 'major', 'minor', 'patch', 'pre_release_label', 'pre_release_num', 'post', 'dev']
NUMLEVELS = ['epoch', 'major', 'minor', 'patch', 'pre_release_num', 'post', 'dev']
U32 = 2**32 - 1
START_MAX = 2**40
LABELS = ['alpha', 'beta', 'rc']

SCHEMAS = {
    'std': ([V('Major'), V('Minor'), V('Patch')], [V('Epoch'), V('PreRelease'), V('Post'), V('Dev')], []),
    'lit': ([V('Major'), V('Minor'), V('Patch'), U(7)], [V('Epoch'), V('PreRelease'), V('Post'), V('Dev'), S('x')], [U(3), V('BumpedBranch'), T('YYYY')]),
}


KNOWN_FIELDS = {'ZervVars': c06.FIELDS, 'ZervSchema': ['core', 'extra_core', 'build', 'precedence_order']}


def _names(I, adt):
    return I.prog.fields.get(adt.name) or KNOWN_FIELDS[adt.name]


def setf(I, adt, name, value):
    adt.fields[_names(I, adt).index(name)] = value


def getf(I, adt, name):
    return adt.fields[_names(I, adt).index(name)]


class State:
    """oracle state: python-side mirror of the version variables as z3 terms with symbolic presence"""

    def __init__(self, w, sv):
        self.w = w
        self.p = {}      # name -> z3 Int presence (0/1) or int
        self.v = {}      # name -> value term
        for f in ('epoch', 'major', 'minor', 'patch', 'post', 'dev'):
            self.p[f] = sv.present[f]
            self.v[f] = sv.v[f]
        self.p['pre'] = sv.present['pre_release']
        self.v['label'] = sv.v['pre_label']
        self.p['pre_n'] = sv.present['pre_number']
        self.v['pre_n'] = sv.v['pre_number']

    # helpers over symbolic presence: everything is expressed with z3 If, no forking in the oracle
    def set_num(self, f, cond, val):
        self.v[f] = z3.If(cond, val, self.v[f])
        self.p[f] = z3.If(cond, 1, self.p[f])

    def clear(self, f, cond):
        self.p[f] = z3.If(cond, 0, self.p[f])

    def reset_below(self, level, cond):
        """a bump at `level` (when cond) resets every lower level"""
        order = LEVELS
        k = order.index(level)
        for lower in order[k + 1:]:
            if lower in ('major', 'minor', 'patch', 'epoch'):
                self.set_num(lower, cond, 0)
            elif lower == 'pre_release_label':
                self.p['pre'] = z3.If(cond, 0, self.p['pre'])
            elif lower == 'pre_release_num':
                # number of an existing pre-release goes back to 0
                self.v['pre_n'] = z3.If(cond, 0, self.v['pre_n'])
                self.p['pre_n'] = z3.If(z3.And(cond, self.p['pre'] == 1), 1, self.p['pre_n'])
            elif lower in ('post', 'dev'):
                self.clear(lower, cond)

    def num_level(self, f, ov_p, ov_v, bp_p, bp_v):
        """override then bump on a plain numeric level"""
        self.set_num(f, ov_p == 1, ov_v)
        cur = z3.If(self.p[f] == 1, self.v[f], 0)
        self.set_num(f, bp_p == 1, cur + bp_v)
        self.reset_below(f, bp_p == 1)

    def pre_num_level(self, ov_p, ov_v, bp_p, bp_v):
        had = self.p['pre'] == 1
        # override: creates alpha when there is no pre-release
        self.v['label'] = z3.If(z3.And(ov_p == 1, z3.Not(had)), 0, self.v['label'])
        self.v['pre_n'] = z3.If(ov_p == 1, ov_v, self.v['pre_n'])
        self.p['pre_n'] = z3.If(ov_p == 1, 1, self.p['pre_n'])
        self.p['pre'] = z3.If(ov_p == 1, 1, self.p['pre'])
        had = self.p['pre'] == 1
        cur = z3.If(z3.And(had, self.p['pre_n'] == 1), self.v['pre_n'], 0)
        self.v['label'] = z3.If(z3.And(bp_p == 1, z3.Not(had)), 0, self.v['label'])
        self.v['pre_n'] = z3.If(bp_p == 1, cur + bp_v, self.v['pre_n'])
        self.p['pre_n'] = z3.If(bp_p == 1, 1, self.p['pre_n'])
        self.p['pre'] = z3.If(bp_p == 1, 1, self.p['pre'])
        self.reset_below('pre_release_num', bp_p == 1)

    def label_level(self, ov_label, ov_num_p, ov_num_v, bp_label):
        if ov_label is not None:
            had_n = z3.And(self.p['pre'] == 1, self.p['pre_n'] == 1)
            newn = z3.If(ov_num_p == 1, ov_num_v, z3.If(had_n, self.v['pre_n'], 0))
            self.v['label'] = z3.IntVal(LABELS.index(ov_label))
            self.v['pre_n'] = newn
            self.p['pre_n'] = z3.IntVal(1)
            self.p['pre'] = z3.IntVal(1)
        if bp_label is not None:
            self.reset_below('pre_release_label', z3.BoolVal(True))
            self.v['label'] = z3.IntVal(LABELS.index(bp_label))
            self.v['pre_n'] = z3.IntVal(0)
            self.p['pre_n'] = z3.IntVal(1)
            self.p['pre'] = z3.IntVal(1)


def path(ctx, arg):
    I, w = ctx.I, ctx.w
    schema = SCHEMAS[arg['schema']]
    live = arg.get('live', [])
    core, extra, build = [[c06.comp_value(I, c) for c in part] for part in schema]
    sr = I.call('ZervSchema::new', [VecObj(core), VecObj(extra), VecObj(build)])
    assert sr.variant == 0
    cfg = dict(num_max=START_MAX, never=['bumped_timestamp', 'last_timestamp'], text_len=1)
    sv = c06.SymVars(w, I, {'major', 'minor', 'patch', 'epoch', 'post', 'dev', 'pre_release'} | ({'bumped_branch'} if arg['schema'] == 'lit' else set()), cfg)
    w.restrict(sv.v['pre_number'], 0, START_MAX)
    zerv = Adt('Zerv', 0, [sr.fields[0], sv.value(I)])
    st = State(w, sv)
    # ---- resolved args
    ov = I.call('<ResolvedOverrides as Default>::default', [])
    bp = I.call('<ResolvedBumps as Default>::default', [])
    ovp, ovv, bpp, bpv = {}, {}, {}, {}
    for lv in NUMLEVELS:
        if ('ov_' + lv) in live:
            ovp[lv] = w.fresh_int('ovp_' + lv, 0, 1)
            ovv[lv] = w.fresh_int('ovv_' + lv, 0, U32)
            setf(I, ov, lv, Adt('Option', ovp[lv], [ovv[lv]]))
        else:
            ovp[lv], ovv[lv] = z3.IntVal(0), z3.IntVal(0)
        if ('bp_' + lv) in live:
            bpp[lv] = w.fresh_int('bpp_' + lv, 0, 1)
            bpv[lv] = w.fresh_int('bpv_' + lv, 0, U32)
            setf(I, bp, 'bump_' + lv, Adt('Option', bpp[lv], [some(bpv[lv])]))
        else:
            bpp[lv], bpv[lv] = z3.IntVal(0), z3.IntVal(0)
    ov_label = arg.get('ov_label')
    bp_label = arg.get('bp_label')
    if ov_label is not None:
        setf(I, ov, 'pre_release_label', some(mkstring(ov_label)))
    if bp_label is not None:
        setf(I, bp, 'bump_pre_release_label', some(mkstring(bp_label)))
    # index specs: "<index>[=<value>]"; a value written "#k" stands for k symbolic decimal digits (any value <= u32::MAX,
    # 0 included), so boundary amounts are found by the solver rather than listed
    symvals = {}          # (kind, sec, position) -> (digit chars, z3 value)

    def spec_string(kind, sec, j, sp):
        if '=#' not in sp:
            return mkstring(sp)
        i, k = sp.split('=#')
        ds = [w.fresh_int('sv_%s_%s_%d_%d' % (kind, sec, j, x), 48, 57) for x in range(int(k))]
        val = z3.Sum([(d - 48) * 10 ** (len(ds) - 1 - x) for x, d in enumerate(ds)]) if len(ds) > 1 else ds[0] - 48
        w.assume(val <= U32)
        symvals[(kind, sec, j)] = (ds, val)
        return StringObj([ord(c) for c in i + '='] + ds)
    for sec in ('core', 'extra_core', 'build'):
        if arg.get('ov_' + sec):
            setf(I, ov, sec, VecObj([spec_string('ov', sec, j, sp) for j, sp in enumerate(arg['ov_' + sec])]))
        if arg.get('bp_' + sec):
            setf(I, bp, 'bump_' + sec, VecObj([spec_string('bp', sec, j, sp) for j, sp in enumerate(arg['bp_' + sec])]))

    def concrete_arg(m):
        a = dict(arg)
        for (kind, sec, j), (ds, _v) in symvals.items():
            lst = list(a[kind + '_' + sec])
            lst[j] = lst[j].split('=#')[0] + '=' + ''.join(chr(m.eval(d, model_completion=True).as_long()) for d in ds)
            a[kind + '_' + sec] = lst
        return a
    args_adt = Adt('ResolvedArgs', 0, [ov, bp, Adt('InputConfig', 0, []), Adt('OutputConfig', 0, [])])
    zp = ValPtr(zerv)
    name = arg.get('name', '')

    def viol(clause, m, detail):
        ctx.violation(clause=clause, arg=concrete_arg(m), start=sv.concrete(m), flags=concrete_flags(m, ovp, ovv, bpp, bpv), detail=detail, vkey='%s|%s' % (clause, name))
    try:
        r = I.call('Zerv::apply_component_processing', [zp, ValPtr(args_adt)])
    except Panic as e:
        viol('panic', w.get_model(), str(e))
        ctx.tag('panic')
        return
    expect_err = arg.get('expect_err')
    if r.variant != 0:
        ctx.tag('rejected')
        if not expect_err:
            viol('unexpected_error', w.get_model(), 'valid operation rejected')
        return
    if expect_err:
        viol('invalid_target_accepted', w.get_model(), 'invalid target was not rejected: ' + expect_err)
        return
    ctx.tag('processed')
    # ---- oracle: the 11-level law
    comps = {'core': schema[0], 'extra_core': schema[1], 'build': schema[2]}

    def section(sec):
        specs = {}
        for j, s in enumerate(arg.get('ov_' + sec, [])):
            i, v = s.split('=')
            specs.setdefault(norm_index(i, len(comps[sec])), [None, None])[0] = symvals[('ov', sec, j)][1] if v.startswith('#') else (int(v) if v.isdigit() else None)
        for j, s in enumerate(arg.get('bp_' + sec, [])):
            i, v = (s.split('=') + ['1'])[:2]
            specs.setdefault(norm_index(i, len(comps[sec])), [None, None])[1] = symvals[('bp', sec, j)][1] if v.startswith('#') else int(v)
        for i in sorted(specs):
            o, b = specs[i]
            c = comps[sec][i]
            one = z3.IntVal(1)
            zero = z3.IntVal(0)
            if c[0] == 'var':
                lv = {'Major': 'major', 'Minor': 'minor', 'Patch': 'patch', 'Epoch': 'epoch', 'Post': 'post', 'Dev': 'dev', 'PreRelease': 'pre_release_num'}[c[1]]
                zv = lambda x: x if z3.is_expr(x) else z3.IntVal(x or 0)
                a = (one if o is not None else zero, zv(o), one if b is not None else zero, zv(b))
                if lv == 'pre_release_num':
                    st.pre_num_level(*a)
                else:
                    st.num_level(lv, *a)
            # literal components: changed in place, no reset (the statement: literals untouched by resets)
    st.num_level('epoch', ovp['epoch'], ovv['epoch'], bpp['epoch'], bpv['epoch'])
    st.num_level('major', ovp['major'], ovv['major'], bpp['major'], bpv['major'])
    st.num_level('minor', ovp['minor'], ovv['minor'], bpp['minor'], bpv['minor'])
    st.num_level('patch', ovp['patch'], ovv['patch'], bpp['patch'], bpv['patch'])
    section('core')
    st.label_level(ov_label, ovp['pre_release_num'], ovv['pre_release_num'], bp_label)
    st.pre_num_level(ovp['pre_release_num'], ovv['pre_release_num'], bpp['pre_release_num'], bpv['pre_release_num'])
    st.num_level('post', ovp['post'], ovv['post'], bpp['post'], bpv['post'])
    st.num_level('dev', ovp['dev'], ovv['dev'], bpp['dev'], bpv['dev'])
    section('extra_core')
    section('build')
    # ---- compare
    vars_after = zerv.fields[1]
    conds = []
    for f in ('epoch', 'major', 'minor', 'patch', 'post', 'dev'):
        o = getf(I, vars_after, f)
        conds.append(opt_mismatch(o, st.p[f], st.v[f]))
    pr = getf(I, vars_after, 'pre_release')
    if isinstance(pr.variant, int) and pr.variant == 0:
        conds.append(st.p['pre'] == 1)
    else:
        prv = pr.fields[0]
        lab = prv.fields[0].variant
        num = prv.fields[1]
        okpre = z3.And(pr.variant == 1, lab == st.v['label'], z3.Not(opt_mismatch(num, st.p['pre_n'], st.v['pre_n'])))
        conds.append(z3.Not(z3.If(st.p['pre'] == 1, okpre, pr.variant == 0)))
    m0 = w.get_model()
    def oval(o):
        var = o.variant if isinstance(o.variant, int) else m0.eval(o.variant, model_completion=True).as_long()
        if var != 1:
            return None
        x = o.fields[0]
        return x if isinstance(x, int) else m0.eval(x, model_completion=True).as_long()
    res = {f: oval(getf(I, vars_after, f)) for f in ('epoch', 'major', 'minor', 'patch', 'post', 'dev')}
    prv_ = (pr.variant if isinstance(pr.variant, int) else m0.eval(pr.variant, model_completion=True).as_long())
    if prv_ == 1:
        lb = pr.fields[0].fields[0].variant
        lb = lb if isinstance(lb, int) else m0.eval(lb, model_completion=True).as_long()
        res['pre_release'] = dict(label=['alpha', 'beta', 'rc'][lb], number=oval(pr.fields[0].fields[1]))
    else:
        res['pre_release'] = None
    ctx.res.witness = dict(arg=concrete_arg(m0), start=sv.concrete(m0), flags=concrete_flags(m0, ovp, ovv, bpp, bpv), result=res)
    m = w.find(z3.Or(conds))
    if m is not None:
        viol('law', m, 'result differs from processing the levels in precedence order (override, then bump, bump resets lower levels)')
    # literal schema components: expected values
    for sec, idx, expv in arg.get('expect_literals', []):
        part = peel(getf(I, zerv.fields[0], sec)).items
        comp = peel(part[idx])
        got = comp.fields[0]
        gv = chars_of(got) if isinstance(peel(got), (Str, StringObj)) else got
        ev = [ord(c) for c in expv] if isinstance(expv, str) else expv
        if (isinstance(gv, list) and gv != ev) or (not isinstance(gv, list) and not (isinstance(gv, int) and gv == ev)):
            viol('literal', w.get_model(), 'literal component %s[%d] = %r, expected %r' % (sec, idx, gv, ev))


def opt_mismatch(o, present, value):
    """condition: the Option value `o` differs from (present ? Some(value) : None)"""
    if not o.fields:
        return present == 1
    var = o.variant if not isinstance(o.variant, int) else z3.IntVal(o.variant)
    return z3.Not(z3.If(present == 1, z3.And(var == 1, o.fields[0] == value), var == 0))


def norm_index(i, n):
    if i.startswith('~'):
        return n - int(i[1:])
    k = int(i)
    return k if k >= 0 else n + k


def concrete_flags(m, ovp, ovv, bpp, bpv):
    def ev(x):
        return m.eval(x, model_completion=True).as_long()
    out = {}
    for lv in NUMLEVELS:
        if ev(ovp[lv]):
            out['--' + lv] = ev(ovv[lv])
        if ev(bpp[lv]):
            out['--bump-' + lv] = ev(bpv[lv])
    return out


def args_for(tier):
    quick = tier == 'quick'
    out = []
    flags = ['ov_' + l for l in NUMLEVELS] + ['bp_' + l for l in NUMLEVELS]
    # windows of live by-name flags: all flags of two (thorough: three) levels at once
    k = 3 if quick else 4
    for combo in itertools.combinations(NUMLEVELS, k):
        live = [p + l for l in combo for p in ('ov_', 'bp_')]
        out.append(dict(name='byname:' + '+'.join(combo), schema='std', live=live))
    # all bumps live / all overrides live
    out.append(dict(name='byname:all_bumps', schema='std', live=['bp_' + l for l in NUMLEVELS]))
    out.append(dict(name='byname:all_overrides', schema='std', live=['ov_' + l for l in NUMLEVELS]))
    # pre-release label operations combined with a window of other flags
    for ovl, bpl in ((None, 'beta'), ('rc', None), ('alpha', 'rc')):
        for combo in (('major', 'pre_release_num'), ('pre_release_num', 'post'), ('patch', 'dev'), ('epoch', 'post')):
            live = [p + l for l in combo for p in ('ov_', 'bp_')]
            out.append(dict(name='label:%s/%s:%s' % (ovl, bpl, '+'.join(combo)), schema='std', live=live, ov_label=ovl, bp_label=bpl))
    # index-addressed operations (section level), alone and against by-name flags
    idx = [dict(bp_core=['0']), dict(bp_core=['1=3']), dict(bp_core=['~1=2']), dict(bp_core=['-3']), dict(ov_core=['1=9']),
           dict(ov_core=['0=4'], bp_core=['0=2']), dict(bp_extra_core=['1']), dict(bp_extra_core=['2=5']), dict(ov_extra_core=['3=4']),
           dict(bp_extra_core=['-1']), dict(ov_extra_core=['0=2'], bp_extra_core=['~2']), dict(bp_core=['2', '0']),
           # symbolic amounts: one digit (0 included) and ten digits (up to u32::MAX)
           dict(bp_core=['0=#1']), dict(bp_core=['-2=#1']), dict(ov_core=['1=#1']), dict(ov_core=['0=#1'], bp_core=['0=#1']), dict(bp_extra_core=['0=#1']),
           dict(ov_extra_core=['2=#1'], bp_extra_core=['2=#1']), dict(bp_core=['1=#10']), dict(ov_extra_core=['3=#10'])]
    wins = [(), ('patch',), ('post',), ('major', 'dev')] if quick else [(), ('patch',), ('post',), ('major', 'dev'), ('epoch', 'pre_release_num'), ('minor', 'post')]
    for d in idx:
        for combo in wins:
            live = [p + l for l in combo for p in ('ov_', 'bp_')]
            out.append(dict(d, name='index:%s:%s' % (sorted(d.items()), '+'.join(combo)), schema='std', live=live))
    # literal components (no reset, changed in place)
    out.append(dict(name='literal:uint_bump', schema='lit', live=['bp_major'], bp_core=['3=5'], expect_literals=[('core', 3, 12)]))
    out.append(dict(name='literal:uint_override_bump', schema='lit', live=[], ov_core=['3=1'], bp_core=['3'], expect_literals=[('core', 3, 2)]))
    out.append(dict(name='literal:str_override', schema='lit', live=['bp_post'], ov_extra_core=['4=abc'], expect_literals=[('extra_core', 4, 'abc')]))
    out.append(dict(name='literal:build_uint', schema='lit', live=['bp_minor'], bp_build=['0=4'], expect_literals=[('build', 0, 7)]))
    # invalid targets are rejected
    for nm, d in [('out_of_range', dict(bp_core=['3'])), ('neg_out_of_range', dict(bp_core=['-4'])), ('tilde_zero', dict(bp_core=['~0'])),
                  ('duplicate_bump', dict(bp_core=['0', '0'])), ('duplicate_via_negative', dict(bp_core=['0', '-3'])),
                  ('duplicate_override', dict(ov_extra_core=['1=2', '1=3'])), ('non_numeric_value', dict(ov_core=['0=x'])),
                  ('override_without_value', dict(ov_core=['0'])), ('negative_value', dict(bp_core=['0=-1'])), ('junk_index', dict(bp_core=['a']))]:
        out.append(dict(d, name='invalid:' + nm, schema='std', live=[], expect_err=nm))
    for nm, d in [('vcs_field', dict(bp_build=['1'])), ('timestamp', dict(bp_build=['2'])), ('uint_non_numeric', dict(ov_core=['3=z']))]:
        out.append(dict(d, name='invalid:' + nm, schema='lit', live=[], expect_err=nm))
    out.append(dict(name='invalid:label', schema='std', live=[], bp_label='gamma', expect_err='label'))
    out.append(dict(name='invalid:override_label', schema='std', live=[], ov_label='gamma', expect_err='label'))
    return out
