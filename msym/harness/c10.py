"""C10 — SemVer comparison is SemVer 2.0.0 precedence (decided on the MIR of src/version/semver/ordering.rs)."""
import itertools
import os
import sys
import z3

sys.path.insert(0, os.path.dirname(os.path.dirname(os.path.abspath(__file__))))
from values import *        # noqa
import chars as C
from models import conj, disj

U64 = 2**64 - 1


def ident_char_ok(c):
    return z3.Or(z3.And(c >= 48, c <= 57), z3.And(c >= 65, c <= 90), z3.And(c >= 97, c <= 122), c == 45)


class SymVer:
    """symbolic SemVer record + plain description for oracles / replay"""

    def __init__(self, w, I, tag, shape):
        pre_shape, build_shape = shape
        self.nums = [w.fresh_int('%s_n%d' % (tag, i), 0, U64) for i in range(3)]
        self.pre = None
        if pre_shape is not None:
            self.pre = [self._ident(w, tag + '_p%d' % i, k, True) for i, k in enumerate(pre_shape)]
        self.build = None
        if build_shape is not None:
            self.build = [self._ident(w, tag + '_b%d' % i, k, False) for i, k in enumerate(build_shape)]
        vi = I.prog.variant_index

        def mk(enum, it):
            if it[0] == 'u':
                return Adt(enum, vi(enum, 'UInt'), [it[1]])
            return Adt(enum, vi(enum, 'Str'), [StringObj(it[1])])
        self.value = Adt('SemVer', 0, [self.nums[0], self.nums[1], self.nums[2],
                                       none() if self.pre is None else some(VecObj([mk('PreReleaseIdentifier', x) for x in self.pre])),
                                       none() if self.build is None else some(VecObj([mk('BuildMetadata', x) for x in self.build]))])

    def _ident(self, w, tag, kind, pre):
        if kind == 0:
            return ('u', w.fresh_int(tag, 0, U64))
        cs = [w.fresh_int('%s_c%d' % (tag, j)) for j in range(kind)]
        for c in cs:
            w.assume(ident_char_ok(c))
        if pre:
            # an alphanumeric identifier is one that is not purely numeric
            w.assume(z3.Not(z3.And([z3.And(c >= 48, c <= 57) for c in cs])))
        return ('s', cs)

    def concrete(self, m):
        def ev(x):
            return m.eval(x, model_completion=True).as_long()

        def cid(it):
            if it[0] == 'u':
                return {'u': ev(it[1])}
            return {'s': [ev(c) for c in it[1]]}
        return dict(major=ev(self.nums[0]), minor=ev(self.nums[1]), patch=ev(self.nums[2]),
                    pre=None if self.pre is None else [cid(x) for x in self.pre],
                    build=None if self.build is None else [cid(x) for x in self.build])


# ------------------------------------------------------------------ independent oracle (SemVer 2.0.0 §11)
def o_num(a, b):
    return z3.If(a < b, -1, z3.If(a > b, 1, 0))


def o_then(first, second):
    return z3.If(first != 0, first, second)


def o_str(a, b):
    e = z3.IntVal((len(a) > len(b)) - (len(a) < len(b)))
    for x, y in reversed(list(zip(a, b))):
        e = z3.If(x < y, -1, z3.If(x > y, 1, e))
    return e


def o_ident(x, y):
    if x[0] == 'u' and y[0] == 'u':
        return o_num(x[1], y[1])
    if x[0] == 's' and y[0] == 's':
        return o_str(x[1], y[1])
    return z3.IntVal(-1 if x[0] == 'u' else 1)


def o_pre(p, q):
    if p is None and q is None:
        return z3.IntVal(0)
    if p is None:
        return z3.IntVal(1)
    if q is None:
        return z3.IntVal(-1)
    e = z3.IntVal((len(p) > len(q)) - (len(p) < len(q)))
    for x, y in reversed(list(zip(p, q))):
        e = o_then(o_ident(x, y), e)
    return e


def oracle(a, b):
    e = o_pre(a.pre, b.pre)
    for i in (2, 1, 0):
        e = o_then(o_num(a.nums[i], b.nums[i]), e)
    return e


def as_expr(v):
    return z3.IntVal(v) if isinstance(v, int) else v


def ord_of(I, w, r):
    """Ordering Adt -> int or z3 term"""
    return r.variant


def boolv(x):
    return z3.BoolVal(x) if isinstance(x, bool) else x


def path_pair(ctx, arg):
    I, w = ctx.I, ctx.w
    sa, sb = arg
    a = SymVer(w, I, 'a', sa)
    b = SymVer(w, I, 'b', sb)
    pa, pb = ValPtr(a.value), ValPtr(b.value)
    r_ab = I.call('<SemVer as Ord>::cmp', [pa, pb]).variant
    r_ba = I.call('<SemVer as Ord>::cmp', [pb, pa]).variant
    eq = I.call('<SemVer as PartialEq>::eq', [pa, pb])
    pc = I.call('<SemVer as PartialOrd>::partial_cmp', [pa, pb])
    ctx.tag('cmp_returned')
    orc = oracle(a, b)
    obligations = [
        ('cmp_vs_spec', as_expr(r_ab) != orc, 'cmp(a,b) differs from SemVer 2.0.0 precedence'),
        ('antisymmetry', as_expr(r_ab) != -as_expr(r_ba), 'cmp(b,a) != reverse of cmp(a,b)'),
        ('eq_consistency', boolv(eq) != (as_expr(r_ab) == 0), 'a == b disagrees with cmp(a,b) == Equal'),
    ]
    if not (isinstance(pc.variant, int) and pc.variant == 1):
        obligations.append(('partial_cmp', z3.BoolVal(True), 'partial_cmp returned None'))
    else:
        obligations.append(('partial_cmp', as_expr(pc.fields[0].variant) != as_expr(r_ab), 'partial_cmp != Some(cmp)'))
    m0 = w.get_model()
    ctx.res.witness = dict(a=a.concrete(m0), b=b.concrete(m0))
    for i, v in enumerate((-1, 0, 1)):
        if w.feasible(orc == v):
            ctx.tag('oracle%+d' % v)
    big = z3.Or([c for _, c, _ in obligations])
    if w.find(big) is None:
        return
    for name, cond, detail in obligations:
        m = w.find(cond)
        if m is not None:
            ctx.violation(clause=name, a=a.concrete(m), b=b.concrete(m), detail=detail, vkey=name)


def path_triple(ctx, arg):
    """transitivity directly on the real code"""
    I, w = ctx.I, ctx.w
    sa, sb, sc = arg
    a = SymVer(w, I, 'a', sa)
    b = SymVer(w, I, 'b', sb)
    c = SymVer(w, I, 'c', sc)
    pa, pb, pc = ValPtr(a.value), ValPtr(b.value), ValPtr(c.value)
    ab = as_expr(I.call('<SemVer as Ord>::cmp', [pa, pb]).variant)
    bc = as_expr(I.call('<SemVer as Ord>::cmp', [pb, pc]).variant)
    ac = as_expr(I.call('<SemVer as Ord>::cmp', [pa, pc]).variant)
    ctx.tag('cmp_returned')
    bad = z3.Or(z3.And(ab <= 0, bc <= 0, ac > 0), z3.And(ab >= 0, bc >= 0, ac < 0),
                z3.And(ab == 0, bc == 0, ac != 0), z3.And(ab <= 0, bc <= 0, z3.Or(ab < 0, bc < 0), ac >= 0))
    m0 = w.get_model()
    ctx.res.witness = dict(a=a.concrete(m0), b=b.concrete(m0), c=c.concrete(m0))
    m = w.find(bad)
    if m is not None:
        ctx.violation(clause='transitivity', a=a.concrete(m), b=b.concrete(m), c=c.concrete(m),
                      detail='a<=b, b<=c but not a<=c (or the strict variant)', vkey='transitivity')


def shapes(max_ids, max_len, build_shapes):
    kinds = list(range(0, max_len + 1))     # 0 = UInt, k>0 = Str of k chars
    pres = [None]
    for n in range(1, max_ids + 1):
        pres += [tuple(x) for x in itertools.product(kinds, repeat=n)]
    return [(p, b) for p in pres for b in build_shapes]


# ------------------------------------------------------------------ concrete oracle (replay side)
def c_ident(x, y):
    if 'u' in x and 'u' in y:
        return (x['u'] > y['u']) - (x['u'] < y['u'])
    if 's' in x and 's' in y:
        return (x['s'] > y['s']) - (x['s'] < y['s'])
    return -1 if 'u' in x else 1


def c_oracle(a, b):
    for k in ('major', 'minor', 'patch'):
        if a[k] != b[k]:
            return -1 if a[k] < b[k] else 1
    p, q = a['pre'], b['pre']
    if p is None and q is None:
        return 0
    if p is None:
        return 1
    if q is None:
        return -1
    for x, y in zip(p, q):
        r = c_ident(x, y)
        if r:
            return r
    return (len(p) > len(q)) - (len(p) < len(q))
