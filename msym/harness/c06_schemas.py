"""Schema menu for C06 / C01 (component specs, see c06.comp_value)."""
V = lambda n: ('var', n)
S = lambda t: ('str', [ord(c) for c in t])
U = lambda n: ('uint', n)
T = lambda p: ('ts', p)
STD = [V('Major'), V('Minor'), V('Patch')]
CAL = [T('YYYY'), T('MM'), T('DD'), V('Patch')]
CTX = [V('BumpedBranch'), V('Distance'), V('BumpedCommitHashShort')]


def custom(tier):
    q = tier == 'quick'
    out = []
    # A. core placement
    out += [dict(name='core_std', schema=(STD, [], [])),
            dict(name='core_literal_before_int', schema=([V('Major'), S('rel'), V('Minor'), V('Patch')], [], [])),
            dict(name='core_leading_literal', schema=([S('v'), V('Major'), V('Minor')], [], [])),
            dict(name='core_uint_literal', schema=([U(7), V('Major')], [], [])),
            dict(name='core_four_ints', schema=(STD + [V('Distance')], [], []), cfg=dict(always=['major', 'minor', 'patch'])),
            dict(name='core_text_var', schema=([V('Major'), V('BumpedBranch'), V('Minor')], [], []), cfg=dict(text_len=2)),
            dict(name='core_only_minor', schema=([V('Minor')], [], [])),
            dict(name='core_calver', schema=(CAL, [], []), cfg=dict(never=['last_timestamp'])),
            dict(name='core_ts_fallback', schema=([T('YYYY'), V('Patch')], [], []))]
    # B. extra-core placement
    base = [V('Major')]
    for nm, ex in [('epoch', [V('Epoch')]), ('pre', [V('PreRelease')]), ('post', [V('Post')]), ('dev', [V('Dev')]),
                   ('post_epoch_order', [V('Post'), V('Epoch')]), ('dev_pre_order', [V('Dev'), V('PreRelease')]),
                   ('distance_then_pre', [V('Distance'), V('PreRelease')]), ('literal_then_post', [S('x'), V('Post')]),
                   ('branch', [V('BumpedBranch')]), ('all_secondary', [V('Epoch'), V('PreRelease'), V('Post'), V('Dev')]),
                   ('uint_literal', [U(5), V('Dev')]), ('dirty', [V('Dirty')])]:
        cfg = dict(always=['major'])
        if nm == 'all_secondary':
            cfg['num_max'] = 9
        out.append(dict(name='extra_' + nm, schema=(base, ex, []), cfg=cfg))
    # C. build placement
    for nm, b in [('branch', [V('BumpedBranch')]), ('distance_hash', [V('Distance'), V('BumpedCommitHashShort')]),
                  ('literal_dotted', [S('x.y')]), ('literal_zeros', [S('007')]), ('uint', [U(42)]), ('dirty', [V('Dirty')]),
                  ('ts_compact', [T('compact_date')]), ('last', [V('LastBranch'), V('LastCommitHashShort')]),
                  ('last_ts', [V('LastTimestamp')]), ('full_hash', [V('BumpedCommitHash')]), ('context', CTX)]:
        out.append(dict(name='build_' + nm, schema=(base, [], b), cfg=dict(always=['major'], text_len=2)))
    # long all-digit text: numeric identifiers beyond u64 / u32 must stay well-formed (no leading zeros)
    for n in (11, 21):
        out.append(dict(name='extra_branch_digits%d' % n, schema=(base, [V('BumpedBranch')], []), cfg=dict(always=['major', 'bumped_branch'], text_len=n, alphabet=[48, 49, 57])))
        out.append(dict(name='build_branch_digits%d' % n, schema=(base, [], [V('BumpedBranch')]), cfg=dict(always=['major', 'bumped_branch'], text_len=n, alphabet=[48, 49, 57])))
    if not q:
        out += [dict(name='build_branch_len3', schema=(base, [], [V('BumpedBranch')]), cfg=dict(always=['major'], text_len=3)),
                dict(name='build_branch_len4', schema=(base, [], [V('BumpedBranch')]), cfg=dict(always=['major'], text_len=4)),
                dict(name='extra_branch_len3', schema=(base, [V('BumpedBranch')], []), cfg=dict(always=['major'], text_len=3)),
                dict(name='core_text_len3', schema=([V('BumpedBranch'), V('Major')], [], []), cfg=dict(text_len=3)),
                dict(name='core_five', schema=(STD + [V('Distance'), V('BumpedBranch')], [], []), cfg=dict(always=['major', 'minor'], text_len=2)),
                dict(name='hash_len9', schema=(base, [], [V('BumpedCommitHashShort')]), cfg=dict(always=['major'], text_len=9, alphabet=[48, 49, 97, 102, 46]))]
    return out


PRESET_PARTS = {
    'base': [V('Epoch')], 'prerelease': [V('Epoch'), V('PreRelease')], 'prerelease_post': [V('Epoch'), V('PreRelease'), V('Post')],
    'prerelease_post_dev': [V('Epoch'), V('PreRelease'), V('Post'), V('Dev')]}


def presets(tier):
    """the fixed preset schemas (the smart presets resolve to one of these; their tier choice is decided separately)"""
    out = []
    for fam, core in (('standard', STD), ('calver', CAL)):
        for tname, extra in PRESET_PARTS.items():
            for ctx in (False, True):
                # parts a tier adds are present (absent parts are the lower tiers and the placement menu); epoch and the
                # pre-release number keep symbolic presence
                always = ['major', 'minor', 'patch', 'bumped_timestamp', 'pre_release', 'post', 'dev', 'distance', 'bumped_branch', 'bumped_commit_hash']
                if tier != 'quick':
                    always = ['major', 'minor', 'patch', 'bumped_timestamp', 'distance', 'bumped_commit_hash']
                cfg = dict(always=always, never=['last_timestamp'], num_max=9, text_len=1)   # thorough with 2-char texts in the 16 presets ran past the two-hour cap
                if tier == 'quick':
                    cfg.update(num_min_major=1, num_min_minor=1, num_min_patch=1, num_min_distance=1)
                # calendar correctness is C17's subject: presets use a fixed instant (2024-03-05T09:07:03Z: one-digit month/day)
                cfg['ts_concrete'] = 1709629623
                out.append(dict(name='preset_%s_%s%s' % (fam, tname, '_context' if ctx else ''), schema=(core, extra, CTX if ctx else []),
                                cfg=cfg, preset=True))
    return out
