"""C06 / C01 — rendering of (schema, vars) into SemVer and PEP 440 (MIR of semver/pep440 from_zerv, components.rs,
sanitize.rs, Display) against a reference renderer written from the statement; plus well-formedness of the strings."""
import os
import sys
import z3

sys.path.insert(0, os.path.dirname(os.path.dirname(os.path.abspath(__file__))))
from values import *        # noqa
import chars as C
from models import chars_of
from models_fmt import int_to_chars
import models_regex as MR
import c16
import c08
import models_chrono as MC
import c17

U64 = 2**64 - 1
U32 = 2**32 - 1
NUMVARS = ['major', 'minor', 'patch', 'epoch', 'post', 'dev', 'distance']
TEXTVARS = ['bumped_branch', 'bumped_commit_hash', 'last_branch', 'last_commit_hash']
# ZervVars field order (struct declaration order)
FIELDS = ['major', 'minor', 'patch', 'epoch', 'pre_release', 'post', 'dev', 'distance', 'dirty', 'bumped_branch',
          'bumped_commit_hash', 'bumped_timestamp', 'last_branch', 'last_commit_hash', 'last_timestamp',
          'last_tag_version', 'custom']
VAR_OF = {'Major': 'major', 'Minor': 'minor', 'Patch': 'patch', 'Epoch': 'epoch', 'Post': 'post', 'Dev': 'dev',
          'Distance': 'distance', 'Dirty': 'dirty', 'BumpedBranch': 'bumped_branch', 'BumpedCommitHash': 'bumped_commit_hash',
          'BumpedCommitHashShort': 'bumped_commit_hash', 'BumpedTimestamp': 'bumped_timestamp', 'LastBranch': 'last_branch',
          'LastCommitHash': 'last_commit_hash', 'LastCommitHashShort': 'last_commit_hash', 'LastTimestamp': 'last_timestamp',
          'PreRelease': 'pre_release'}
SECONDARY = ('Epoch', 'PreRelease', 'Post', 'Dev')
LABELS = ['alpha', 'beta', 'rc']


def comp_value(I, c):
    """component spec -> Component Adt.  spec: ('var', Name) | ('ts', pattern) | ('str', chars) | ('uint', n)"""
    vi = I.prog.variant_index
    if c[0] == 'var':
        return Adt('Component', vi('Component', 'Var'), [Adt('Var', vi('Var', c[1]), [])])
    if c[0] == 'ts':
        return Adt('Component', vi('Component', 'Var'), [Adt('Var', vi('Var', 'Timestamp'), [mkstring(c[1])])])
    if c[0] == 'str':
        return Adt('Component', vi('Component', 'Str'), [StringObj(c[1])])
    if c[0] == 'uint':
        return Adt('Component', vi('Component', 'UInt'), [c[1]])
    raise ValueError(c)


class SymVars:
    """symbolic ZervVars: only the variables the schema mentions are set (symbolic presence), the rest are None"""

    def __init__(self, w, I, used, cfg):
        self.w = w
        self.v = {}
        self.present = {}
        nmax = cfg.get('num_max', 99)
        tlen = cfg.get('text_len', 2)
        for f in NUMVARS:
            if f in used:
                self.present[f] = w.fresh_int('has_' + f, 0, 1)
                self.v[f] = w.fresh_int(f, cfg.get('num_min_' + f, 0), cfg.get('num_max_' + f, nmax))
        if 'pre_release' in used:
            self.present['pre_release'] = w.fresh_int('has_pre', 0, 1)
            self.v['pre_label'] = w.fresh_int('pre_label', 0, 2)
            self.present['pre_number'] = w.fresh_int('has_pre_n', 0, 1)
            self.v['pre_number'] = w.fresh_int('pre_number', 0, nmax)
        if 'dirty' in used:
            self.present['dirty'] = w.fresh_int('has_dirty', 0, 1)
            self.v['dirty'] = w.fresh_bool('dirty')
        for f in TEXTVARS:
            if f in used:
                self.present[f] = w.fresh_int('has_' + f, 0, 1)
                n = cfg.get('text_len_' + f, tlen)
                cs = [w.fresh_int('%s_c%d' % (f, i)) for i in range(n)]
                for c in cs:
                    w.assume(C.domain(c, alphabet=cfg.get('alphabet')))
                self.v[f] = cs
        for f in ('bumped_timestamp', 'last_timestamp'):
            if f in used:
                self.present[f] = w.fresh_int('has_' + f, 0, 1)
                self.v[f] = cfg['ts_concrete'] if 'ts_concrete' in cfg else w.fresh_int(f, 0, MC.END_2199 - 1)
        for f in cfg.get('always', ()):
            if f in self.present:
                w.restrict(self.present[f], 1, 1)
        for f in cfg.get('never', ()):
            if f in self.present:
                w.restrict(self.present[f], 0, 0)

    def opt(self, f, val):
        if f not in self.present:
            return none()
        return Adt('Option', self.present[f], [val])

    def value(self, I):
        vi = I.prog.variant_index
        fs = []
        for f in FIELDS:
            if f in NUMVARS or f in ('bumped_timestamp', 'last_timestamp'):
                fs.append(self.opt(f, self.v.get(f, 0)))
            elif f == 'pre_release':
                if f in self.present:
                    pr = Adt('PreReleaseVar', 0, [Adt('PreReleaseLabel', self.v['pre_label'], []),
                                                 Adt('Option', self.present['pre_number'], [self.v['pre_number']])])
                    fs.append(Adt('Option', self.present[f], [pr]))
                else:
                    fs.append(none())
            elif f == 'dirty':
                fs.append(self.opt(f, self.v.get(f, False)))
            elif f in TEXTVARS:
                fs.append(self.opt(f, StringObj(self.v[f]) if f in self.v else StringObj()))
            elif f == 'last_tag_version':
                fs.append(none())
            elif f == 'custom':
                from models_json import jobj
                fs.append(jobj([]))
        return Adt('ZervVars', 0, fs)

    def concrete(self, m):
        def ev(x):
            if isinstance(x, (int, bool)):
                return x
            r = m.eval(x, model_completion=True)
            return z3.is_true(r) if z3.is_bool(r) else r.as_long()
        out = {}
        for f, p in self.present.items():
            if f == 'pre_number':
                continue
            if not ev(p):
                out[f] = None
            elif f == 'pre_release':
                out[f] = dict(label=LABELS[ev(self.v['pre_label'])], number=ev(self.v['pre_number']) if ev(self.present['pre_number']) else None)
            elif f in TEXTVARS:
                out[f] = [ev(c) for c in self.v[f]]
            else:
                out[f] = ev(self.v[f])
        return out


# ------------------------------------------------------------------ reference renderer (from the statement)
class Ref:
    def __init__(self, w, sv):
        self.w = w
        self.sv = sv

    def has(self, f):
        return self.w.branch(self.sv.present[f] == 1)

    def raw(self, I, comp):
        """raw (unsanitised) value chars of a component, or None when it contributes nothing"""
        w, sv = self.w, self.sv
        if comp[0] == 'str':
            return list(comp[1])
        if comp[0] == 'uint':
            return int_to_chars(I, comp[1])
        if comp[0] == 'ts':
            for f in ('bumped_timestamp', 'last_timestamp'):
                if f in sv.present and self.has(f):
                    toks = c17.COMPOUND.get(comp[1], [comp[1]])
                    return c17.expected_chars(w, sv.v[f], toks)
            return None
        name = comp[1]
        f = VAR_OF[name]
        if name == 'PreRelease':
            if not self.has('pre_release') or not self.has('pre_number'):
                return None
            return int_to_chars(I, sv.v['pre_number'])
        if f not in sv.present or not self.has(f):
            return None
        if f == 'dirty':
            return [ord(c) for c in ('true' if w.branch(sv.v['dirty']) else 'false')]
        if f in TEXTVARS:
            cs = list(sv.v[f])
            if name.endswith('Short'):
                # first 8 bytes of the hash (documented as the short hash); shorter hashes stay whole
                if len(cs) >= 8:
                    cs = cs[:8]
            return cs
        return int_to_chars(I, sv.v[f])

    def uint(self, raw):
        """integer sanitiser: digits without leading zeros for a purely numeric value, else nothing"""
        w = self.w
        if raw is None or not raw:
            return None
        # the integer sanitiser trims surrounding whitespace first (pinned by a unit test; the statement is silent)
        raw = list(raw)
        while raw and not isinstance(raw[0], int) and w.branch(C.p_whitespace(raw[0])):
            raw = raw[1:]
        while raw and not isinstance(raw[-1], int) and w.branch(C.p_whitespace(raw[-1])):
            raw = raw[:-1]
        if not raw:
            return None
        if not w.branch(z3.And([C.p_ascii_digit(c) if not isinstance(c, int) else z3.BoolVal(48 <= c <= 57) for c in raw])):
            return None
        k = 0
        while k < len(raw) - 1 and w.branch(raw[k] == 48):
            k += 1
        return raw[k:]

    def runs(self, raw, lower):
        if raw is None:
            return []
        return [r for r in c16.ref_runs(self.w, raw, lower, False) if r]

    def fits(self, digits, bound):
        """does the decimal number fit below `bound` (inclusive)?"""
        n = len(digits)
        if n > len(str(bound)):
            return False
        if n < len(str(bound)):
            return True
        val = z3.Sum([(d - 48) * 10 ** (n - 1 - i) for i, d in enumerate(digits)]) if n > 1 else digits[0] - 48
        return self.w.branch(val <= bound)


def ref_semver(I, w, sv, schema):
    R = Ref(w, sv)
    core, extra, build = schema
    nums = [[48], [48], [48]]
    count = 0
    pre = []
    for comp in core:
        raw = R.raw(I, comp)
        d = R.uint(raw)
        if d is not None and count < 3 and R.fits(d, U64):
            nums[count] = d
            count += 1
            continue
        pre += R.runs(raw, False)
    for comp in extra:
        if comp[0] == 'var' and comp[1] in SECONDARY:
            name = comp[1]
            if name == 'PreRelease':
                if R.has('pre_release'):
                    lab = sv.v['pre_label']
                    k = w.concretize_int(lab, [0, 1, 2])
                    pre.append([ord(c) for c in LABELS[k]])
                    if R.has('pre_number'):
                        pre.append(int_to_chars(I, sv.v['pre_number']))
            else:
                f = VAR_OF[name]
                if R.has(f):
                    pre.append([ord(c) for c in f])
                    pre.append(int_to_chars(I, sv.v[f]))
        else:
            pre += R.runs(R.raw(I, comp), False)
    bld = []
    for comp in build:
        bld += R.runs(R.raw(I, comp), False)
    out = nums[0] + [46] + nums[1] + [46] + nums[2]
    if pre:
        out.append(45)
        for i, p in enumerate(pre):
            if i:
                out.append(46)
            out += p
    if bld:
        out.append(43)
        for i, p in enumerate(bld):
            if i:
                out.append(46)
            out += p
    return out


def ref_pep440(I, w, sv, schema):
    R = Ref(w, sv)
    core, extra, build = schema
    release = []
    local = []
    for comp in core:
        raw = R.raw(I, comp)
        d = R.uint(raw)
        if d is not None and R.fits(d, U32):
            release.append(d)
            continue
        local += R.runs(raw, True)
    if not release:
        release = [[48]]
    epoch = None
    pre = None
    post = None
    dev = None
    for comp in extra:
        if comp[0] == 'var' and comp[1] in SECONDARY:
            name = comp[1]
            if name == 'PreRelease':
                if R.has('pre_release'):
                    k = w.concretize_int(sv.v['pre_label'], [0, 1, 2])
                    n = int_to_chars(I, sv.v['pre_number']) if R.has('pre_number') else [48]
                    pre = ([97], [98], [114, 99])[k] + n
            else:
                f = VAR_OF[name]
                if R.has(f):
                    d = int_to_chars(I, sv.v[f])
                    if name == 'Epoch':
                        epoch = d
                    elif name == 'Post':
                        post = d
                    else:
                        dev = d
        else:
            local += R.runs(R.raw(I, comp), True)
    for comp in build:
        local += R.runs(R.raw(I, comp), True)
    out = []
    if epoch is not None and not (len(epoch) == 1 and w.branch(epoch[0] == 48)):
        out += epoch + [33]
    for i, r in enumerate(release):
        if i:
            out.append(46)
        out += r
    if pre:
        out += pre
    if post is not None:
        out += [46, 112, 111, 115, 116] + post
    if dev is not None:
        out += [46, 100, 101, 118] + dev
    if local:
        out.append(43)
        for i, p in enumerate(local):
            if i:
                out.append(46)
            out += p
    return out


# ------------------------------------------------------------------ paths
def used_vars(schema):
    used = set()
    for part in schema:
        for c in part:
            if c[0] == 'var':
                used.add(VAR_OF[c[1]])
            elif c[0] == 'ts':
                used |= {'bumped_timestamp', 'last_timestamp'}
    return used


def text_diff(w, a, b):
    if len(a) != len(b):
        return w.get_model()
    ds = [x != y for x, y in zip(a, b) if not (isinstance(x, int) and isinstance(y, int) and x == y)]
    ds = [d for d in ds if d is not False]
    if not ds:
        return None
    if any(d is True for d in ds):
        return w.get_model()
    return w.find(z3.Or(ds))


def mstr(m, cs):
    return ''.join(chr(m.eval(c, model_completion=True).as_long() if not isinstance(c, int) else c) for c in cs)


def path(ctx, arg):
    """arg = dict(schema=(core, extra, build) specs, cfg=..., mode='c06'|'c01', fmt='semver'|'pep440')"""
    I, w = ctx.I, ctx.w
    schema, cfg, fmt = arg['schema'], arg.get('cfg', {}), arg['fmt']
    name = arg.get('name', '')
    core, extra, build = [[comp_value(I, c) for c in part] for part in schema]
    r = I.call('ZervSchema::new', [VecObj(core), VecObj(extra), VecObj(build)])
    if r.variant != 0:
        ctx.tag('schema_invalid')
        return
    sv = SymVars(w, I, used_vars(schema), cfg)
    zerv = Adt('Zerv', 0, [r.fields[0], sv.value(I)])

    def viol(clause, m, detail, **kw):
        ctx.violation(clause=clause, schema=schema_json(schema), schema_text=schema_repr(schema), fmt=fmt, vars=sv.concrete(m), detail=detail, vkey='%s|%s|%s' % (clause, fmt, name), **kw)
    ty = 'SemVer' if fmt == 'semver' else 'PEP440'
    try:
        v = I.call('<%s as From<Zerv>>::from' % ty, [zerv])
        printed = chars_of(I.call('<%s as ToString>::to_string' % ty, [ValPtr(v)]))
    except Panic as e:
        viol('panic', w.get_model(), str(e))
        ctx.tag('panic')
        return
    ctx.tag('rendered')
    m0 = w.get_model()
    ctx.res.witness = dict(schema=schema_repr(schema), schema_json=schema_json(schema), fmt=fmt, vars=sv.concrete(m0), out=mstr(m0, printed))
    # C06: placement per the documented rules
    exp = (ref_semver if fmt == 'semver' else ref_pep440)(I, w, sv, schema)
    m = text_diff(w, printed, exp)
    if m is not None:
        viol('placement', m, 'rendered %r, the documented rules give %r' % (mstr(m, printed), mstr(m, exp)), out=mstr(m, printed), expected=mstr(m, exp))
    # C01 (judged independently of the placement verdict): well-formed, ASCII, accepted by zerv's own parser
    bad = [c > 127 for c in printed if not isinstance(c, int)] + [z3.BoolVal(True) for c in printed if isinstance(c, int) and c > 127]
    if bad:
        m = w.find(z3.Or(bad))
        if m is not None:
            viol('non_ascii_output', m, 'output %r contains non-ASCII' % mstr(m, printed), out=mstr(m, printed))
            return
    if fmt == 'semver':
        ok = MR.match(I, c08.spec_rx(), printed) is not None
    else:
        import c09
        ok = MR.match(I, normal_form_rx(), printed) is not None
    if not ok:
        m = w.get_model()
        viol('not_wellformed', m, 'output %r is not valid %s' % (mstr(m, printed), 'SemVer 2.0.0' if fmt == 'semver' else 'normalised PEP 440'), out=mstr(m, printed))
        return
    try:
        pr = I.call('<%s as FromStr>::from_str' % ty, [Str(printed)])
    except Panic as e:
        viol('panic', w.get_model(), 'parser: ' + str(e))
        return
    if pr.variant != 0:
        m = w.get_model()
        viol('own_parser_rejects', m, "zerv's own parser rejects its output %r" % mstr(m, printed), out=mstr(m, printed))
        return
    ctx.tag('wellformed')
    if arg.get('preset'):
        # re-rendering through the same format returns the string unchanged (preset schemas)
        try:
            z2 = I.call('<Zerv as From<%s>>::from' % ty, [pr.fields[0]])
            v2 = I.call('<%s as From<Zerv>>::from' % ty, [z2])
            p2 = chars_of(I.call('<%s as ToString>::to_string' % ty, [ValPtr(v2)]))
        except Panic as e:
            viol('panic', w.get_model(), 're-render: ' + str(e))
            return
        m = text_diff(w, printed, p2)
        if m is not None:
            viol('rerender_changes', m, 're-rendering %r gives %r' % (mstr(m, printed), mstr(m, p2)), out=mstr(m, printed))
            return
        ctx.tag('rerender_fixed_point')


def path_cli(ctx, arg):
    """C01, CLI layer: OutputFormatter::format_output(zerv, fmt, prefix, no template) = prefix ++ rendering, on one line;
    `zerv check --format fmt` (run_check_command) accepts the rendering and reports it as already normal"""
    I, w = ctx.I, ctx.w
    schema, cfg, fmt = arg['schema'], arg.get('cfg', {}), arg['fmt']
    name = arg.get('name', '')
    core, extra, build = [[comp_value(I, c) for c in part] for part in schema]
    r = I.call('ZervSchema::new', [VecObj(core), VecObj(extra), VecObj(build)])
    if r.variant != 0:
        ctx.tag('schema_invalid')
        return
    sv = SymVars(w, I, used_vars(schema), cfg)
    zerv = Adt('Zerv', 0, [r.fields[0], sv.value(I)])
    npre = arg.get('prefix_len')
    prefix = None
    if npre is not None:
        prefix = []
        for i in range(npre):
            c = z3.Int('pfx%d' % i)
            w.assume(C.domain(c))
            prefix.append(c)

    def viol(clause, m, detail, **kw):
        ctx.violation(clause=clause, schema=schema_json(schema), schema_text=schema_repr(schema), fmt=fmt, vars=sv.concrete(m), detail=detail,
                      prefix=None if prefix is None else [m.eval(c, model_completion=True).as_long() for c in prefix], vkey='%s|%s|%s' % (clause, fmt, name), **kw)
    ty = 'SemVer' if fmt == 'semver' else 'PEP440'
    try:
        ro = I.call('OutputFormatter::format_output', [ValPtr(zerv), Str([ord(c) for c in fmt]), some(Str(prefix)) if prefix is not None else none(), ValPtr(none())])
        v = I.call('<%s as From<Zerv>>::from' % ty, [deep_copy(zerv)])
        printed = chars_of(I.call('<%s as ToString>::to_string' % ty, [ValPtr(v)]))
    except Panic as e:
        viol('panic', w.get_model(), str(e))
        return
    if ro.variant != 0:
        viol('cli_output', w.get_model(), 'format_output failed')
        return
    out = chars_of(ro.fields[0])
    exp = (prefix or []) + printed
    m = text_diff(w, out, exp)
    if m is not None:
        viol('cli_output', m, 'format_output gives %r, expected prefix + rendering %r' % (mstr(m, out), mstr(m, exp)), out=mstr(m, out), expected=mstr(m, exp))
        return
    nl = [c == 10 for c in printed if not isinstance(c, int)] + [z3.BoolVal(True) for c in printed if isinstance(c, int) and c == 10]
    if nl and w.find(z3.Or(nl)) is not None:
        viol('cli_output', w.find(z3.Or(nl)), 'rendering contains a newline')
        return
    ctx.tag('cli_prefix_exact')
    # zerv's own `check` command on the rendering
    try:
        rc = I.call('run_check_command', [Adt('CheckArgs', 0, [StringObj(list(printed)), some(mkstring(fmt))])])
    except Panic as e:
        viol('panic', w.get_model(), 'check: ' + str(e))
        return
    if rc.variant != 0:
        m = w.get_model()
        viol('check_rejects', m, '`zerv check --format %s` rejects the rendering %r' % (fmt, mstr(m, printed)), out=mstr(m, printed))
        return
    msg = chars_of(rc.fields[0])
    tail = [ord(c) for c in ' format']
    if len(msg) < len(tail) or text_diff(w, msg[-len(tail):], tail) is not None:
        m = w.get_model()
        viol('check_rejects', m, '`zerv check` reports a different normal form for %r: %r' % (mstr(m, printed), mstr(m, msg)), out=mstr(m, printed))
        return
    ctx.tag('check_accepts_as_normal')


NF_PATTERN = (r'^(?:[1-9][0-9]*!)?(?:0|[1-9][0-9]*)(?:\.(?:0|[1-9][0-9]*))*(?:(?:a|b|rc)(?:0|[1-9][0-9]*))?'
              r'(?:\.post(?:0|[1-9][0-9]*))?(?:\.dev(?:0|[1-9][0-9]*))?'
              r'(?:\+(?:0|[1-9][0-9]*|[0-9]*[a-z][a-z0-9]*)(?:\.(?:0|[1-9][0-9]*|[0-9]*[a-z][a-z0-9]*))*)?$')
_NF = [None]


def normal_form_rx():
    if _NF[0] is None:
        _NF[0] = MR.RegexObj(NF_PATTERN, MR.compile_pattern(NF_PATTERN))
    return _NF[0]


def schema_json(schema):
    def one(c):
        if c[0] == 'var':
            return {'var': c[1]}
        if c[0] == 'ts':
            return {'ts': [ord(x) for x in c[1]]}
        if c[0] == 'str':
            return {'str': list(c[1])}
        return {'uint': c[1]}
    return [[one(c) for c in part] for part in schema]


def schema_repr(schema):
    def one(c):
        if c[0] == 'var':
            return c[1]
        if c[0] == 'ts':
            return 'ts(%s)' % c[1]
        if c[0] == 'str':
            return 'str(%s)' % ''.join(chr(x) if isinstance(x, int) else '?' for x in c[1])
        return 'uint(%s)' % c[1]
    return '[%s | %s | %s]' % tuple(', '.join(one(c) for c in part) for part in schema)


# ------------------------------------------------------------------ tier selection of the smart presets
def path_tier(ctx, preset):
    """the schema a smart preset returns depends only on dirty / distance / pre_release / post"""
    I, w = ctx.I, ctx.w
    vi = I.prog.variant_index
    used = {'major', 'minor', 'patch', 'epoch', 'post', 'dev', 'distance', 'dirty', 'pre_release', 'bumped_branch',
            'bumped_commit_hash', 'bumped_timestamp', 'last_timestamp'}
    sv = SymVars(w, I, used, dict(num_max=U64, text_len=1))
    p = Adt('ZervSchemaPreset', vi('ZervSchemaPreset', preset), [])
    s = I.call('ZervSchemaPreset::schema_with_zerv', [ValPtr(p), ValPtr(sv.value(I))])
    extra = peel(s.fields[1]).items
    build = peel(s.fields[2]).items
    got_extra = [peel(c).fields[0].variant for c in extra]
    got_ctx = len(build) > 0
    # decision table from the statement / docs
    dirty = z3.And(sv.present['dirty'] == 1, sv.v['dirty'])
    dist = z3.And(sv.present['distance'] == 1, sv.v['distance'] > 0)
    pre = sv.present['pre_release'] == 1
    post = sv.present['post'] == 1
    tier = z3.If(dirty, 3, z3.If(z3.Or(dist, z3.And(pre, post)), 2, z3.If(pre, 1, 0)))
    E, P, PO, D = vi('Var', 'Epoch'), vi('Var', 'PreRelease'), vi('Var', 'Post'), vi('Var', 'Dev')
    tiers = [[E], [E, P], [E, P, PO], [E, P, PO, D]]
    if got_extra not in tiers:
        ctx.violation(clause='tier', preset=preset, vars=sv.concrete(w.get_model()), detail='unexpected extra-core %r' % got_extra, vkey='tier|' + preset)
        return
    k = tiers.index(got_extra)
    conds = [tier != k]
    if preset in ('Standard', 'Calver'):
        conds.append(z3.BoolVal(got_ctx) != z3.Or(dirty, dist))
    elif preset.endswith('NoContext'):
        conds.append(z3.BoolVal(got_ctx))
    else:
        conds.append(z3.BoolVal(not got_ctx))
    ctx.tag('tier%d' % k)
    m = w.find(z3.Or(conds))
    if m is not None:
        ctx.violation(clause='tier', preset=preset, vars=sv.concrete(m), detail='preset %s chose tier %d / context %s against the decision table' % (preset, k, got_ctx),
                      vkey='tier|' + preset)
