#!/bin/bash
# Offline set-up after a fresh restore: warm the two build caches the checks use (they rebuild from /repo anyway).
set -u
cd "$(dirname "$0")"
export CARGO_NET_OFFLINE=true
export PYTHONPATH="$PWD/msym"
mkdir -p build evidence
python3-vt - <<'PY'
import sys
sys.path.insert(0, 'msym')
import engine, native
engine.dump_mir(force=True)
native.build()
print('setup ok')
PY
