//! further operations (added per property)
use serde_json::{json, Value};

use crate::{cps_to_string, pep440_from_json, pep440_to_json, semver_from_json, semver_to_json, string_to_cps};
use zerv::version::{SemVer, Zerv, PEP440};

pub fn dispatch(op: &str, req: &Value) -> Value {
    match op {
        "resolve_timestamp" => resolve_ts(req),
        "ts_sweep" => ts_sweep(req),
        "semver_convert" => semver_convert(req),
        "pep_convert" => pep_convert(req),
        "render" => render(req),
        "git_vcs" => git_vcs(req),
        "format_output" => format_output(req),
        "check" => check_cmd(req),
        "preset_schema" => preset_schema(req),
        "bump" => bump(req),
        "branch_rules" => branch_rules(req),
        "template" => template(req),
        "parts" => parts(req),
        "schema_check" => schema_check(req),
        "custom_value" => custom_value(req),
        "flow" => flow(req),
        "context" => context(req),
        "ron_roundtrip" => ron_roundtrip(req),
        "zerv_roundtrip" => zerv_roundtrip(req),
        "find_root" => find_root(req),
        "format_template" => format_template(req),
        _ => json!({"error": format!("unknown op {op}")}),
    }
}

fn resolve_ts(req: &Value) -> Value {
    let p = cps_to_string(&req["pattern"]);
    match zerv::version::zerv::resolve_timestamp(&p, req["ts"].as_u64().unwrap()) {
        Ok(s) => json!({"ok": true, "out": string_to_cps(&s)}),
        Err(e) => json!({"ok": false, "err": e.to_string()}),
    }
}

fn civil(z: i64) -> (i64, u32, u32) {
    let z = z + 719_468;
    let era = if z >= 0 { z } else { z - 146_096 } / 146_097;
    let doe = (z - era * 146_097) as u64;
    let yoe = (doe - doe / 1460 + doe / 36_524 - doe / 146_096) / 365;
    let y = yoe as i64 + era * 400;
    let doy = doe - (365 * yoe + yoe / 4 - yoe / 100);
    let mp = (5 * doy + 2) / 153;
    let d = (doy - (153 * mp + 2) / 5 + 1) as u32;
    let m = if mp < 10 { mp + 3 } else { mp - 9 } as u32;
    (if m <= 2 { y + 1 } else { y }, m, d)
}

pub fn reference(pattern: &str, ts: u64) -> String {
    let days = (ts / 86_400) as i64;
    let sod = ts % 86_400;
    let (y, m, d) = civil(days);
    let leap = (y % 4 == 0 && y % 100 != 0) || y % 400 == 0;
    let cum = [0u32, 31, 59, 90, 120, 151, 181, 212, 243, 273, 304, 334];
    let ord = cum[(m - 1) as usize] + d + if leap && m > 2 { 1 } else { 0 };
    let wd = ((days + 3) % 7) as u32;
    let week = (ord + 6 - wd) / 7;
    let (h, mi, s) = (sod / 3600, (sod % 3600) / 60, sod % 60);
    match pattern {
        "YYYY" => format!("{:04}", y),
        "YY" => format!("{:02}", y % 100),
        "MM" => format!("{}", m),
        "0M" => format!("{:02}", m),
        "DD" => format!("{}", d),
        "0D" => format!("{:02}", d),
        "HH" => format!("{}", h),
        "0H" => format!("{:02}", h),
        "mm" => format!("{}", mi),
        "0m" => format!("{:02}", mi),
        "SS" => format!("{}", s),
        "0S" => format!("{:02}", s),
        "WW" => format!("{}", week),
        "0W" => format!("{:02}", week),
        "compact_date" => format!("{:04}{:02}{:02}", y, m, d),
        "compact_datetime" => format!("{:04}{:02}{:02}{:02}{:02}{:02}", y, m, d, h, mi, s),
        _ => String::from("?"),
    }
}

/// every day 1970-01-01..2199-12-31 at its first and last second (+ seeded instants), all 16 patterns
fn ts_sweep(req: &Value) -> Value {
    let pats = ["YYYY", "YY", "MM", "0M", "DD", "0D", "HH", "0H", "mm", "0m", "SS", "0S", "WW", "0W", "compact_date", "compact_datetime"];
    let mut seed = req["seed"].as_u64().unwrap_or(0).wrapping_mul(6364136223846793005).wrapping_add(1442695040888963407);
    let mut n = 0u64;
    let mut bad: Vec<Value> = vec![];
    let last_day = 7_258_118_400u64 / 86_400;
    for day in 0..last_day {
        seed = seed.wrapping_mul(6364136223846793005).wrapping_add(1442695040888963407);
        let inside = (seed >> 33) % 86_400;
        for ts in [day * 86_400, day * 86_400 + 86_399, day * 86_400 + inside] {
            for p in pats.iter() {
                n += 1;
                let got = zerv::version::zerv::resolve_timestamp(p, ts).ok();
                let exp = reference(p, ts);
                if got.as_deref() != Some(exp.as_str()) && bad.len() < 5 {
                    bad.push(json!({"pattern": p, "ts": ts, "got": got, "expected": exp}));
                }
            }
        }
    }
    json!({"evaluations": n, "mismatches": bad})
}

fn semver_convert(req: &Value) -> Value {
    let a = semver_from_json(&req["v"]);
    let z: Zerv = a.clone().into();
    let back: SemVer = z.clone().into();
    let pep: PEP440 = z.clone().into();
    let z2: Zerv = pep.clone().into();
    let back2: SemVer = z2.into();
    json!({"back": semver_to_json(&back), "pep": pep440_to_json(&pep), "back_from_pep": semver_to_json(&back2),
        "printed": string_to_cps(&a.to_string()), "back_printed": string_to_cps(&back.to_string()),
        "pep_printed": string_to_cps(&pep.to_string()), "back_from_pep_printed": string_to_cps(&back2.to_string())})
}

fn pep_convert(req: &Value) -> Value {
    let a = pep440_from_json(&req["p"]);
    let z: Zerv = a.clone().into();
    let sv: SemVer = z.into();
    let z2: Zerv = sv.clone().into();
    let back: PEP440 = z2.into();
    let z3: Zerv = sv.clone().into();
    let sv2: SemVer = z3.into();
    json!({"semver_printed": string_to_cps(&sv.to_string()), "semver_again_printed": string_to_cps(&sv2.to_string()),
        "back": pep440_to_json(&back), "equal": a == back && a.cmp(&back) == std::cmp::Ordering::Equal,
        "printed": string_to_cps(&a.to_string()), "back_printed": string_to_cps(&back.to_string())})
}

use zerv::version::zerv::{Component, PreReleaseLabel, PreReleaseVar, Var, ZervSchema, ZervVars};

fn var_of(name: &str) -> Var {
    match name {
        "Major" => Var::Major, "Minor" => Var::Minor, "Patch" => Var::Patch, "Epoch" => Var::Epoch,
        "PreRelease" => Var::PreRelease, "Post" => Var::Post, "Dev" => Var::Dev, "Distance" => Var::Distance,
        "Dirty" => Var::Dirty, "BumpedBranch" => Var::BumpedBranch, "BumpedCommitHash" => Var::BumpedCommitHash,
        "BumpedCommitHashShort" => Var::BumpedCommitHashShort, "BumpedTimestamp" => Var::BumpedTimestamp,
        "LastBranch" => Var::LastBranch, "LastCommitHash" => Var::LastCommitHash,
        "LastCommitHashShort" => Var::LastCommitHashShort, "LastTimestamp" => Var::LastTimestamp,
        other => panic!("unknown var {other}"),
    }
}

fn comps(v: &Value) -> Vec<Component> {
    v.as_array().unwrap().iter().map(|c| {
        if let Some(n) = c["var"].as_str() { Component::Var(var_of(n)) }
        else if !c["ts"].is_null() { Component::Var(Var::Timestamp(cps_to_string(&c["ts"]))) }
        else if !c["str"].is_null() { Component::Str(cps_to_string(&c["str"])) }
        else { Component::UInt(c["uint"].as_u64().unwrap()) }
    }).collect()
}

pub fn vars_of(v: &Value) -> ZervVars {
    let mut z = ZervVars::default();
    z.custom = serde_json::json!({});
    let s = |k: &str| -> Option<String> { if v[k].is_null() { None } else { Some(cps_to_string(&v[k])) } };
    z.major = v["major"].as_u64(); z.minor = v["minor"].as_u64(); z.patch = v["patch"].as_u64();
    z.epoch = v["epoch"].as_u64(); z.post = v["post"].as_u64(); z.dev = v["dev"].as_u64();
    z.distance = v["distance"].as_u64(); z.dirty = v["dirty"].as_bool();
    z.bumped_branch = s("bumped_branch"); z.bumped_commit_hash = s("bumped_commit_hash");
    z.last_branch = s("last_branch"); z.last_commit_hash = s("last_commit_hash");
    z.bumped_timestamp = v["bumped_timestamp"].as_u64(); z.last_timestamp = v["last_timestamp"].as_u64();
    z.last_tag_version = s("last_tag_version");
    if !v["pre_release"].is_null() {
        let label = match v["pre_release"]["label"].as_str().unwrap() { "alpha" => PreReleaseLabel::Alpha, "beta" => PreReleaseLabel::Beta, _ => PreReleaseLabel::Rc };
        z.pre_release = Some(PreReleaseVar { label, number: v["pre_release"]["number"].as_u64() });
    }
    z
}

fn render(req: &Value) -> Value {
    use std::str::FromStr;
    let sch = &req["schema"];
    let schema = match ZervSchema::new(comps(&sch[0]), comps(&sch[1]), comps(&sch[2])) {
        Ok(s) => s,
        Err(e) => return json!({"error": format!("schema: {e}")}),
    };
    let zerv = Zerv { schema, vars: vars_of(&req["vars"]) };
    if req["fmt"].as_str() == Some("semver") {
        let v: SemVer = zerv.into();
        let out = v.to_string();
        let rp = SemVer::from_str(&out);
        let rer = rp.as_ref().ok().map(|p| { let z: Zerv = p.clone().into(); let w: SemVer = z.into(); string_to_cps(&w.to_string()) });
        json!({"out": string_to_cps(&out), "reparse_ok": rp.is_ok(), "rerendered": rer})
    } else {
        let v: PEP440 = zerv.into();
        let out = v.to_string();
        let rp = PEP440::from_str(&out);
        let rer = rp.as_ref().ok().map(|p| { let z: Zerv = p.clone().into(); let w: PEP440 = z.into(); string_to_cps(&w.to_string()) });
        json!({"out": string_to_cps(&out), "reparse_ok": rp.is_ok(), "rerendered": rer})
    }
}

fn git_vcs(req: &Value) -> Value {
    use zerv::vcs::Vcs;
    let path = std::path::PathBuf::from(req["path"].as_str().unwrap());
    let fmt = req["fmt"].as_str().unwrap();
    let vcs = match zerv::vcs::git::GitVcs::new(&path) {
        Ok(v) => v,
        Err(e) => return json!({"ok": false, "err": format!("new: {e}")}),
    };
    let d = match vcs.get_vcs_data(fmt) {
        Ok(d) => d,
        Err(e) => return json!({"ok": false, "err": e.to_string()}),
    };
    let data = json!({"tag_version": d.tag_version, "tag_commit_hash": d.tag_commit_hash, "tag_timestamp": d.tag_timestamp,
        "commit_hash": d.commit_hash, "commit_hash_prefix": d.commit_hash_prefix, "commit_timestamp": d.commit_timestamp,
        "current_branch": d.current_branch, "is_dirty": d.is_dirty, "distance": d.distance});
    match zerv::pipeline::vcs_data_to_zerv_vars(d, fmt) {
        Ok(v) => json!({"ok": true, "data": data, "vars_ok": true, "vars": {"major": v.major, "minor": v.minor, "patch": v.patch,
            "distance": v.distance, "dirty": v.dirty, "bumped_branch": v.bumped_branch, "bumped_commit_hash": v.bumped_commit_hash,
            "last_commit_hash": v.last_commit_hash, "bumped_timestamp": v.bumped_timestamp, "last_timestamp": v.last_timestamp,
            "last_tag_version": v.last_tag_version}}),
        Err(e) => json!({"ok": true, "data": data, "vars_ok": false, "vars_err": format!("{e:?}")}),
    }
}

fn format_output(req: &Value) -> Value {
    let sch = &req["schema"];
    let schema = match ZervSchema::new(comps(&sch[0]), comps(&sch[1]), comps(&sch[2])) {
        Ok(s) => s,
        Err(e) => return json!({"error": format!("schema: {e}")}),
    };
    let zerv = Zerv { schema, vars: vars_of(&req["vars"]) };
    let prefix = if req["prefix"].is_null() { None } else { Some(cps_to_string(&req["prefix"])) };
    match zerv::cli::utils::output_formatter::OutputFormatter::format_output(&zerv, req["fmt"].as_str().unwrap(), prefix.as_deref(), &None) {
        Ok(s) => json!({"ok": true, "out": string_to_cps(&s)}),
        Err(e) => json!({"ok": false, "err": e.to_string()}),
    }
}

fn check_cmd(req: &Value) -> Value {
    let args = zerv::cli::check::CheckArgs { version: cps_to_string(&req["version"]), format: req["fmt"].as_str().map(|s| s.to_string()) };
    match zerv::cli::check::run_check_command(args) {
        Ok(s) => json!({"ok": true, "out": string_to_cps(&s)}),
        Err(e) => json!({"ok": false, "err": e.to_string()}),
    }
}

fn preset_schema(req: &Value) -> Value {
    use std::str::FromStr;
    let name = req["preset"].as_str().unwrap();
    let kebab: String = name.chars().enumerate().flat_map(|(i, c)| {
        if c.is_uppercase() && i > 0 { vec!['-', c.to_ascii_lowercase()] } else { vec![c.to_ascii_lowercase()] } }).collect();
    match zerv::schema::ZervSchemaPreset::from_str(&kebab) {
        Ok(p) => { let s = p.schema_with_zerv(&vars_of(&req["vars"])); json!({"schema": format!("{:?}", s)}) }
        Err(e) => json!({"error": e.to_string()}),
    }
}

pub fn vars_to_json(z: &ZervVars) -> Value {
    let pre = z.pre_release.as_ref().map(|p| json!({"label": match p.label { PreReleaseLabel::Alpha => "alpha", PreReleaseLabel::Beta => "beta", PreReleaseLabel::Rc => "rc" }, "number": p.number}));
    json!({"major": z.major, "minor": z.minor, "patch": z.patch, "epoch": z.epoch, "post": z.post, "dev": z.dev, "pre_release": pre,
        "distance": z.distance, "dirty": z.dirty, "bumped_timestamp": z.bumped_timestamp})
}

fn strs(v: &Value) -> Vec<String> {
    v.as_array().map(|a| a.iter().map(|x| x.as_str().unwrap().to_string()).collect()).unwrap_or_default()
}

fn bump(req: &Value) -> Value {
    use zerv::cli::version::args::{ResolvedArgs, ResolvedBumps, ResolvedOverrides, VersionArgs};
    let sch = &req["schema"];
    let schema = match ZervSchema::new(comps(&sch[0]), comps(&sch[1]), comps(&sch[2])) {
        Ok(s) => s,
        Err(e) => return json!({"error": format!("schema: {e}")}),
    };
    let mut zerv = Zerv { schema, vars: vars_of(&req["vars"]) };
    let o = &req["overrides"];
    let b = &req["bumps"];
    let u = |v: &Value| v.as_u64().map(|x| x as u32);
    let mut ov = ResolvedOverrides::default();
    ov.major = u(&o["major"]); ov.minor = u(&o["minor"]); ov.patch = u(&o["patch"]); ov.epoch = u(&o["epoch"]);
    ov.post = u(&o["post"]); ov.dev = u(&o["dev"]); ov.pre_release_num = u(&o["pre_release_num"]);
    ov.pre_release_label = req["ov_label"].as_str().map(|s| s.to_string());
    ov.core = strs(&req["ov_core"]); ov.extra_core = strs(&req["ov_extra_core"]); ov.build = strs(&req["ov_build"]);
    let mut bp = ResolvedBumps::default();
    let bb = |v: &Value| v.as_u64().map(|x| Some(x as u32));
    bp.bump_major = bb(&b["major"]); bp.bump_minor = bb(&b["minor"]); bp.bump_patch = bb(&b["patch"]); bp.bump_epoch = bb(&b["epoch"]);
    bp.bump_post = bb(&b["post"]); bp.bump_dev = bb(&b["dev"]); bp.bump_pre_release_num = bb(&b["pre_release_num"]);
    bp.bump_pre_release_label = req["bp_label"].as_str().map(|s| s.to_string());
    bp.bump_core = strs(&req["bp_core"]); bp.bump_extra_core = strs(&req["bp_extra_core"]); bp.bump_build = strs(&req["bp_build"]);
    let va = VersionArgs::default();
    let args = ResolvedArgs { overrides: ov, bumps: bp, input: va.input.clone(), output: va.output.clone() };
    match zerv.apply_component_processing(&args) {
        Ok(()) => json!({"ok": true, "vars": vars_to_json(&zerv.vars), "schema": format!("{:?}", zerv.schema)}),
        Err(e) => json!({"ok": false, "err": e.to_string()}),
    }
}

fn branch_rules(req: &Value) -> Value {
    use zerv::cli::flow::args::branch_rules::BranchRulesConfig;
    use zerv::cli::flow::branch_rules::{BranchRule, BranchRules, PostMode, PreReleaseLabel as FL};
    let rules = if req["rules"].is_null() {
        BranchRules::default_rules()
    } else {
        let v: Vec<BranchRule> = req["rules"].as_array().unwrap().iter().map(|r| BranchRule {
            pattern: r[0].as_str().unwrap().to_string(),
            pre_release_label: match r[1].as_str().unwrap() { "alpha" => FL::Alpha, "beta" => FL::Beta, _ => FL::Rc },
            pre_release_num: r[2].as_u64().map(|x| x as u32),
            post_mode: if r[3].as_str() == Some("tag") { PostMode::Tag } else { PostMode::Commit },
        }).collect();
        match BranchRules::new(v) { Ok(r) => r, Err(e) => return json!({"error": e.to_string()}) }
    };
    let mut cfg = BranchRulesConfig { pre_release_label: req["label"].as_str().map(|s| s.to_string()),
        pre_release_num: req["num"].as_u64().map(|x| x as u32), post_mode: req["mode"].as_str().map(|s| s.to_string()), branch_rules: rules };
    let mut vars = ZervVars::default();
    if !req["branch"].is_null() { vars.bumped_branch = Some(cps_to_string(&req["branch"])); }
    let zerv = Zerv { schema: ZervSchema::new(vec![Component::Var(Var::Major)], vec![], vec![]).unwrap(), vars };
    match cfg.apply_branch_rules(&zerv) {
        Ok(()) => json!({"ok": true, "label": cfg.pre_release_label, "num": cfg.pre_release_num, "mode": cfg.post_mode}),
        Err(e) => json!({"ok": false, "err": e.to_string()}),
    }
}

/// render a template string against a Zerv built from `vars` (schema: major only); as = "string" | "u32"
fn template(req: &Value) -> Value {
    use zerv::cli::utils::template::Template;
    let zerv = Zerv { schema: ZervSchema::new(vec![Component::Var(Var::Major)], vec![], vec![]).unwrap(), vars: vars_of(&req["vars"]) };
    let text = cps_to_string(&req["template"]);
    if req["as"].as_str() == Some("u32") {
        match Template::<u32>::new(text).render(Some(&zerv)) {
            Ok(v) => json!({"ok": true, "value": v}),
            Err(e) => json!({"ok": false, "err": e.to_string()}),
        }
    } else {
        match Template::<String>::new(text).render(Some(&zerv)) {
            Ok(v) => json!({"ok": true, "value": v.map(|s| string_to_cps(&s))}),
            Err(e) => json!({"ok": false, "err": e.to_string()}),
        }
    }
}

fn ostr(o: Option<String>) -> Value { match o { Some(s) => string_to_cps(&s), None => Value::Null } }

fn parts(req: &Value) -> Value {
    if !req["v"].is_null() {
        let v = semver_from_json(&req["v"]);
        json!({"full": string_to_cps(&v.to_string()), "base": string_to_cps(&v.to_base_part()), "pre": ostr(v.to_pre_release_part()),
            "build": ostr(v.to_build_part()), "docker": string_to_cps(&v.to_docker_format())})
    } else {
        let p = pep440_from_json(&req["p"]);
        json!({"full": string_to_cps(&p.to_string()), "base": string_to_cps(&p.to_base_part()), "pre": ostr(p.to_pre_release_part()),
            "build": ostr(p.to_build_part())})
    }
}

fn context(req: &Value) -> Value {
    use zerv::cli::utils::template::ZervTemplateContext;
    let sch = &req["schema"];
    let schema = match ZervSchema::new(comps(&sch[0]), comps(&sch[1]), comps(&sch[2])) { Ok(s) => s, Err(e) => return json!({"error": e.to_string()}) };
    let zerv = Zerv { schema, vars: vars_of(&req["vars"]) };
    let c = ZervTemplateContext::from_zerv(&zerv);
    let s: SemVer = zerv.clone().into();
    let p: PEP440 = zerv.clone().into();
    json!({"semver": string_to_cps(&c.semver), "pep440": string_to_cps(&c.pep440), "semver_direct": string_to_cps(&s.to_string()), "pep440_direct": string_to_cps(&p.to_string()),
        "sv_base": string_to_cps(&c.semver_obj.base_part), "sv_pre": ostr(c.semver_obj.pre_release_part), "sv_build": ostr(c.semver_obj.build_part), "docker": string_to_cps(&c.semver_obj.docker),
        "pp_base": string_to_cps(&c.pep440_obj.base_part), "pp_pre": ostr(c.pep440_obj.pre_release_part), "pp_build": ostr(c.pep440_obj.build_part),
        "major": c.major, "minor": c.minor, "patch": c.patch, "epoch": c.epoch, "post": c.post, "dev": c.dev, "distance": c.distance})
}

fn schema_check(req: &Value) -> Value {
    let sch = &req["schema"];
    let (c, e, b) = (comps(&sch[0]), comps(&sch[1]), comps(&sch[2]));
    let how = req["how"].as_str().unwrap_or("new");
    let base = || ZervSchema::new(vec![Component::Var(Var::Major)], vec![Component::Var(Var::Epoch)], vec![Component::Var(Var::Distance)]).unwrap();
    let r: Result<(), zerv::error::ZervError> = match how {
        "set_core" => { let mut s = base(); s.set_core(c) }
        "set_extra_core" => { let mut s = base(); s.set_extra_core(e) }
        "set_build" => { let mut s = base(); s.set_build(b) }
        _ => ZervSchema::new(c, e, b).map(|_| ()),
    };
    match r { Ok(()) => json!({"ok": true}), Err(e) => json!({"ok": false, "err": e.to_string()}) }
}

fn custom_value(req: &Value) -> Value {
    let mut v = ZervVars::default();
    v.custom = serde_json::json!({"a": ["x", 7], "b": {"c": "y", "0": true}, "s": "z", "n": null});
    json!({"value": v.get_custom_value(&cps_to_string(&req["key"]))})
}

/// the real flow pipeline on a stdin RON document built from `vars` (schema: standard-base-prerelease-post-dev-context
/// in the document; the schema in effect is whatever --schema in argv says)
fn flow(req: &Value) -> Value {
    use clap::Parser;
    use zerv::cli::flow::args::FlowArgs;
    use zerv::cli::flow::pipeline::run_flow_pipeline;
    let schema = ZervSchema::new(
        vec![Component::Var(Var::Major), Component::Var(Var::Minor), Component::Var(Var::Patch)],
        vec![Component::Var(Var::Epoch), Component::Var(Var::PreRelease), Component::Var(Var::Post), Component::Var(Var::Dev)],
        vec![Component::Var(Var::BumpedBranch), Component::Var(Var::Distance), Component::Var(Var::BumpedCommitHashShort)]).unwrap();
    let mut vars = vars_of(&req["vars"]);
    vars.bumped_commit_hash = Some("g1a2b3c4d5e".to_string());
    vars.bumped_timestamp = Some(1_700_000_000);
    vars.last_timestamp = Some(1_690_000_000);
    vars.last_commit_hash = Some("g0f0f0f0f0f".to_string());
    let doc = Zerv { schema, vars }.to_string();
    let mut argv: Vec<String> = vec!["flow".into()];
    for a in req["argv"].as_array().unwrap() { argv.push(a.as_str().unwrap().to_string()); }
    let args = match FlowArgs::try_parse_from(argv) { Ok(a) => a, Err(e) => return json!({"ok": false, "err": format!("argv: {e}")}) };
    match run_flow_pipeline(args, Some(&doc)) {
        Ok(out) => json!({"ok": true, "out": string_to_cps(&out)}),
        Err(e) => json!({"ok": false, "err": e.to_string()}),
    }
}


/// parse a Zerv RON document with zerv's own FromStr, emit it with its Display (ron), parse and emit again
fn ron_roundtrip(req: &Value) -> Value {
    use std::str::FromStr;
    let text = cps_to_string(&req["text"]);
    let z = match Zerv::from_str(&text) { Ok(z) => z, Err(e) => return json!({"ok": false, "err": e.to_string()}) };
    let emitted = z.to_string();
    let z2 = match Zerv::from_str(&emitted) { Ok(z) => z, Err(e) => return json!({"ok": true, "emitted": emitted, "reparse_err": e.to_string()}) };
    let emitted2 = z2.to_string();
    json!({"ok": true, "emitted": emitted, "emitted2": emitted2,
           "object": format!("{:?}|{:?}", z, z.schema.precedence_order().to_vec()),
           "object2": format!("{:?}|{:?}", z2, z2.schema.precedence_order().to_vec())})
}


/// an object built in memory (not parsed): emit with Display (ron), parse back with FromStr, compare
fn zerv_roundtrip(req: &Value) -> Value {
    use std::str::FromStr;
    use zerv::version::zerv::bump::precedence::{Precedence, PrecedenceOrder};
    let core = vec![Component::Var(Var::Major), Component::Var(Var::Minor), Component::Var(Var::Patch)];
    let extra = vec![Component::Var(Var::Epoch), Component::Var(Var::PreRelease), Component::Var(Var::Post), Component::Var(Var::Dev)];
    // optional last build component: ["var", name] | ["ts", text] | ["custom", text] | ["str", text] | ["uint", n]
    let mut build = vec![Component::Var(Var::BumpedBranch)];
    match req.get("build_kind").and_then(|k| k.as_array()) {
        Some(k) => {
            let p = k[1].as_str().unwrap_or("").to_string();
            build.push(match k[0].as_str().unwrap() {
                "var" => Component::Var(var_of(&p)),
                "ts" => Component::Var(Var::Timestamp(p)),
                "custom" => Component::Var(Var::Custom(p)),
                "str" => Component::Str(p),
                _ => Component::UInt(k[1].as_u64().unwrap_or(0)),
            });
        }
        None => build.push(Component::Var(Var::BumpedCommitHashShort)),
    }
    let schema = match req.get("order").and_then(|o| o.as_array()) {
        Some(names) => {
            let ps: Vec<Precedence> = names.iter().map(|n| match n.as_str().unwrap() {
                "Epoch" => Precedence::Epoch, "Major" => Precedence::Major, "Minor" => Precedence::Minor, "Patch" => Precedence::Patch,
                "Core" => Precedence::Core, "PreReleaseLabel" => Precedence::PreReleaseLabel, "PreReleaseNum" => Precedence::PreReleaseNum,
                "Post" => Precedence::Post, "Dev" => Precedence::Dev, "ExtraCore" => Precedence::ExtraCore, _ => Precedence::Build }).collect();
            ZervSchema::new_with_precedence(core, extra, build, PrecedenceOrder::from_precedences(ps)).unwrap()
        }
        None => ZervSchema::new(core, extra, build).unwrap(),
    };
    let z = Zerv { schema, vars: vars_of(&req["vars"]) };
    if req["pipe"].as_bool() == Some(true) {
        // the steps of the pipe kernel on the real code: what a direct run ends with (to_zerv, default arguments), its
        // emitted document through the stdin source, and to_zerv again
        use zerv::cli::version::{process_cached_stdin_source, VersionArgs, ZervDraft};
        let args = VersionArgs::default();
        let z1 = match ZervDraft::new(z.vars.clone(), Some(z.schema.clone())).to_zerv(&args) { Ok(z) => z, Err(e) => return json!({"ok": false, "stage": 1, "err": e.to_string()}) };
        let doc = z1.to_string();
        let d2 = match process_cached_stdin_source(&args, Some(&doc)) { Ok(d) => d, Err(e) => return json!({"ok": false, "stage": 2, "err": e.to_string()}) };
        let z2 = match d2.to_zerv(&args) { Ok(z) => z, Err(e) => return json!({"ok": false, "stage": 3, "err": e.to_string()}) };
        return json!({"ok": true, "emitted": doc, "emitted2": z2.to_string(),
                      "object": format!("{:?}|{:?}", z1, z1.schema.precedence_order().to_vec()),
                      "object2": format!("{:?}|{:?}", z2, z2.schema.precedence_order().to_vec())});
    }
    let emitted = z.to_string();
    let z2 = match Zerv::from_str(&emitted) { Ok(z) => z, Err(e) => return json!({"ok": false, "emitted": emitted, "err": e.to_string()}) };
    json!({"ok": true, "emitted": emitted, "emitted2": z2.to_string(),
           "object": format!("{:?}|{:?}", z, z.schema.precedence_order().to_vec()),
           "object2": format!("{:?}|{:?}", z2, z2.schema.precedence_order().to_vec())})
}


/// repository discovery on a real directory tree from a given current directory (C14 replay): builds
/// <tmp>/r/s/t, <tmp>/x/y and <tmp><root>/.git, changes into the requested directory (or into a directory that is then
/// removed, so that getcwd fails), calls find_vcs_root_with_limit on the start path, and changes back to `/`
fn find_root(req: &Value) -> Value {
    use std::fs;
    let base = std::env::temp_dir().join(format!("verif_c14_{}_{}", std::process::id(), req["nonce"].as_u64().unwrap_or(0)));
    let _ = fs::remove_dir_all(&base);
    let b = base.to_str().unwrap().to_string();
    for d in ["r/s/t", "x/y"] { fs::create_dir_all(base.join(d)).unwrap(); }
    if let Some(root) = req["root"].as_str() { fs::create_dir_all(format!("{b}{root}/.git")).unwrap(); }
    let start = req["start"].as_str().unwrap();
    let start_path = if start.starts_with('/') { format!("{b}{start}") } else { start.to_string() };
    let depth = req["depth"].as_u64().map(|d| d as usize);
    match req["cwd"].as_str() {
        Some(c) => std::env::set_current_dir(format!("{b}{c}")).unwrap(),
        None => { let g = base.join("gone"); fs::create_dir_all(&g).unwrap(); std::env::set_current_dir(&g).unwrap(); fs::remove_dir(&g).unwrap(); }
    }
    let r = zerv::vcs::find_vcs_root_with_limit(std::path::Path::new(&start_path), depth);
    std::env::set_current_dir("/").unwrap();
    let _ = fs::remove_dir_all(&base);
    match r {
        Ok(p) => json!({"ok": true, "root": p.to_str().unwrap().strip_prefix(&b).map(|x| x.to_string()).unwrap_or_else(|| p.to_str().unwrap().to_string())}),
        Err(e) => json!({"ok": false, "err": e.to_string()}),
    }
}


/// OutputFormatter::format_output on an object built from schema + vars: with the given template, and without one in
/// both formats (C15 replay: the CLI's template branch against the plain renderings)
fn format_template(req: &Value) -> Value {
    use zerv::cli::utils::output_formatter::OutputFormatter;
    use zerv::cli::utils::template::Template;
    let sch = &req["schema"];
    let schema = match ZervSchema::new(comps(&sch[0]), comps(&sch[1]), comps(&sch[2])) { Ok(s) => s, Err(e) => return json!({"error": format!("schema: {e}")}) };
    let zerv = Zerv { schema, vars: vars_of(&req["vars"]) };
    let t = Some(Template::<String>::new(cps_to_string(&req["template"])));
    let out = |r: Result<String, zerv::error::ZervError>| match r { Ok(s) => json!({"ok": true, "out": string_to_cps(&s)}), Err(e) => json!({"ok": false, "err": e.to_string()}) };
    json!({"templated": out(OutputFormatter::format_output(&zerv, "semver", None, &t)),
           "semver": out(OutputFormatter::format_output(&zerv, "semver", None, &None)),
           "pep440": out(OutputFormatter::format_output(&zerv, "pep440", None, &None))})
}
