//! further operations (added per property)
use serde_json::{json, Value};

pub fn dispatch(op: &str, _req: &Value) -> Value {
    json!({"error": format!("unknown op {op}")})
}
