//! Native driver: executes the *real* zerv library (path dependency on /repo) for
//!  - computing the character alphabet from the real std `char` tables,
//!  - dumping the regex HIR of the parser patterns with the locked regex-syntax,
//!  - differential validation of the symbolic interpreter and replay of solver counterexamples.
//! Protocol: one JSON request per stdin line, one JSON response per stdout line.
use std::io::{BufRead, Write};
use std::panic;
use std::str::FromStr;

use serde_json::{json, Value};
use zerv::utils::sanitize::Sanitizer;
use zerv::version::pep440::utils::LocalSegment;
use zerv::version::pep440::core::{DevLabel, PostLabel};
use zerv::version::{BuildMetadata, PreReleaseIdentifier, PreReleaseLabel, SemVer, PEP440};

mod ops;

fn main() {
    panic::set_hook(Box::new(|_| {}));
    let stdin = std::io::stdin();
    let stdout = std::io::stdout();
    for line in stdin.lock().lines() {
        let line = match line {
            Ok(l) => l,
            Err(_) => break,
        };
        if line.trim().is_empty() {
            continue;
        }
        let req: Value = match serde_json::from_str(&line) {
            Ok(v) => v,
            Err(e) => {
                let mut o = stdout.lock();
                writeln!(o, "{}", json!({"error": format!("bad request: {e}")})).ok();
                continue;
            }
        };
        let r = panic::catch_unwind(|| dispatch(&req));
        let resp = match r {
            Ok(v) => v,
            Err(p) => {
                let msg = if let Some(s) = p.downcast_ref::<String>() {
                    s.clone()
                } else if let Some(s) = p.downcast_ref::<&str>() {
                    s.to_string()
                } else {
                    "panic".to_string()
                };
                json!({"panic": msg})
            }
        };
        let mut o = stdout.lock();
        writeln!(o, "{}", resp).ok();
        o.flush().ok();
    }
}

fn dispatch(req: &Value) -> Value {
    let op = req["op"].as_str().unwrap_or("");
    match op {
        "alphabet" => alphabet(req),
        "hir" => hir(req),
        "sanitize" => sanitize(req),
        "semver_parse" => semver_parse(req),
        "pep440_parse" => pep440_parse(req),
        "semver_cmp" => semver_cmp(req),
        "pep440_cmp" => pep440_cmp(req),
        _ => ops::dispatch(op, req),
    }
}

// ---------------------------------------------------------------------------------------------
// alphabet: one representative per behaviour class of non-ASCII code points
fn alphabet(req: &Value) -> Value {
    use regex_syntax::hir::{Class, HirKind};
    // non-ASCII ranges of the given regex patterns
    let mut ranges: Vec<Vec<(u32, u32)>> = vec![];
    if let Some(ps) = req["patterns"].as_array() {
        for p in ps {
            let hir = regex_syntax::Parser::new().parse(p.as_str().unwrap()).unwrap();
            fn walk(h: &regex_syntax::hir::Hir, out: &mut Vec<Vec<(u32, u32)>>) {
                match h.kind() {
                    HirKind::Class(Class::Unicode(c)) => {
                        out.push(c.ranges().iter().map(|r| (r.start() as u32, r.end() as u32)).collect());
                    }
                    HirKind::Repetition(r) => walk(&r.sub, out),
                    HirKind::Capture(c) => walk(&c.sub, out),
                    HirKind::Concat(v) | HirKind::Alternation(v) => {
                        for x in v {
                            walk(x, out)
                        }
                    }
                    _ => {}
                }
            }
            walk(&hir, &mut ranges);
        }
    }
    ranges.sort();
    ranges.dedup();
    let seeds: Vec<u32> = "éÉİ\u{212A}ſ٣\u{00A0}😀".chars().map(|c| c as u32).collect();
    let mut seen = std::collections::HashMap::<String, u32>::new();
    let mut out: Vec<Value> = vec![];
    let ops: Vec<String> = req["ops"].as_array().map(|a| a.iter().map(|x| x.as_str().unwrap().to_string()).collect())
        .unwrap_or_else(|| vec!["alnum", "alpha", "numeric", "ws", "is_lower", "is_upper", "lower", "upper", "width"].iter().map(|s| s.to_string()).collect());
    let has = |k: &str| ops.iter().any(|o| o == k);
    let describe = |c: char, ranges: &Vec<Vec<(u32, u32)>>| -> (String, Value) {
        let lower: Vec<u32> = c.to_lowercase().map(|x| x as u32).collect();
        let upper: Vec<u32> = c.to_uppercase().map(|x| x as u32).collect();
        let kind = |v: &Vec<u32>| -> String {
            if v.len() > 1 {
                format!("multi{}:{}", v.len(), v.iter().filter(|x| **x < 128).count())
            } else if v[0] == c as u32 {
                "self".into()
            } else if v[0] < 128 {
                format!("ascii{}", v[0])
            } else {
                "other".into()
            }
        };
        let memb: Vec<bool> = ranges.iter().map(|cl| cl.iter().any(|(a, b)| (c as u32) >= *a && (c as u32) <= *b)).collect();
        let sig = format!(
            "{}{}{}{}{}{}|{}|{}|{}|{:?}",
            (has("alnum") && c.is_alphanumeric()) as u8,
            (has("alpha") && c.is_alphabetic()) as u8,
            (has("numeric") && c.is_numeric()) as u8,
            (has("ws") && c.is_whitespace()) as u8,
            (has("is_lower") && c.is_lowercase()) as u8,
            (has("is_upper") && c.is_uppercase()) as u8,
            if has("lower") { kind(&lower) } else { String::new() },
            if has("upper") { kind(&upper) } else { String::new() },
            if has("width") { c.len_utf8() } else { 0 },
            memb
        );
        let v = json!({"cp": c as u32, "alnum": c.is_alphanumeric(), "alpha": c.is_alphabetic(),
            "numeric": c.is_numeric(), "ws": c.is_whitespace(), "lower": lower, "upper": upper,
            "width": c.len_utf8(), "is_lower": c.is_lowercase(), "is_upper": c.is_uppercase()});
        (sig, v)
    };
    for s in &seeds {
        let c = char::from_u32(*s).unwrap();
        let (sig, v) = describe(c, &ranges);
        seen.entry(sig).or_insert(*s);
        out.push(v);
    }
    let mut classes = 0u32;
    for cp in 128u32..0x110000 {
        if let Some(c) = char::from_u32(cp) {
            let (sig, v) = describe(c, &ranges);
            if !seen.contains_key(&sig) {
                seen.insert(sig, cp);
                out.push(v);
                classes += 1;
            }
        }
    }
    // the images of the representatives under case mapping must themselves be describable
    let mut extra: Vec<Value> = vec![];
    let have: std::collections::HashSet<u32> = out.iter().map(|v| v["cp"].as_u64().unwrap() as u32).collect();
    let mut have2 = have.clone();
    for v in &out {
        for key in ["lower", "upper"] {
            if !has(key) {
                continue;
            }
            for x in v[key].as_array().unwrap() {
                let cp = x.as_u64().unwrap() as u32;
                if cp >= 128 && !have2.contains(&cp) {
                    have2.insert(cp);
                    extra.push(describe(char::from_u32(cp).unwrap(), &ranges).1);
                }
            }
        }
    }
    out.extend(extra);
    json!({"alphabet": out, "classes": classes, "regex_ranges": ranges.len()})
}

// ---------------------------------------------------------------------------------------------
// regex HIR dump (JSON tree) with the regex crate's default syntax flags
fn hir(req: &Value) -> Value {
    use regex_syntax::hir::{Class, Hir, HirKind, Look};
    fn conv(h: &Hir) -> Value {
        match h.kind() {
            HirKind::Empty => json!({"k": "empty"}),
            HirKind::Literal(l) => {
                let s = String::from_utf8_lossy(&l.0).to_string();
                json!({"k": "lit", "cps": s.chars().map(|c| c as u32).collect::<Vec<_>>()})
            }
            HirKind::Class(Class::Unicode(c)) => {
                json!({"k": "class", "ranges": c.ranges().iter().map(|r| vec![r.start() as u32, r.end() as u32]).collect::<Vec<_>>()})
            }
            HirKind::Class(Class::Bytes(c)) => {
                json!({"k": "class", "ranges": c.ranges().iter().map(|r| vec![r.start() as u32, r.end() as u32]).collect::<Vec<_>>()})
            }
            HirKind::Look(l) => json!({"k": "look", "look": match l {
                Look::Start => "start", Look::End => "end", _ => "other"}}),
            HirKind::Repetition(r) => {
                json!({"k": "rep", "min": r.min, "max": r.max, "greedy": r.greedy, "sub": conv(&r.sub)})
            }
            HirKind::Capture(c) => {
                json!({"k": "cap", "index": c.index, "name": c.name.as_ref().map(|n| n.to_string()), "sub": conv(&c.sub)})
            }
            HirKind::Concat(v) => json!({"k": "concat", "subs": v.iter().map(conv).collect::<Vec<_>>()}),
            HirKind::Alternation(v) => json!({"k": "alt", "subs": v.iter().map(conv).collect::<Vec<_>>()}),
        }
    }
    let p = req["pattern"].as_str().unwrap();
    match regex_syntax::Parser::new().parse(p) {
        Ok(h) => json!({"hir": conv(&h)}),
        Err(e) => json!({"error": e.to_string()}),
    }
}

// ---------------------------------------------------------------------------------------------
pub fn cps_to_string(v: &Value) -> String {
    // strings travel as arrays of code points (lossless for every scalar value)
    match v {
        Value::String(s) => s.clone(),
        Value::Array(a) => a.iter().map(|x| char::from_u32(x.as_u64().unwrap() as u32).unwrap()).collect(),
        _ => String::new(),
    }
}

pub fn string_to_cps(s: &str) -> Value {
    Value::Array(s.chars().map(|c| json!(c as u32)).collect())
}

pub fn make_sanitizer(req: &Value) -> Sanitizer {
    match req["preset"].as_str() {
        Some("semver_str") => Sanitizer::semver_str(),
        Some("pep440_local_str") => Sanitizer::pep440_local_str(),
        Some("uint") => Sanitizer::uint(),
        Some("key") => Sanitizer::key(),
        _ => {
            let sep = if req["sep"].is_null() { None } else { Some(cps_to_string(&req["sep"])) };
            let mut s = Sanitizer::str(
                sep.as_deref(),
                req["lower"].as_bool().unwrap_or(false),
                req["keep"].as_bool().unwrap_or(false),
                req["maxlen"].as_u64().map(|x| x as usize),
            );
            if req["target"].as_str() == Some("uint") {
                s.target = zerv::utils::sanitize::SanitizeTarget::UInt;
            }
            s
        }
    }
}

fn sanitize(req: &Value) -> Value {
    let s = make_sanitizer(req);
    let input = cps_to_string(&req["input"]);
    let out = s.sanitize(&input);
    json!({"out": string_to_cps(&out)})
}

// ---------------------------------------------------------------------------------------------
pub fn semver_to_json(v: &SemVer) -> Value {
    let pre = v.pre_release.as_ref().map(|l| {
        l.iter()
            .map(|i| match i {
                PreReleaseIdentifier::Str(s) => json!({"s": string_to_cps(s)}),
                PreReleaseIdentifier::UInt(n) => json!({"u": n}),
            })
            .collect::<Vec<_>>()
    });
    let build = v.build_metadata.as_ref().map(|l| {
        l.iter()
            .map(|i| match i {
                BuildMetadata::Str(s) => json!({"s": string_to_cps(s)}),
                BuildMetadata::UInt(n) => json!({"u": n}),
            })
            .collect::<Vec<_>>()
    });
    json!({"major": v.major, "minor": v.minor, "patch": v.patch, "pre": pre, "build": build})
}

pub fn semver_from_json(v: &Value) -> SemVer {
    let mut s = SemVer::new(v["major"].as_u64().unwrap(), v["minor"].as_u64().unwrap(), v["patch"].as_u64().unwrap());
    if let Some(l) = v["pre"].as_array() {
        s.pre_release = Some(
            l.iter()
                .map(|i| {
                    if let Some(n) = i["u"].as_u64() {
                        PreReleaseIdentifier::UInt(n)
                    } else {
                        PreReleaseIdentifier::Str(cps_to_string(&i["s"]))
                    }
                })
                .collect(),
        );
    }
    if let Some(l) = v["build"].as_array() {
        s.build_metadata = Some(
            l.iter()
                .map(|i| {
                    if let Some(n) = i["u"].as_u64() {
                        BuildMetadata::UInt(n)
                    } else {
                        BuildMetadata::Str(cps_to_string(&i["s"]))
                    }
                })
                .collect(),
        );
    }
    s
}

pub fn pep440_to_json(v: &PEP440) -> Value {
    let label = v.pre_label.as_ref().map(|l| match l {
        PreReleaseLabel::Alpha => "a",
        PreReleaseLabel::Beta => "b",
        PreReleaseLabel::Rc => "rc",
    });
    let local = v.local.as_ref().map(|l| {
        l.iter()
            .map(|i| match i {
                LocalSegment::Str(s) => json!({"s": string_to_cps(s)}),
                LocalSegment::UInt(n) => json!({"u": n}),
            })
            .collect::<Vec<_>>()
    });
    json!({"epoch": v.epoch, "release": v.release, "pre_label": label, "pre_number": v.pre_number,
        "post_label": v.post_label.is_some(), "post_number": v.post_number,
        "dev_label": v.dev_label.is_some(), "dev_number": v.dev_number, "local": local})
}

pub fn pep440_from_json(v: &Value) -> PEP440 {
    let rel: Vec<u32> = v["release"].as_array().unwrap().iter().map(|x| x.as_u64().unwrap() as u32).collect();
    let mut p = PEP440::new(rel);
    p.epoch = v["epoch"].as_u64().unwrap_or(0) as u32;
    p.pre_label = match v["pre_label"].as_str() {
        Some("a") => Some(PreReleaseLabel::Alpha),
        Some("b") => Some(PreReleaseLabel::Beta),
        Some("rc") => Some(PreReleaseLabel::Rc),
        _ => None,
    };
    p.pre_number = v["pre_number"].as_u64().map(|x| x as u32);
    p.post_label = if v["post_label"].as_bool().unwrap_or(false) { Some(PostLabel::Post) } else { None };
    p.post_number = v["post_number"].as_u64().map(|x| x as u32);
    p.dev_label = if v["dev_label"].as_bool().unwrap_or(false) { Some(DevLabel::Dev) } else { None };
    p.dev_number = v["dev_number"].as_u64().map(|x| x as u32);
    if let Some(l) = v["local"].as_array() {
        p.local = Some(
            l.iter()
                .map(|i| {
                    if let Some(n) = i["u"].as_u64() {
                        LocalSegment::UInt(n as u32)
                    } else {
                        LocalSegment::Str(cps_to_string(&i["s"]))
                    }
                })
                .collect(),
        );
    }
    p
}

fn semver_parse(req: &Value) -> Value {
    let input = cps_to_string(&req["input"]);
    match SemVer::from_str(&input) {
        Ok(v) => json!({"ok": true, "value": semver_to_json(&v), "printed": string_to_cps(&v.to_string())}),
        Err(e) => json!({"ok": false, "err": e.to_string()}),
    }
}

fn pep440_parse(req: &Value) -> Value {
    let input = cps_to_string(&req["input"]);
    match PEP440::from_str(&input) {
        Ok(v) => {
            let printed = v.to_string();
            let again = PEP440::from_str(&printed).map(|w| w.to_string()).ok();
            let eq_again = PEP440::from_str(&printed).map(|w| w == v && w.cmp(&v) == std::cmp::Ordering::Equal).ok();
            json!({"ok": true, "value": pep440_to_json(&v), "printed": string_to_cps(&printed),
                "reprinted": again.map(|s| string_to_cps(&s)), "reparsed_equal": eq_again})
        }
        Err(e) => json!({"ok": false, "err": e.to_string()}),
    }
}

fn ord_to_i(o: std::cmp::Ordering) -> i32 {
    match o {
        std::cmp::Ordering::Less => -1,
        std::cmp::Ordering::Equal => 0,
        std::cmp::Ordering::Greater => 1,
    }
}

fn semver_cmp(req: &Value) -> Value {
    let a = semver_from_json(&req["a"]);
    let b = semver_from_json(&req["b"]);
    json!({"cmp": ord_to_i(a.cmp(&b)), "eq": a == b, "partial": a.partial_cmp(&b).map(ord_to_i)})
}

fn pep440_cmp(req: &Value) -> Value {
    let a = pep440_from_json(&req["a"]);
    let b = pep440_from_json(&req["b"]);
    json!({"cmp": ord_to_i(a.cmp(&b)), "eq": a == b, "partial": a.partial_cmp(&b).map(ord_to_i)})
}
