"""mk_seed.py <seed-id> <guidance text>: creates the scratch worktree /tmp/seed/<id> and the prompt /tmp/seed/<id>.prompt.txt
(the prompt contains only the property text and the worktree path; nothing from /verif)"""
import json, subprocess, sys
sid, guidance = sys.argv[1], sys.argv[2]
pid = sid[:3]
prop = [json.loads(l) for l in open('/verif/properties.jsonl') if json.loads(l)['id'] == pid][0]
wt = '/tmp/seed/' + sid
subprocess.run(['git', '-C', '/repo', 'worktree', 'add', '--detach', wt, 'HEAD'], check=True, capture_output=True)
tmpl = open('/tmp/seed/C10c.prompt.txt').read() if False else None
text = '''You are helping evaluate a verification framework by "seeding" a realistic regression into an open-source Rust project (wislertt/zerv, a CLI that derives SemVer/PEP440 versions from git state). You work ONLY inside your own scratch git worktree: WT (a checkout of the project at its current commit). Do not read or touch /verif or /repo, and do not look at other directories under /tmp/seed.

The project has this semantic property (JSON, includes the files/mechanisms it is anchored in):

PROP

YOUR TASK: make ONE small, realistic source change (the kind of thing a maintainer could plausibly commit: a refactor that is subtly wrong, an off-by-one, a swapped comparison, a "simplification", a wrong boundary, a missed case, two sites that each look fine alone) to the Rust sources under WT/src that BREAKS the property above, while:
  1. the crate still compiles, and
  2. the existing pinned test-suite still passes: run `/opt/seedtools/run_baseline.sh WT` (takes ~40 s; it must print "baseline tests now failing or missing: 0"). Do NOT edit, delete or add to existing tests to make them pass.
  3. The break must need something specific to manifest — an unusual input, a particular boundary value, a multi-step sequence, a particular combination of options, or two cooperating sites — NOT something ordinary use would expose at once (which is also why the existing tests do not notice it).
  4. It must be a NEW violation caused by your change: the unmodified project may already have some quirks; your demonstration must PASS on the unmodified sources and FAIL with your change.

ADDITIONAL GUIDANCE: GUIDE

DELIVERABLES, all written into WT/SEED/ (create the directory):
  - patch.diff : `git -C WT diff -- src` of your change (source only; no test edits).
  - demo_test.rs (or demo.sh / demo.py) : a demonstration — preferably a Rust integration test file that can be dropped into WT/tests/ as `tests/seed_demo.rs` and run with `cargo test --offline --test seed_demo` (it may use the public API of the `zerv` library crate, e.g. `zerv::version::semver::SemVer`, `zerv::utils::sanitize::Sanitizer`, ... check what is `pub`), or a shell script `SEED/demo.sh` running the built binary `target/debug/zerv` (exit 0 = property holds, non-zero = violated). It must fail with the change and pass without it. Verify BOTH yourself (use `git stash` / `git apply -R` to test the unmodified state, then restore your change).
  - meta.json : {"property": "PID", "summary": "...what the change does...", "violated_clause": "...which part of the property statement breaks...", "needs_to_manifest": "...the specific input/sequence/combination needed...", "example_failing_input": "...", "files_changed": [...], "ran": ["commands you ran and their outcome"]}

Leave your change APPLIED in the worktree when you finish (and tests/seed_demo.rs in place if you made one). Work offline (no network; set CARGO_NET_OFFLINE=true; use --offline with cargo). Keep the change minimal (ideally < 15 changed lines). In your final reply, give: the summary, the failing input, and confirm the baseline result line and the demo's pass/fail in both states.
'''.replace('WT', wt).replace('PROP', json.dumps(prop, indent=1)).replace('GUIDE', guidance).replace('PID', pid)
open('/tmp/seed/%s.prompt.txt' % sid, 'w').write(text)
print(wt)
