import sys,time
sys.path[:0]=['/verif/msym','/verif/msym/harness']
import engine, chars as C, c06, c06_schemas, native, relang
C.load_alphabet('/verif/build/alphabet.json')
I=engine.make_interp(); relang.regex_of_static(I,'SEMVER_REGEX'); relang.regex_of_static(I,'PEP440_REGEX'); c06.normal_form_rx(); import c08; c08.spec_rx()
specs=c06_schemas.custom('quick')+c06_schemas.presets('quick')
sp=[s for s in specs if s['name']==sys.argv[1]][0]
ex=engine.explore('c06','path',[dict(sp,fmt=sys.argv[2])],jobs=1,deadline=time.time()+int(sys.argv[3]))
print(sp['name'],'paths',ex.paths,ex.status,'q',ex.queries,'solver',round(ex.solver_s,1),'wall',round(ex.wall,1),'viol',dict(list(ex.vcount.items())[:3]),list(ex.unsupported.items())[:3], 'incomplete',ex.incomplete, flush=True)
for v in ex.violations[:3]: print('   VIOL', v['clause'], v.get('schema_text'), v['vars'], v['detail'][:200])
