"""regenerate seeded/RESULTS.md from seeded/<id>/meta.json + detect.json"""
import glob, json, os
HERE = os.path.join(os.path.dirname(os.path.dirname(os.path.abspath(__file__))), 'seeded')
rows = []
for d in sorted(glob.glob(os.path.join(HERE, 'C*'))):
    sid = os.path.basename(d)
    meta = json.load(open(os.path.join(d, 'meta.json')))
    det = json.load(open(os.path.join(d, 'detect.json'))) if os.path.exists(os.path.join(d, 'detect.json')) else {}
    cells = []
    for chk, r in det.items():
        cells.append('%s → %s' % (chk, r if isinstance(r, str) else 'exit %s `%s`' % (r['exit'], r['classes'].strip())))
    note = meta.get('status_on_current_tree') or meta.get('note') or ''
    summ = (meta.get('summary') or '').replace('|', '/').replace('\n', ' ')[:120]
    rows.append('| %s | %s | %s | %s%s |' % (sid, meta.get('property', sid[:3]), summ, '; '.join(cells), (' — ' + str(note)[:260]) if note else ''))
head = '''# Seeded breaking changes vs checks (quick tier)

Each row: a change produced by a fresh sub-agent (property text + scratch worktree only), re-confirmed by `tools/confirm_seed.sh`
(baseline 3177/3177 with the change; demonstration fails with it, passes without it), then applied to /repo, the check run, and undone
(`tools/seed_matrix.sh` / `tools/run_seed.sh`; seeded runs write their evidence to build/seed_evidence, never to evidence/). First-run
misses and what was strengthened are noted in the cell.

| seed | property | change (summary) | check → exit / violation classes |
|---|---|---|---|
'''
open(os.path.join(HERE, 'RESULTS.md'), 'w').write(head + '\n'.join(rows) + '\n')
print(len(rows), 'seeds')
