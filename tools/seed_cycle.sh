#!/bin/bash
# usage: seed_cycle.sh <seed-id> [check-id ...]  — confirm the seed in its scratch worktree, store it, remove the worktree, run the check(s) against it
S=$1; shift; CHECKS="${@:-${S:0:3}}"
/verif/tools/confirm_seed.sh /tmp/seed/$S $S 2>&1 | tail -2
git -C /repo worktree remove --force /tmp/seed/$S 2>/dev/null; rm -rf /tmp/seed/$S
for P in $CHECKS; do /verif/tools/run_seed.sh $S $P quick 2>&1 | tail -4; done
