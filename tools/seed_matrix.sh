#!/bin/bash
# Runs every stored seed against the quick check of its property (and extra checks given in EXTRA), one at a time.
# Applies the patch to /repo, runs the check, undoes it.  Results: /verif/seeded/<id>/detect.json
cd /verif
for d in seeded/*/; do
  id=$(basename $d); pid=${id:0:3}
  [ -n "${1:-}" ] && [[ "$id" != $1 ]] && continue
  [ -f $d/detect.json ] && [ -z "${FORCE:-}" ] && continue
  checks="$pid"
  case $id in C01a) checks="C01 C16";; C13a) checks="C13 C16";; C03a) checks="C04";; C15b) checks="C15 C04";; C13b) checks="C13";; esac
  out="{"
  for c in $checks; do
    grep -q "'$c'" tools/manifest_registry.py || { out="$out\"$c\": \"no check\","; continue; }
    cd /repo
    if git apply --check /verif/$d/patch.diff 2>/dev/null; then git apply /verif/$d/patch.diff
    elif git apply --3way /verif/$d/patch.diff >/dev/null 2>&1; then git reset -q
    else out="$out\"$c\": \"patch does not apply\","; git checkout -q -- . ; git reset -q --hard; cd /verif; continue; fi
    cd /verif
    mkdir -p /verif/build/seed_evidence; VERIF_EVIDENCE_DIR=/verif/build/seed_evidence timeout 1500 ./check $c --tier quick > /tmp/matrix_${id}_$c.log 2>&1; rc=$?
    cls=$(grep -E "^  class " /tmp/matrix_${id}_$c.log | sed -E 's/^  class ([^ ]+) .*/\1/' | tr '\n' ' ')
    git -C /repo checkout -q -- .
    out="$out\"$c\": {\"exit\": $rc, \"classes\": \"$cls\"},"
    echo "$id $c exit=$rc classes=$cls"
  done
  echo "${out%,}}" > $d/detect.json
done
