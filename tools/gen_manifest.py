#!/usr/bin/env python3
"""Regenerates /verif/MANIFEST.json from the registry below (keep it the single source of truth)."""
import json, os
V = os.path.dirname(os.path.dirname(os.path.abspath(__file__)))
ids = [json.loads(l)['id'] for l in open(os.path.join(V, 'properties.jsonl'))]

CHECKS = {}
NA = {}

def check(pid, technique, text, note, design_ref, engine='msym'):
    CHECKS[pid] = dict(property_id=pid, quick_cmd='./check %s --tier quick' % pid, thorough_cmd='./check %s --tier thorough' % pid,
                       evidence_file='/verif/evidence/%s.json' % pid, replay_cmd_template='./check %s --replay {path}' % pid,
                       engine=engine, level_claimed=dict(category='model_checking', text=text, design_ref=design_ref),
                       level_note=note, technique=technique)

exec(open(os.path.join(V, 'tools', 'manifest_registry.py')).read())

for i in ids:
    if i not in CHECKS and i not in NA:
        NA[i] = 'check not built yet in this round (see DESIGN.md per-property plan)'
hooks_commits = []
m = dict(version=1, setup_cmd='./setup.sh',
         hooks=dict(guard='verif', enable='none needed: the engines read the MIR of /repo (private items included) and the native driver / Kani harness crates use the public API through a path dependency',
                    baseline_off_cmd='cd /repo && cargo nextest run --workspace --no-fail-fast --tool-config-file pb:/w/lib/nextest.toml --profile pb --test-threads 8 --offline',
                    source_commits=hooks_commits, add_only=True),
         engines=ENGINES, checks=[CHECKS[i] for i in ids if i in CHECKS],
         not_applicable=[dict(property_id=i, reason=NA[i]) for i in ids if i in NA and i not in CHECKS],
         notes=NOTES)
json.dump(m, open(os.path.join(V, 'MANIFEST.json'), 'w'), indent=1)
print('checks:', [c['property_id'] for c in m['checks']], 'n/a:', [n['property_id'] for n in m['not_applicable']])
