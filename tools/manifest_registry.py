ENGINES = [
 dict(name='msym', path='/verif/msym', serves_properties=['C16'],
      kind_free_text='forking symbolic executor over the rustc MIR text of /repo (dumped on every run with the repo\'s pinned compiler), z3 as the deciding solver, python models of std; counterexamples replayed on the natively compiled crate'),
 dict(name='native-driver', path='/verif/native', serves_properties=['C16'],
      kind_free_text='small Rust binary with a path dependency on /repo: alphabet classes from the real std char tables, differential validation of msym, replay of solver models'),
]
NOTES = ('Solver-based checking of the real code. exit 0 held / exit 1 VIOLATION (solver model replayed natively) / exit 2 inconclusive '
         '(unsupported construct, solver unknown, validation mismatch, non-reproducing model, time cap). known_findings.json lists recorded and fixed findings.')

check('C16', 'symbolic execution of the MIR of Sanitizer::* with all inputs up to a length bound as solver variables; z3 decides each clause per path',
      'Every string of length <= N (quick 5, thorough 7/8) over all 128 ASCII code points plus one representative per non-ASCII behaviour class is pushed symbolically through the real MIR of src/utils/sanitize.rs for every separator/lowercase/keep_zeros/max_length configuration and the four presets; per path z3 is asked for an input violating charset, separator placement, leading-zero rule, length bound, the independent maximal-ASCII-runs reference, idempotence (second symbolic run) and the integer-sanitiser rule. Bounded model checking: nothing is claimed beyond the bounds.',
      'trusted: python models of std str/String/char/iterator functions (validated against the native build on every run with the repo test literals and seeded random inputs), the alphabet class argument for code points outside ASCII+R, z3. separator none is outside the statement: only length bound/panic freedom (and, without max_length, leading-zero rule + idempotence).',
      'DESIGN.md §3, §7 C16')

NA['C18'] = 'finite table comparison between python source and clap derive metadata plus process execution; nothing to decide symbolically, clap builder code is outside both engines; CrossHair on the Python argv builder was tried and finds seeded bugs but never confirms path exhaustion on the real function, so it would be unbounded bug hunting (DESIGN §6)'

check('C10', 'symbolic execution of the MIR of <SemVer as Ord>::cmp / PartialEq::eq / partial_cmp on symbolic version pairs and triples; z3 compares against an independent SemVer 2.0.0 §11 comparator',
      'Two (three) SemVer records with fully symbolic u64 numbers and symbolic identifier contents (shape enumerated: pre-release lists up to 2 (thorough 3) identifiers, strings up to 2 (3) chars, arbitrary build metadata) are run through the real comparator MIR; per path z3 is asked for values where cmp differs from the spec comparator, where cmp(b,a) is not the reverse, where == disagrees with cmp == Equal, where partial_cmp differs, or where transitivity fails. Every model is replayed on the native build before it is reported.',
      'trusted: python models of Ord for u64/String, Vec indexing, Ordering::then_with; the spec oracle; z3. Bounded: longer lists/strings are outside.',
      'DESIGN.md §7 C10')
check('C11', 'symbolic execution of the MIR of <PEP440 as Ord>::cmp / eq with symbolic presence bits and numbers; z3 compares against the lexicographic key of the statement',
      'PEP440 records with symbolic epoch/release numbers (any u32), symbolic presence of pre/post/dev parts, their labels and numbers, and local segment lists of enumerated shape are run through the real comparator MIR; z3 looks for a pair where cmp differs from the documented key order, antisymmetry or eq-consistency fails, or a triple breaking transitivity. Models are replayed natively.',
      'trusted: python models of Ord for u32/String/Vec, Option::unwrap_or, slice::get; the key oracle; z3. Spelling independence (parser side) is decided with the parser obligations of C09. Bounded: release <= 3 (4), local <= 2 (3) segments.',
      'DESIGN.md §7 C11')
for e in ENGINES:
    e['serves_properties'] = sorted(set(e['serves_properties']) | {'C10', 'C11'})

ENGINES.append(dict(name='relang', path='/verif/msym/relang.py', serves_properties=['C08', 'C09'],
      kind_free_text='the parser regex literals (from the MIR constants) lowered to HIR by the locked regex-syntax and translated to z3 RegLan; language inclusion/difference against the SemVer 2.0.0 / PEP 440 Appendix B grammars, unbounded in string length'))
check('C08', 'z3 regular-language inclusion of the real regex vs the SemVer grammar (unbounded) + symbolic execution of the MIR of SemVer::from_str/Display on all strings up to a length bound and structured digit families',
      'relang decides L(spec) subset of L(SEMVER_REGEX) and produces a witness of the converse difference for strings of any length. msym runs the real from_str (regex matcher model, parse::<u64>, parse_identifiers, parse_build_metadata) and to_string on every string of length <= 7 (thorough 9) over ASCII plus non-ASCII class representatives and on structured families with numeric fields of up to 21 digits; per path z3 decides accepted <=> grammar and printed == input minus v. Models are replayed natively.',
      'trusted: backtracking regex matcher over the HIR of the locked regex-syntax (validated against native on the repo test literals), python std models, z3 (sequence solver for relang). zerv check CLI exit status is outside. Known finding recorded: core numbers >= 2^64 rejected.',
      'DESIGN.md §4, §7 C08')
check('C09', 'z3 regular-language inclusion of the real regex vs PEP 440 Appendix B (unbounded) + symbolic execution of the MIR of PEP440::from_str/normalize/Display/cmp on bounded strings, digit families and spelling families',
      'relang decides the two language inclusions for any length. msym runs from_str on every string of length <= 5 (thorough 7), on numeric groups of up to 11 (12) symbolic digits in every position and on every label/separator/case spelling with symbolic numbers; per path z3 decides accepted <=> Appendix B, printed == independently computed normal form (numbers preserved), from_str(print) prints the same (idempotence, second symbolic parse) and the real cmp/eq call the two records Equal.',
      'trusted: regex matcher model, python std models (split/replace/parse/to_lowercase), my Appendix B pattern and normal-form constructor, z3. Known finding recorded: numbers >= 2^32 rejected.',
      'DESIGN.md §4, §7 C09')
for e in ENGINES:
    if e['name'] in ('msym', 'native-driver'):
        e['serves_properties'] = sorted(set(e['serves_properties']) | {'C08', 'C09'})

ENGINES.append(dict(name='kani', path='/verif/kani', serves_properties=['C17'],
      kind_free_text='Kani 0.68 / CBMC 6.11 proof harnesses over the compiled zerv + chrono code (harness crate with a path dependency on /repo), used for machine-integer kernels'))
check('C17', 'Kani/CBMC proofs that chrono\'s compiled calendar accessors equal an independent reference for every second 1970-2199, plus symbolic execution of the MIR of resolve_timestamp with the timestamp as a solver variable',
      'Six Kani harnesses (year, month, day, time of day, weekday, ordinal) are decided by CBMC over all 7.26e9 seconds of 1970-2199 on the compiled chrono code, each with a cover! reachability twin. msym then runs the real tokenizer/mapping of resolve_timestamp for the 16 documented patterns and their unambiguous concatenations (pairs; thorough: triples) with the timestamp symbolic, and z3 decides that the digits returned are the field the statement names, unpadded or fixed width. ZervSchema::new is executed for var(ts(name)) of all 16 names. A native sweep (3 instants of every day x 16 patterns) validates the chrono format model.',
      'trusted: strftime-item rendering model of chrono::format (padding), validated by the native sweep; python std models; CBMC and z3. Years after 2199 and custom % formats are outside.',
      'DESIGN.md §5, §7 C17', engine='kani+msym')
for e in ENGINES:
    if e['name'] in ('msym', 'native-driver'):
        e['serves_properties'] = sorted(set(e['serves_properties']) | {'C17'})

check('C07', 'symbolic execution of the MIR of the four conversions (SemVer/PEP440 <-> Zerv) on canonical-shape records with symbolic numbers; z3 decides round-trip identity and field equality per path',
      'Canonical-shape SemVer records (every combination of epoch/pre-release/post/dev parts and build ids) and PEP 440 records with <= 3 release numbers are built with symbolic numbers (all small, or one designated number per position ranging over digit-length classes of the whole u64/u32 range, split at 2^32) and pushed through the real to_zerv_with_schema / From<Zerv> MIR including schema validation. z3 decides per path: SemVer->Zerv->SemVer prints the same version, ->PEP440 has exactly the stated fields (u32 range), PEP440->SemVer->PEP440 is equal under the real cmp/eq, the SemVer rendering is a fixed point, and no number above u32 is silently replaced. Models are replayed natively.',
      'trusted: python models of Vec/Option/String/IndexMap/parse/to_string; z3. Numeric domain is class-based (stated in bounds), build/local identifiers <= 2. Known finding recorded: numbers > u32 dropped/moved by the infallible From<Zerv> for PEP440.',
      'DESIGN.md §7 C07')
for e in ENGINES:
    if e['name'] in ('msym', 'native-driver'):
        e['serves_properties'] = sorted(set(e['serves_properties']) | {'C07'})

check('C06', 'symbolic execution of the MIR of SemVer/PEP440::from(Zerv), components.rs, sanitize.rs and Display on a menu of schemas with symbolic variables; z3 compares the rendered string with a reference renderer transcribed from the statement; smart-preset tier choice vs the decision table',
      'For a menu of schemas (every component kind in core / extra-core / build positions, literals before integers, more than three integers, timestamps, the 16 fixed preset schemas) the real renderers run on Zerv values whose mentioned variables have symbolic presence and symbolic contents (numbers, 1-2 char texts over ASCII + non-ASCII representatives, timestamps); per path z3 is asked for variable values where the rendered SemVer / PEP 440 string differs from the reference renderer. The six smart presets are executed with all variables symbolic (numbers any u64) and their tier/context choice is compared with the documented decision table.',
      'trusted: python std/regex/chrono-format models, the reference renderer, z3. Bounded: numbers <= 99, texts <= 2 (thorough 4) chars, schema menu; custom JSON variables outside.',
      'DESIGN.md §7 C06')
check('C01', 'same symbolic executions as C06 continued through Display and the real parsers; z3 / grammar matcher decide well-formedness of every output string per path',
      'On every path of the C06 exploration (schemas x symbolic variables x both formats, including 11- and 21-digit all-numeric texts and non-ASCII text) the emitted string must be ASCII, match the SemVer 2.0.0 grammar resp. the PEP 440 normal form (ASCII grammar patterns run by the matcher on the symbolic output), be accepted by zerv\'s own from_str (executed symbolically on the output) and, for the preset schemas, re-render to itself through the same format.',
      'trusted: as C06; the grammar patterns are mine (SemVer BNF, PEP 440 normal form). The CLI wrapper, --output-prefix and templates are outside.',
      'DESIGN.md §7 C01')
for e in ENGINES:
    if e['name'] in ('msym', 'native-driver'):
        e['serves_properties'] = sorted(set(e['serves_properties']) | {'C06', 'C01'})

check('C05', 'symbolic execution of the MIR of Zerv::apply_component_processing (all process_* / reset / schema-section code) with symbolic start values, symbolic presence and amounts of the by-name flags; z3 compares the resulting variables with the 11-level law',
      'ResolvedArgs records are built through the derived Default MIR and filled with flags whose presence and u32 amounts are solver variables (windows of 3 levels at a time in quick, 4 in thorough, plus all-bumps / all-overrides), label overrides/bumps, and index-addressed specs (positive, negative, ~n; literals; 15 invalid shapes; amounts concrete or symbolic decimal digits: any one-digit amount incl. 0, any ten-digit amount up to u32::MAX). The start version has symbolic presence and values for every field. The oracle applies the statement\'s law with z3 If-terms; z3 searches for start values and amounts where the real result differs, where a higher level changes, or where an invalid target is accepted.',
      'trusted: python models of Option/Vec/IndexMap/HashSet/split_once/parse/sort_by_key; the law oracle; z3. Start values <= 2^40 (u64 overflow belongs to C13); context overrides and template resolution are outside.',
      'DESIGN.md §7 C05')
for e in ENGINES:
    if e['name'] in ('msym', 'native-driver'):
        e['serves_properties'] = sorted(set(e['serves_properties']) | {'C05'})

check('C04', 'symbolic execution of the MIR of the flow pipeline (FlowArgs::*, BranchRules::*, ZervDraft::to_zerv, ResolvedArgs::resolve, apply_component_processing, hash_int) with tag numbers, distance, dirty, branch characters, flags and the branch hash as solver variables; Tera is modelled for the template family flow builds; Kani/CBMC on BranchRule::matches over arbitrary ASCII bytes',
      'Rule resolution (explicit flags else first matching rule: exact, `prefix/*` only under `prefix/`, `*`; number = rule number, else first all-digit path segment after the prefix, else hash) for six rule sets incl. the GitFlow defaults and every branch name up to a length bound; the branch-hash contract (<= length digits, no leading zero, deterministic, accepted as u32 for lengths 1..10; SipHash uninterpreted); and the composed law tag x rule x distance x dirty x flags -> patch / label / number / post / dev, decided by running both passes of the flow pipeline from MIR on symbolic draft variables and comparing the resulting variables with the statement\'s law. Kani proves matches() on all <= 5-byte ASCII names on the compiled code. Every reported flow result is replayed through the real run_flow_pipeline (real Tera, real RON) natively.',
      'trusted: the Tera subset model (msym/models_tera.py; boundary = Template::render_string), the assumption that the second pass re-reads the same source, python std models, uninterpreted-hash model (a real witness is searched natively), z3, CBMC. One-digit version numbers in the composed law; wall clock before 2106. Known finding recorded: hash length 10 can exceed u32.',
      'DESIGN.md §7 C04', engine='msym+kani')
for e in ENGINES:
    if e['name'] in ('msym', 'native-driver', 'kani'):
        e['serves_properties'] = sorted(set(e['serves_properties']) | {'C04'})

check('C15', 'symbolic execution of the MIR of the SemVer/PEP440 part accessors, ZervTemplateContext::from_zerv and the custom Tera functions with symbolic records / values; z3 decides recomposition and each function contract per path',
      'PARTIAL. Decided: base/pre_release/build parts recompose exactly to to_string for every SemVer / PEP 440 record shape in the bound, docker form = SemVer with + -> -; ZervTemplateContext::from_zerv (executed with Utc::now symbolic) yields semver/pep440 strings, part objects and scalars equal to the conversions of the same Zerv for a set of C06 schemas with symbolic variables; prefix / prefix_if / hash / sanitize / format_timestamp keep their contracts for symbolic argument values (functions called on HashMap<String, tera::Value> arguments built in the interpreter). NOT decided: Tera\'s own parsing/rendering of arbitrary user templates.',
      'trusted: python models (std, HashMap, serde_json::Value accessors, chrono items, uninterpreted SipHash), z3. hash_int is under C04.',
      'DESIGN.md §7 C15')
for e in ENGINES:
    if e['name'] in ('msym', 'native-driver'):
        e['serves_properties'] = sorted(set(e['serves_properties']) | {'C15'})

check('C12', 'symbolic execution of the MIR of ZervSchema::new / validate / set_* / Zerv::new on schemas whose components are solver variables ranging over all 17 plain variables; z3 compares acceptance with the placement rules',
      'PARTIAL. Decided: the refusal / placement half - for every schema with up to 3+3+1 (thorough 4+4+2) components where each plain component is any of the 17 variables (one solver variable per position), plus literal and timestamp mixes with symbolic pattern text, the real constructors and validating setters return Ok exactly when the statement\'s placement rules hold (primaries only in core, unique and ordered; secondaries only in extra-core, unique; neither in build; known timestamp pattern; not all empty). NOT decided: byte-identical RON round trips, malformed RON and pipe equivalence - serde/ron library code has no MIR in the crate and is out of CBMC\'s reach.',
      'trusted: python models of Vec/HashSet/IndexMap/iterators; the z3 formula of the rules; z3. Conversions emitting schemas run the same validators under C07.',
      'DESIGN.md §7 C12')
for e in ENGINES:
    if e['name'] in ('msym', 'native-driver'):
        e['serves_properties'] = sorted(set(e['serves_properties']) | {'C12'})

check('C13', 'symbolic execution of the MIR of panic-prone library kernels (byte slicing, chrono formatting with a symbolic format string, infallible conversions, bump additions) with every MIR panic path as the negated property',
      'PARTIAL. Decided: in-process panic freedom of derive_short_hash (hashes <= 9 chars incl. non-ASCII), the six template functions with symbolic values / lengths and format_timestamp with EVERY format string up to 3 (4) chars (strftime item validity mirrored from the locked chrono), Zerv::from(SemVer) on all identifier lists <= 3 (4) over {epoch, post, dev, alpha, rc, x, number}, and every bump addition with start values up to 2^64-1; flow\'s branch-rule resolution on names with all-digit segments of 1..20 digits; and ANY SINGLE GIT SUB-COMMAND FAILING: get_vcs_data + vcs_data_to_zerv_vars run from MIR against the C02 git stub where the git call with a solver-chosen index (0..40) returns Err - the extraction must return Ok or Err, never panic, and must not write to standard output (print!/println! are modelled as writes to a per-path stdout log; only cli::app prints the result). Counterexamples are replayed at process level: the real zerv binary on a real repository with a git wrapper that fails exactly that call, judged by the statement (status 0 and exactly one stdout line, or non-zero, stderr diagnostic, empty stdout, no panic); the same process-level run with each of the first 14 git calls failing in turn is part of every run as differential validation. Every panic path of the other properties\' executions is reported by those checks. NOT decided: argument-vector parsing (clap), malformed stdin documents (ron), more than one failing git command, git printing malformed output with status 0.',
      'trusted: python std models, the chrono strftime validity model, z3. All findings of this check on the pinned tree were repaired by fix: commits (recorded in known_findings.json).',
      'DESIGN.md §7 C13')
for e in ENGINES:
    if e['name'] in ('msym', 'native-driver'):
        e['serves_properties'] = sorted(set(e['serves_properties']) | {'C13'})


check('C03', 'symbolic execution of the MIR of both passes of the flow pipeline and of the SemVer / PEP 440 renderers with tag numbers, distance, dirty, branch and flags as solver variables; z3 compares the rendered version with X.Y.Z and X.Y.(Z+1) through independent SemVer-precedence / PEP 440-key comparators',
      'For final-release tags X.Y.Z and every combination of distance (absent / 0..9), dirty (absent / true / false), branch (absent, exact, prefix and free characters), rule set, post mode, label/number/--dirty/--no-dirty flags, hash length and standard schema preset in the menu: a clean checkout at the tag yields exactly X.Y.Z; every other state yields V with X.Y.Z < V < X.Y.(Z+1) in SemVer precedence and in PEP 440 order (oracles written from the specs, applied to the symbolic records the real renderers return); in commit post-mode two symbolic runs with d < d\' give strictly increasing versions. Reported results are replayed through the real run_flow_pipeline natively and judged by string-level comparators.',
      'trusted: Tera subset model, second pass = same draft variables, python std models, z3. Bounds: one-digit version numbers/distances (quick X.Y fixed), schema/branch/rule menus, wall clock before 2106-02-07 (dev timestamp is a u32). "Along first-parent chains of real git histories" is reduced to the distance/dirty abstraction (git is C02). Pre-release tags are not decided.',
      'DESIGN.md §7 C03')
for e in ENGINES:
    if e['name'] in ('msym', 'native-driver'):
        e['serves_properties'] = sorted(set(e['serves_properties']) | {'C03'})


check('C02', 'symbolic execution of the MIR of GitVcs::get_vcs_data (tag selection, distance, facts) and vcs_data_to_zerv_vars with `git` replaced by a nondeterministic stub: tag placement, distance, times, branch and status text are solver variables; z3 decides per path that the reported base tag is admissible under the statement; counterexamples are rebuilt as real git repositories and replayed through the real extraction',
      'PARTIAL. Decided: zerv\'s side of the extraction. `GitVcs::run_git_command` (the only place a git process is started) is replaced by a stub that answers each sub-command zerv issues (rev-list --topo-order, log --tags --no-walk, tag --points-at, rev-list --count, rev-parse, branch --show-current, log -1 --format=%ct, status --porcelain, show -s --format=%ct, rev-list -n 1) from a symbolic summary of a history: the commits of the topological order (1..3, thorough 1..5), one tagged commit unreachable from HEAD, and for every tag name of six menus (valid, invalid and two-format spellings; numeric vs lexicographic order; pre-releases; post/dev) a solver variable for where it points (absent / each commit / the unreachable commit). The real get_commits_in_topo_order, get_latest_tag, filter_only_valid_tags, parse_with_format_batch / auto-detect majority vote, find_max_version_tag (real Ord), calculate_distance, the fact getters and vcs_data_to_zerv_vars run from MIR. Obligations per path: the reported base tag is a highest-version valid tag (my validity patterns, my comparators) of the first commit of the order that carries a valid tag, tags on the unreachable commit never count, none valid -> no tag and NoTagsFound rather than a version; commit hash, g prefix, commit time, branch (detached -> none), dirty <=> non-empty status, distance, tag commit hash and tag time are passed through exactly into VcsData and into the variables (major/minor/patch from the tag). Any git sub-command without a stub makes the run inconclusive (exit 2), never a pass. Each run also checks the stub\'s contract assumptions (topological order shows children first, --tags --no-walk = tagged commits incl. annotated, --points-at, --count = |anc(HEAD) minus anc(tag)|, show-current, porcelain vs untracked/modified/staged/ignored) and the whole real extraction against an independent oracle on random real repositories with merges, annotated and lightweight tags, side branches and detached HEAD (quick 12+12, thorough 150+240). Not decided: git itself and the object database, repository discovery, shallow clones, histories beyond the summary bound (a failing git sub-command is C13\'s fault-injection kernel on this same stub; a `tag --sort=<key>` listing is answered in a solver-chosen order).',
      'trusted: the git sub-command contracts coded in harness/c02.py (validated on real repositories every run), the argument that first-valid-in-topological-order is a nearest validly tagged ancestor (DESIGN §7 C02), tracing macros disabled, python std models, z3.',
      'DESIGN.md §7 C02')
for e in ENGINES:
    if e['name'] in ('msym', 'native-driver'):
        e['serves_properties'] = sorted(set(e['serves_properties']) | {'C02'})


check('C14', '2-safety by self-composition on the MIR: each computation is executed twice on the same symbolic inputs under two independent symbolic process environments (time-zone offset, environment variables, RandomState keys are epoch-private solver variables; the clock is shared); z3 decides whether the two outputs can differ; a difference is replayed by running the real code in two differently configured processes (TZ, variables)',
      'PARTIAL. Decided (in-process, sources none/stdin): resolve_timestamp for the 18 pattern names and any second 1970-2199; the template helpers hash / hash_int / format_timestamp; rendering of every menu/preset schema with a timestamp component in both formats; the whole flow pipeline (both passes, both renderers) on a subset of the C03 configurations — each executed twice with ENV epoch 1 and 2 (models_env.py): chrono Local / with_timezone::<Local> / TimeZone::timestamp_opt on Local read a symbolic whole-hour UTC offset in [-12,+14], std::env::var answers a symbolic presence and value per variable name, every RandomState::new() has fresh symbolic keys (DefaultHasher::new() has the fixed keys std documents), Utc::now is shared between the two executions so that the documented dev-timestamp dependence is factored out. Obligation: both executions succeed or fail together and print the same text. On the current tree no execution reads the environment, so the query is trivially unsat; the value of the check is that any environment read that reaches an output is either modelled (-> a replayed VIOLATION: tried with Utc->Local in parse_timestamp_component, DefaultHasher->RandomState in hash_int, an environment variable switching a pattern) or unsupported (-> exit 2), never a silent pass. UTC-correctness of the calendar fields themselves is C17. Not decided: separate OS processes as such, cwd / -C, locales, the git source (C02), iteration order of std HashMap/HashSet (modelled in insertion order).',
      'trusted: models_env (which std/chrono functions read the environment and what they may return), the shared-clock factoring of the dev timestamp, python std / chrono / Tera-subset models, z3.',
      'DESIGN.md §7 C14')
for e in ENGINES:
    if e['name'] in ('msym', 'native-driver'):
        e['serves_properties'] = sorted(set(e['serves_properties']) | {'C14'})
