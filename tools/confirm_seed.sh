#!/bin/bash
# usage: confirm_seed.sh <worktree> <dest-id>    (re-verifies a seeded change independently, then stores it)
# 1. change applied: baseline passes, demo fails   2. change reverted: demo passes
set -u
WT=$1; ID=$2; DEST=/verif/seeded/$ID
export CARGO_NET_OFFLINE=true
cd $WT || exit 2
mkdir -p $DEST
git -C $WT diff -- src > $DEST/patch.diff
[ -s $DEST/patch.diff ] || { echo "$ID: empty patch"; exit 2; }
B=$(/verif/tools/run_baseline.sh $WT | head -1)
demo() { if [ -f tests/seed_demo.rs ]; then cargo test --offline --test seed_demo >/tmp/confirm_$ID.log 2>&1; else cargo build --offline >/dev/null 2>&1; bash SEED/demo.sh </dev/null >/tmp/confirm_$ID.log 2>&1; fi; echo $?; }
W=$(demo)
git -C $WT apply -R $DEST/patch.diff
WO=$(demo)
git -C $WT apply $DEST/patch.diff
cp SEED/meta.json $DEST/meta.agent.json 2>/dev/null
cp tests/seed_demo.rs $DEST/demo_test.rs 2>/dev/null || cp SEED/demo* $DEST/ 2>/dev/null
echo "$ID | baseline: $B | demo with change exit=$W | demo without change exit=$WO"
python3 - "$DEST" "$ID" "$B" "$W" "$WO" <<'PY'
import json,sys,os
d,i,b,w,wo=sys.argv[1:]
a={}
try: a=json.load(open(d+'/meta.agent.json'))
except Exception: pass
m={"id":i,"property":a.get("property",i[:3]),"summary":a.get("summary"),"violated_clause":a.get("violated_clause"),
"needs_to_manifest":a.get("needs_to_manifest"),"example_failing_input":a.get("example_failing_input"),
"confirmed":{"baseline_with_change":b,"demo_exit_with_change":int(w),"demo_exit_without_change":int(wo),
"how":"tools/confirm_seed.sh: run_baseline (pinned nextest suite vs BASELINE.json stable_pass) with patch applied; cargo test --test seed_demo with and without patch, in a scratch worktree"},
"ok": ("failing or missing: 0" in b) and int(w)!=0 and int(wo)==0}
json.dump(m,open(d+'/meta.json','w'),indent=1)
os.remove(d+'/meta.agent.json') if os.path.exists(d+'/meta.agent.json') else None
print("ok" if m["ok"] else "NOT CONFIRMED")
PY
