#!/bin/bash
# usage: run_baseline.sh <worktree>  — runs the pinned nextest suite in <worktree> and compares with BASELINE.json stable_pass
WT=${1:?worktree}; cd "$WT" || exit 2
export CARGO_NET_OFFLINE=true
[ -f /w/out/rust_env.sh ] && . /w/out/rust_env.sh
rm -f target/nextest/pb/junit.xml
cargo nextest run --workspace --no-fail-fast --tool-config-file pb:/w/lib/nextest.toml --profile pb --test-threads 8 --offline > /tmp/baseline_$(basename $WT).log 2>&1
python3 - "$WT" <<'PY'
import json, sys, xml.etree.ElementTree as ET
wt = sys.argv[1]
base = set(json.load(open('/root/.vp/BASELINE.json'))['stable_pass'])
passed, failed = set(), set()
try:
    root = ET.parse(wt + '/target/nextest/pb/junit.xml').getroot()
    for tc in root.iter('testcase'):
        tid = (tc.get('classname') or '') + '::' + (tc.get('name') or '')
        if tc.find('failure') is not None or tc.find('error') is not None or tc.find('flakyFailure') is not None: failed.add(tid)
        elif tc.find('skipped') is None: passed.add(tid)
except Exception as e:
    print('baseline tests now failing or missing: ALL (no junit: %s)' % e); sys.exit(1)
passed -= failed
bad = sorted(base - passed)
print('baseline tests now failing or missing: %d (of %d)' % (len(bad), len(base)))
for b in bad[:20]: print('  ', b)
sys.exit(1 if bad else 0)
PY
