import sys,time
sys.path[:0]=['/verif/msym','/verif/msym/harness']
import engine, chars as C, c03, native, relang
C.load_alphabet('/verif/build/alphabet.json')
I=engine.make_interp(); relang.regex_of_static(I,'SEMVER_REGEX'); relang.regex_of_static(I,'PEP440_REGEX')
fn=sys.argv[1]; idx=int(sys.argv[2])
args=c03.flow_cases('quick')
a=args[idx]; print(a)
ex=engine.explore('c03',fn,[a],jobs=1,deadline=time.time()+int(sys.argv[3]))
print('paths',ex.paths,ex.status,'q',ex.queries,'wall',round(ex.wall,1),'tags',ex.tags,'viol',dict(list(ex.vcount.items())[:4]),list(ex.unsupported.items())[:4])
for v in ex.violations[:3]: print('   VIOL', v['clause'], v.get('case'), v.get('out'), v['detail'][:200])
print(ex.samples[:2])
