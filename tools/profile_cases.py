"""per-case path counts / wall of an exploration: profile_cases.py <harness> <fn> <cases-expr> (jobs=16 each, sequential)"""
import sys, time
sys.path[:0] = ['/verif/msym', '/verif/msym/harness', '/verif/msym/checks']
import engine, chars as C, relang
C.load_alphabet('/verif/build/alphabet.json')
I = engine.make_interp(); relang.regex_of_static(I, 'SEMVER_REGEX'); relang.regex_of_static(I, 'PEP440_REGEX')
mod, fn, expr = sys.argv[1:4]
m = __import__(mod)
cases = eval(expr, {'m': m})
rows = []
for i, a in enumerate(cases):
    t = time.time()
    ex = engine.explore(mod, fn, [a], jobs=16, deadline=time.time() + 600)
    rows.append((round(time.time() - t, 1), ex.paths, i, str(a)[:150]))
    print(rows[-1], flush=True)
print('total', sum(r[0] for r in rows), sum(r[1] for r in rows))
