#!/bin/bash
# usage: run_seed.sh <seed-id> <property-id> [tier]   — apply seeded patch to /repo, run the check, undo
S=$1; P=$2; T=${3:-quick}
# /repo is shared with long thorough runs: take the repo lock for the whole apply-run-undo cycle
if [ -z "$REPO_LOCKED" ]; then mkdir -p /verif/build; REPO_LOCKED=1 exec flock /verif/build/repo.lock "$0" "$@"; fi
cd /repo || exit 2
if ! git apply --check /verif/seeded/$S/patch.diff 2>/dev/null; then
  if ! git apply --3way /verif/seeded/$S/patch.diff >/dev/null 2>&1; then echo "SEED $S: patch does not apply to current /repo"; git checkout -- . ; git reset -q; exit 3; fi
  git reset -q
else
  git apply /verif/seeded/$S/patch.diff
fi
mkdir -p /verif/build/seed_evidence; cd /verif && VERIF_EVIDENCE_DIR=/verif/build/seed_evidence ./check $P --tier $T > /tmp/seedrun_${S}_${P}.log 2>&1; rc=$?
tail -6 /tmp/seedrun_${S}_${P}.log | cut -c1-400
cd /repo && git checkout -- . && git status --short | head -3
echo "SEED $S check $P tier $T exit=$rc"
