#!/bin/bash
# For every stored seed: does its patch still apply to /repo HEAD, and does its demo still fail with it / pass without it?
export CARGO_NET_OFFLINE=true
WT=/tmp/seed_recheck
git -C /repo worktree remove --force $WT 2>/dev/null
git -C /repo worktree add --detach $WT HEAD >/dev/null 2>&1 || exit 2
cd $WT
for d in /verif/seeded/*/; do
  id=$(basename $d)
  [ -n "${1:-}" ] && [ "$1" != "$id" ] && continue
  git checkout -q -- . ; git clean -fdq tests 2>/dev/null
  if git apply --check $d/patch.diff 2>/dev/null; then ap=clean; git apply $d/patch.diff
  elif git apply --3way $d/patch.diff >/dev/null 2>&1; then ap=3way; git reset -q
  else echo "$id apply=FAILS"; git checkout -q -- .; git reset -q --hard; continue; fi
  if [ -f $d/demo_test.rs ]; then cp $d/demo_test.rs tests/seed_demo.rs; cargo test --offline --test seed_demo >/tmp/recheck_$id.log 2>&1; w=$?
    git checkout -q -- src; cargo test --offline --test seed_demo >/tmp/recheck_${id}_wo.log 2>&1; wo=$?
  else w=NA; wo=NA; fi
  rm -f tests/seed_demo.rs
  echo "$id apply=$ap demo_with_patch_exit=$w demo_without_exit=$wo"
done
cd /; git -C /repo worktree remove --force $WT
