//! C04 cross-check on the compiled code: BranchRule::matches on arbitrary short ASCII branch names.
use zerv::cli::flow::branch_rules::{BranchRule, PostMode, PreReleaseLabel};

fn any_branch<const N: usize>(buf: &mut [u8; N]) -> &str {
    let len: usize = kani::any();
    kani::assume(len <= N);
    for b in buf.iter_mut() {
        let x: u8 = kani::any();
        kani::assume(x < 128);
        *b = x;
    }
    std::str::from_utf8(&buf[..len]).unwrap()
}

#[kani::proof]
#[kani::unwind(7)]
fn c04_prefix_wildcard_matches_only_under_prefix() {
    let rule = BranchRule {
        pattern: "ab/*".to_string(),
        pre_release_label: PreReleaseLabel::Rc,
        pre_release_num: None,
        post_mode: PostMode::Tag,
    };
    let mut buf = [0u8; 5];
    let branch = any_branch(&mut buf);
    let b = branch.as_bytes();
    let expected = b.len() > 3 && b[0] == b'a' && b[1] == b'b' && b[2] == b'/';
    let got = rule.matches(branch);
    assert!(got == expected);
    kani::cover!(got, "reachable: a matching branch");
    std::mem::forget(rule);
}

#[kani::proof]
#[kani::unwind(7)]
fn c04_exact_and_star() {
    let exact = BranchRule {
        pattern: "dev".to_string(),
        pre_release_label: PreReleaseLabel::Beta,
        pre_release_num: Some(1),
        post_mode: PostMode::Commit,
    };
    let star = BranchRule {
        pattern: "*".to_string(),
        pre_release_label: PreReleaseLabel::Alpha,
        pre_release_num: None,
        post_mode: PostMode::Commit,
    };
    let mut buf = [0u8; 4];
    let branch = any_branch(&mut buf);
    let b = branch.as_bytes();
    assert!(exact.matches(branch) == (b.len() == 3 && b[0] == b'd' && b[1] == b'e' && b[2] == b'v'));
    assert!(star.matches(branch) == !b.is_empty());
    kani::cover!(exact.matches(branch), "reachable: exact match");
    std::mem::forget(exact);
    std::mem::forget(star);
}
