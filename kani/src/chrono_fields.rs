//! C17: chrono's UTC calendar fields equal an independent proleptic-Gregorian reference
//! (Hinnant's civil_from_days) for every second from 1970-01-01T00:00:00Z to 2199-12-31T23:59:59Z.
use chrono::{Datelike, Timelike};

pub const END_2199: u64 = 7_258_118_400; // 2200-01-01T00:00:00Z

fn civil(z: i64) -> (i64, u32, u32) {
    let z = z + 719_468;
    let era = if z >= 0 { z } else { z - 146_096 } / 146_097;
    let doe = (z - era * 146_097) as u64;
    let yoe = (doe - doe / 1460 + doe / 36_524 - doe / 146_096) / 365;
    let y = yoe as i64 + era * 400;
    let doy = doe - (365 * yoe + yoe / 4 - yoe / 100);
    let mp = (5 * doy + 2) / 153;
    let d = (doy - (153 * mp + 2) / 5 + 1) as u32;
    let m = if mp < 10 { mp + 3 } else { mp - 9 } as u32;
    (if m <= 2 { y + 1 } else { y }, m, d)
}

fn any_ts() -> u64 {
    let ts: u64 = kani::any();
    kani::assume(ts < END_2199);
    ts
}

#[kani::proof]
fn c17_year() {
    let ts = any_ts();
    let dt = chrono::DateTime::from_timestamp(ts as i64, 0).unwrap();
    let (y, _, _) = civil((ts / 86_400) as i64);
    assert!(dt.year() as i64 == y);
    kani::cover!(y == 2024, "reachable: a 2024 instant");
}

#[kani::proof]
fn c17_month() {
    let ts = any_ts();
    let dt = chrono::DateTime::from_timestamp(ts as i64, 0).unwrap();
    let (_, m, _) = civil((ts / 86_400) as i64);
    assert!(dt.month() == m);
    kani::cover!(m == 2, "reachable: February");
}

#[kani::proof]
fn c17_day() {
    let ts = any_ts();
    let dt = chrono::DateTime::from_timestamp(ts as i64, 0).unwrap();
    let (_, m, d) = civil((ts / 86_400) as i64);
    assert!(dt.day() == d);
    kani::cover!(m == 2 && d == 29, "reachable: 29 February");
}

#[kani::proof]
fn c17_time_of_day() {
    let ts = any_ts();
    let dt = chrono::DateTime::from_timestamp(ts as i64, 0).unwrap();
    let sod = (ts % 86_400) as u32;
    assert!(dt.hour() == sod / 3600);
    assert!(dt.minute() == (sod % 3600) / 60);
    assert!(dt.second() == sod % 60);
    kani::cover!(sod == 86_399, "reachable: last second of a day");
}

#[kani::proof]
fn c17_weekday() {
    let ts = any_ts();
    let dt = chrono::DateTime::from_timestamp(ts as i64, 0).unwrap();
    let days = (ts / 86_400) as i64;
    // 1970-01-01 is a Thursday (Monday = 0 -> 3)
    assert!(dt.weekday().num_days_from_monday() as i64 == (days + 3) % 7);
    kani::cover!((days + 3) % 7 == 6, "reachable: a Sunday");
}

#[kani::proof]
fn c17_ordinal() {
    let ts = any_ts();
    let dt = chrono::DateTime::from_timestamp(ts as i64, 0).unwrap();
    let (y, m, d) = civil((ts / 86_400) as i64);
    let leap = (y % 4 == 0 && y % 100 != 0) || y % 400 == 0;
    let cum = [0u32, 31, 59, 90, 120, 151, 181, 212, 243, 273, 304, 334];
    let ord = cum[(m - 1) as usize] + d + if leap && m > 2 { 1 } else { 0 };
    assert!(dt.ordinal() == ord);
    kani::cover!(ord == 366, "reachable: day 366 of a leap year");
}
