//! Kani harnesses over the compiled zerv / chrono code (bit-precise machine integers).
#![allow(unused)]

#[cfg(kani)]
mod chrono_fields;
#[cfg(kani)]
mod orderings;
#[cfg(kani)]
mod branch_rules;
