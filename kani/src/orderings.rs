//! C10 / C11 cross-check on the compiled code: order laws for numeric-only versions (real wrap-around semantics).
use std::cmp::Ordering;
use zerv::version::{PreReleaseIdentifier, SemVer, PEP440};

fn any_semver() -> SemVer {
    let mut v = SemVer::new(kani::any(), kani::any(), kani::any());
    let n: u8 = kani::any();
    kani::assume(n <= 2);
    if n == 1 {
        v.pre_release = Some(vec![PreReleaseIdentifier::UInt(kani::any())]);
    } else if n == 2 {
        v.pre_release = Some(vec![PreReleaseIdentifier::UInt(kani::any()), PreReleaseIdentifier::UInt(kani::any())]);
    }
    v
}

fn spec_cmp(a: &SemVer, b: &SemVer) -> Ordering {
    if a.major != b.major { return if a.major < b.major { Ordering::Less } else { Ordering::Greater }; }
    if a.minor != b.minor { return if a.minor < b.minor { Ordering::Less } else { Ordering::Greater }; }
    if a.patch != b.patch { return if a.patch < b.patch { Ordering::Less } else { Ordering::Greater }; }
    match (&a.pre_release, &b.pre_release) {
        (None, None) => Ordering::Equal,
        (None, Some(_)) => Ordering::Greater,
        (Some(_), None) => Ordering::Less,
        (Some(p), Some(q)) => {
            let mut i = 0;
            while i < p.len() && i < q.len() {
                let (x, y) = match (&p[i], &q[i]) {
                    (PreReleaseIdentifier::UInt(x), PreReleaseIdentifier::UInt(y)) => (*x, *y),
                    _ => unreachable!(),
                };
                if x != y { return if x < y { Ordering::Less } else { Ordering::Greater }; }
                i += 1;
            }
            if p.len() < q.len() { Ordering::Less } else if p.len() > q.len() { Ordering::Greater } else { Ordering::Equal }
        }
    }
}

#[kani::proof]
#[kani::unwind(4)]
fn c10_numeric_cmp_is_spec() {
    let a = any_semver();
    let b = any_semver();
    let r = a.cmp(&b);
    assert!(r == spec_cmp(&a, &b));
    assert!(b.cmp(&a) == r.reverse());
    assert!((a == b) == (r == Ordering::Equal));
    kani::cover!(r == Ordering::Less && a.pre_release.is_some() && b.pre_release.is_some(), "reachable: two pre-releases ordered");
    std::mem::forget(a);
    std::mem::forget(b);
}

fn any_pep() -> PEP440 {
    let n: u8 = kani::any();
    kani::assume(n >= 1 && n <= 2);
    let rel: Vec<u32> = if n == 1 { vec![kani::any()] } else { vec![kani::any(), kani::any()] };
    let mut v = PEP440::new(rel);
    v.epoch = kani::any();
    if kani::any() { v = v.with_post(Some(kani::any())); }
    if kani::any() { v = v.with_dev(Some(kani::any())); }
    v
}

#[kani::proof]
#[kani::unwind(4)]
fn c11_numeric_antisymmetry_eq() {
    let a = any_pep();
    let b = any_pep();
    let r = a.cmp(&b);
    assert!(b.cmp(&a) == r.reverse());
    assert!((a == b) == (r == Ordering::Equal));
    // post: none lowest; dev: none highest, for equal epoch/release
    if a.epoch == b.epoch && a.release.len() == 1 && b.release.len() == 1 && a.release[0] == b.release[0] {
        if a.post_label.is_none() && b.post_label.is_some() { assert!(r == Ordering::Less); }
        if a.post_label.is_some() == b.post_label.is_some() && a.post_number == b.post_number {
            if a.dev_label.is_some() && b.dev_label.is_none() { assert!(r == Ordering::Less); }
        }
    }
    kani::cover!(r == Ordering::Greater && a.dev_label.is_some(), "reachable: dev release greater");
    std::mem::forget(a);
    std::mem::forget(b);
}
